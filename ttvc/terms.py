"""
Scalar terms of the lambda-domain: finite sums of monomials  SUM_{v1<b1,...,vk<bk} body
where body is a sum-free z3 Real expression over uninterpreted core atoms X_k(a,i,b).

Everything here is exact algebra over an abstract commutative field with an involution `conj`
(floats are treated as mathematical reals / complex numbers -- see DESIGN.md section 3).
"""
import itertools
import z3

R = z3.RealSort()
I = z3.IntSort()
CONJ = z3.Function('conj', R, R)
SQRT = z3.Function('sqrt_', R, R)
ABS = z3.Function('abs_', R, R)
R32 = z3.Function('round32_', R, R)      # rounding of a double precision scalar to float32 (uninterpreted; identity on 0, +-1, small dyadics)

_cnt = itertools.count()


def fresh_int(prefix='v'):
    return z3.Int('%s!%d' % (prefix, next(_cnt)))


def fresh_real(prefix='c'):
    return z3.Real('%s!%d' % (prefix, next(_cnt)))


def fresh_bool(prefix='b'):
    return z3.Bool('%s!%d' % (prefix, next(_cnt)))


def is_sym(x):
    return isinstance(x, z3.ExprRef)


def to_real(x):
    """python number / z3 int / z3 real -> z3 Real expr"""
    if isinstance(x, bool):
        return z3.RealVal(1 if x else 0)
    if isinstance(x, int):
        return z3.RealVal(x)
    if isinstance(x, float):
        if x != x or x in (float('inf'), float('-inf')):
            raise OutOfSubset('non-finite float constant')
        return z3.RealVal(repr(x)) if 'e' not in repr(x) and 'E' not in repr(x) else z3.RealVal(str(__import__('fractions').Fraction(x)))
    if isinstance(x, z3.ArithRef):
        if x.is_int():
            return z3.ToReal(x)
        return x
    if isinstance(x, z3.BoolRef):
        return z3.If(x, z3.RealVal(1), z3.RealVal(0))
    raise OutOfSubset('cannot convert %r to a scalar' % (type(x),))


class OutOfSubset(Exception):
    """the construct is outside the subset the engine models: never mapped to a violation"""
    pass


def conj_expr(e):
    """distribute the involution over a sum-free z3 Real expression"""
    if z3.is_rational_value(e) or z3.is_int_value(e):
        return e
    if z3.is_app(e):
        k = e.decl().kind()
        ch = e.children()
        if k == z3.Z3_OP_ADD:
            return z3.Sum([conj_expr(c) for c in ch]) if len(ch) != 2 else conj_expr(ch[0]) + conj_expr(ch[1])
        if k == z3.Z3_OP_MUL:
            r = conj_expr(ch[0])
            for c in ch[1:]:
                r = r * conj_expr(c)
            return r
        if k == z3.Z3_OP_SUB:
            r = conj_expr(ch[0])
            for c in ch[1:]:
                r = r - conj_expr(c)
            return r
        if k == z3.Z3_OP_UMINUS:
            return -conj_expr(ch[0])
        if k == z3.Z3_OP_DIV:
            return conj_expr(ch[0]) / conj_expr(ch[1])
        if k == z3.Z3_OP_ITE:
            return z3.If(ch[0], conj_expr(ch[1]), conj_expr(ch[2]))
        if k == z3.Z3_OP_TO_REAL:
            return e
        if k == z3.Z3_OP_UNINTERPRETED and e.decl().eq(CONJ):
            return ch[0]
    return CONJ(e)


class Mono(object):
    __slots__ = ('vars', 'body')

    def __init__(self, vars, body):
        self.vars = tuple(vars)
        self.body = body

    def __repr__(self):
        if not self.vars:
            return str(self.body)
        return 'SUM[%s](%s)' % (', '.join('%s<%s' % (v, b) for v, b in self.vars), self.body)


def _rename(m):
    """alpha-rename the bound variables of a monomial to fresh ones"""
    if not m.vars:
        return m
    subs = [(v, fresh_int('s')) for v, _ in m.vars]
    return Mono([(nv, b) for (_, b), (_, nv) in zip(m.vars, subs)], z3.substitute(m.body, *subs))


class Term(object):
    """finite sum of monomials, optionally wrapped in opaque unary functions (sqrt, abs)"""
    __slots__ = ('monos', 'wrap', '_plain_cache')

    def __init__(self, monos, wrap=()):
        self.monos = list(monos)
        self.wrap = tuple(wrap)

    # ---- construction
    @staticmethod
    def of(x):
        if isinstance(x, Term):
            return x
        e = to_real(x)
        if z3.is_rational_value(e) and e.numerator_as_long() == 0:
            return Term([])
        return Term([Mono((), e)])

    @staticmethod
    def zero():
        return Term([])

    def is_simple(self):
        return not self.wrap and all(not m.vars for m in self.monos)

    def simple_expr(self):
        assert self.is_simple()
        if not self.monos:
            return z3.RealVal(0)
        e = self.monos[0].body
        for m in self.monos[1:]:
            e = e + m.body
        return e

    def _nowrap(self, what):
        if self.wrap:
            raise OutOfSubset('arithmetic (%s) on an opaque function of a sum' % what)

    def _plain(self):
        """a wrapped term (sqrt/abs of a sum) used in further arithmetic is abstracted by a fresh constant (sound, loses information)"""
        if not self.wrap:
            return self
        # the SAME wrapped term object is always abstracted by the same constant
        c = getattr(self, '_plain_cache', None)
        if c is None:
            c = Term([Mono((), fresh_real('opq'))])
            try:
                self._plain_cache = c
            except AttributeError:
                pass
        return c

    def _collapse(self):
        """merge all variable-free monomials into one"""
        free = [m for m in self.monos if not m.vars]
        if len(free) <= 1:
            return self
        e = free[0].body
        for m in free[1:]:
            e = e + m.body
        return Term([Mono((), e)] + [m for m in self.monos if m.vars], self.wrap)

    # ---- algebra
    def __add__(self, o):
        o = Term.of(o)._plain()
        self = self._plain()
        return Term(self.monos + o.monos)._collapse()

    __radd__ = __add__

    def __neg__(self):
        self = self._plain()
        return Term([Mono(m.vars, -m.body) for m in self.monos])

    def __sub__(self, o):
        return self + (-Term.of(o))

    def __rsub__(self, o):
        return Term.of(o) + (-self)

    def __mul__(self, o):
        o = Term.of(o)._plain()
        self = self._plain()
        out = []
        for a in self.monos:
            for b in o.monos:
                if a.vars and b.vars:
                    av = set(v.get_id() for v, _ in a.vars)
                    if any(v.get_id() in av for v, _ in b.vars):
                        b = _rename(b)
                out.append(Mono(a.vars + b.vars, a.body * b.body))
        return Term(out)

    __rmul__ = __mul__

    def __truediv__(self, o):
        o = Term.of(o)._plain()
        self = self._plain()
        if not o.is_simple():
            raise OutOfSubset('division by a sum term')
        d = o.simple_expr()
        inv = z3.RealVal(1) / d          # x / c is kept as x * (1/c) so that products match syntactically
        return Term([Mono(m.vars, m.body * inv) for m in self.monos])

    def __rtruediv__(self, o):
        return Term.of(o) / self

    def conj(self):
        self._nowrap('conj')
        return Term([Mono(m.vars, conj_expr(m.body)) for m in self.monos])

    def summed(self, v, bound):
        """SUM_{0<=v<bound} self"""
        self._nowrap('sum')
        if isinstance(bound, int) and bound == 1:
            return self.subst([(v, z3.IntVal(0))])
        out = []
        for m in self.monos:
            out.append(Mono(m.vars + ((v, bound),), m.body))
        return Term(out)

    def subst(self, pairs):
        pairs = [(a, b if is_sym(b) else z3.IntVal(b)) for a, b in pairs]
        return Term([Mono([(v, (z3.substitute(b, *pairs) if is_sym(b) else b)) for v, b in m.vars],
                          z3.substitute(m.body, *pairs)) for m in self.monos], self.wrap)

    def wrapped(self, fn):
        if self.is_simple():
            f = {'sqrt': SQRT, 'abs': ABS}[fn]
            return Term([Mono((), f(self.simple_expr()))])
        return Term(self.monos, self.wrap + (fn,))

    def __repr__(self):
        s = ' + '.join(repr(m) for m in self.monos) if self.monos else '0'
        for w in self.wrap:
            s = '%s(%s)' % (w, s)
        return s


def ite(cond, t1, t2):
    """if cond then t1 else t2 ; cond is a python bool or z3 Bool not mentioning bound variables"""
    if cond is True:
        return Term.of(t1)
    if cond is False:
        return Term.of(t2)
    t1 = Term.of(t1)
    t2 = Term.of(t2)
    t1._nowrap('ite'); t2._nowrap('ite')
    if t1.is_simple() and t2.is_simple():
        return Term([Mono((), z3.If(cond, t1.simple_expr(), t2.simple_expr()))])
    zero = z3.RealVal(0)
    out = [Mono(m.vars, z3.If(cond, m.body, zero)) for m in t1.monos]
    out += [Mono(m.vars, z3.If(cond, zero, m.body)) for m in t2.monos]
    return Term(out)._collapse()
