"""abstract values used by loop invariants and function contracts of index computations"""
import z3
from . import tensors as T
from .tensors import STensor, to_int, is_sym
from .terms import fresh_int


class IntVector(object):
    """1-D integer tensor of the given length whose every entry lies in [lo, hi)"""

    def __init__(self, length, lo, hi, dtype='int64', lib='torch'):
        self.length, self.lo, self.hi, self.dtype, self.lib = length, lo, hi, dtype, lib

    def check(self, ex, v):
        if not isinstance(v, STensor) or v.ndim != 1 or v.dtype != self.dtype:
            return [('type', 'not a 1-D %s tensor: %r' % (self.dtype, v))]
        out = [('length', to_int(v.shape[0]) == to_int(self.length))]
        if v.ival is None:
            return out + [('range', 'integer values are not tracked')]
        j = tuple(fresh_int('j') for _ in v.axes[0].factors)
        bounds = [z3.And(x >= 0, x < to_int(f.size)) for x, f in zip(j, v.axes[0].factors)]
        e = T.int_entry(v, [j])
        out.append(('range', z3.Implies(z3.And(*bounds), z3.And(e >= to_int(self.lo), e < to_int(self.hi)))))
        return out

    def fresh(self, ex, name='iv'):
        return T.opaque_int_tensor([T.Axis(T.sz(self.length))], self.lo, self.hi, name, lib=self.lib, dtype=self.dtype)


class FloatTensor(object):
    """floating point tensor of the given shape and dtype (values unconstrained) that is not storage of an argument"""

    def __init__(self, shape, dtype='float64'):
        self.shape, self.dtype = list(shape), dtype

    def check(self, ex, v):
        if not isinstance(v, STensor) or v.ndim != len(self.shape) or v.dtype != self.dtype:
            return [('type', 'not a %d-D %s tensor: %r' % (len(self.shape), self.dtype, v))]
        out = [('shape%d' % k, to_int(a) == to_int(b)) for k, (a, b) in enumerate(zip(v.shape, self.shape))]
        out.append(('own_storage', True if v.storage.id not in ex.arg_storages else 'the tensor is (a view of) an argument'))
        return out

    def fresh(self, ex, name='ft'):
        t = T.opaque_tensor([T.sz(s) for s in self.shape], self.dtype, name)
        t._val = None
        return t
