"""
Obligations: scenarios (a contract case of one function for one discrete structure), the per-path runner,
verdicts, counter-model concretisation.
"""
import json
import os
import time
import traceback
import z3
from . import interp as I
from . import tensors as T
from . import prover as P
from . import harness as H
from .tensors import STensor, SymScalar, PyRaise, is_sym, to_int
from .terms import Term, OutOfSubset

SCENARIOS = {}          # property id -> list of Scenario


class Scenario(object):
    def __init__(self, prop, name, func, fn, grid_quick, grid_thorough, expect='ok', replay=None, documented=None,
                 max_paths=3000, timeout_ms=None, allow_raise=None, dtypes=None):
        self.prop = prop
        self.name = name
        self.func = func            # qualified name(s) of the repository function(s) under contract
        self.fn = fn
        self.grid_quick = grid_quick
        self.grid_thorough = grid_thorough
        self.expect = expect        # 'ok' | 'raise'
        self.replay = replay        # name of the replay driver
        self.documented = documented
        self.max_paths = max_paths
        self.timeout_ms = timeout_ms
        self.allow_raise = allow_raise or ()
        self.dtypes = dtypes

    def grid(self, tier):
        g = self.grid_quick if tier == 'quick' else self.grid_thorough
        g = list(g() if callable(g) else g)
        if self.dtypes:
            # value scenarios run with complex data by default (conj is then not the identity, so a dropped or spurious
            # conjugation is visible); the low orders are repeated for the real dtypes (dtype preservation)
            extra = []
            for p in g:
                o = max([v for k, v in p.items() if k in ('d', 'dx', 'd1') and isinstance(v, int)] or [1])
                if o <= (2 if tier == 'quick' else 3) and 'dtype' not in p:
                    for dt in self.dtypes:
                        extra.append(dict(p, dtype=dt))
            g = g + extra
        return g


def scenario(prop, name, func, quick, thorough=None, **kw):
    def deco(fn):
        s = Scenario(prop, name, func, fn, quick, thorough if thorough is not None else quick, **kw)
        SCENARIOS.setdefault(prop, []).append(s)
        return fn
    return deco


class Failure(Exception):
    pass


class Ob(object):
    """handed to the scenario function: records obligations on the current path"""

    def __init__(self, ex, scen, params):
        self.ex = ex
        self.scen = scen
        self.params = params
        self.results = []          # dicts: name, kind, status ('discharged'|'failed'|'undecided'), detail
        self.inst = {}             # symbolic description of the inputs (for replay)
        T.TRACK_NARROWING = self.dt() in ('float64', 'complex128')
        self.replay_args = {}

    # ---- inputs
    def describe(self, key, value):
        self.inst[key] = value

    def dt(self):
        """dtype of the operands of this scenario instance"""
        return self.params.get('dtype') or ('complex128' if self.scen.dtypes else 'float64')

    def tt(self, name, d, ttm=False, dtype=None, N=None, M=None, R=None, register=True):
        dtype = dtype or self.dt()
        obj = H.mk_tt(self.ex, name, d, ttm=ttm, dtype=dtype, N=N, M=M, R=R, register=register)
        sp = obj._spec
        self.inst[name] = {'kind': 'ttm' if ttm else 'tt', 'N': sp['N'], 'M': sp['M'], 'R': sp['R'], 'dtype': dtype}
        obj.N_ = sp['N']; obj.M_ = sp['M']; obj.R_ = sp['R']; obj.d_ = d
        return obj

    def case(self, cond):
        """for _ in ob.case(cond): ...   runs the body under the extra assumption cond (skipped when infeasible)"""
        pc = self.ex.pc
        if cond is False or (cond is not True and not pc.feasible(cond, timeout_ms=1500, mark=False)):
            return
        pc.solver.push()
        n = len(pc.facts)
        saved_yes = dict(pc._yes)
        if cond is not True:
            pc.add(cond)
        try:
            yield True
        finally:
            pc.solver.pop()
            del pc.facts[n:]
            pc._yes = saved_yes
            pc._no = {}

    # ---- obligations
    def _add(self, name, kind, status, detail=None):
        self.results.append({'name': name, 'kind': kind, 'status': status, 'detail': detail or {}})

    def prove(self, name, cond, kind='post'):
        """first-order obligation: pc |= cond   (ghost / rank / lemma obligations also use the ghost facts)"""
        if cond is True:
            return self._add(name, kind, 'discharged')
        if cond is False:
            r, m = self.ex.pc.model()
            return self._add(name, kind, 'failed' if r == z3.sat else 'undecided', {'model': m, 'cond': 'False'})
        gf = list(self.ex.ghost_facts) if kind in ('ghost', 'rank', 'lemma') else []
        if (gf and len(gf) > 12) or len(self.ex.pc.facts) > 150:
            # first try with the facts that are relevant to the goal only (ground facts sharing symbols with it, closure of
            # depth 3): nonlinear real queries are decided quickly when they are small.  unsat here is unsat of the full set.
            if _prove_relevant(self.ex, cond, gf):
                return self._add(name, kind, 'discharged')
        r, m = self.ex.pc.model(z3.Not(cond), *gf)
        if r == z3.unsat:
            return self._add(name, kind, 'discharged')
        if r == z3.sat:
            m = small_model(self.ex.pc, [z3.Not(cond)] + gf) or m
            return self._add(name, kind, 'failed', {'model': m, 'cond': str(z3.simplify(cond))[:300]})
        # z3 `unknown`: (1) the goal with the facts that share symbols with it (unsat there is unsat of the whole set),
        # (2) cvc5 on the whole query; a cvc5 model is believed only after z3 confirms it with the integer constants fixed
        if _prove_relevant(self.ex, cond, gf):
            return self._add(name, kind, 'discharged')
        # quantified facts are dropped for cvc5 (fewer hypotheses: `unsat` stays sound, `sat` is confirmed by z3 on the full set)
        facts = [f for f in list(self.ex.pc.facts) + gf if not _has_quantifier(f)] + [z3.Not(cond)]
        if True:
            r2, env = P.second_opinion(facts)
            if r2 == 'unsat':
                return self._add(name, kind, 'discharged')
            if r2 == 'sat' and env:
                eqs = []
                for c in _constants(facts):
                    val_ = env.get(c.decl().name())
                    if val_ is not None:
                        eqs.append(c == (z3.IntVal(int(val_)) if c.sort() == z3.IntSort() else z3.RealVal(str(val_))))
                r3, m3 = self.ex.pc.model(z3.Not(cond), *(gf + eqs))
                if r3 == z3.sat:
                    return self._add(name, kind, 'failed', {'model': m3, 'cond': str(z3.simplify(cond))[:300], 'solver': 'cvc5 model confirmed by z3'})
                # z3 cannot confirm (quantified ghost axioms): confirm on the quantifier-free facts; the verdict then needs the replay
                sq = z3.Solver()
                sq.set('timeout', 10000)
                for f_ in facts + eqs:
                    sq.add(f_)
                if sq.check() == z3.sat:
                    return self._add(name, kind, 'failed', {'model': sq.model(), 'cond': str(z3.simplify(cond))[:300], 'unconfirmed_model': True,
                                                            'solver': 'cvc5 model on the quantifier-free facts (quantified ghost axioms not re-checked): believed only if the replay reproduces it'})
        return self._add(name, kind, 'undecided', {'reason': 'solver unknown (z3 and cvc5)', 'cond': str(cond)[:300]})

    def decide_under(self, cond, hyps=(), timeout_ms=8000):
        """pc /\ hyps |= cond, tried on growing fact sets (cond alone, facts sharing symbols with it, the whole path condition):
        a small query is decided quickly even when the path condition holds nonlinear facts.  'proved' | 'refuted' | 'unknown'"""
        goal = z3.simplify(cond) if not isinstance(cond, bool) else z3.BoolVal(cond)
        if z3.is_true(goal):
            return 'proved'
        if os.environ.get('TTVC_DEBUG'):
            print('DEBUG decide_under', len(str(goal)), str(goal)[:400].replace('\n', ' '), flush=True)
        s = z3.Solver()
        s.set('timeout', timeout_ms)
        for h in hyps:
            s.add(h)
        s.add(z3.Not(goal))
        t = time.time()
        r = s.check()
        P.STATS['queries'] += 1
        P.STATS['solver_s'] += time.time() - t
        if r == z3.unsat:
            return 'proved'
        if _prove_relevant(self.ex, z3.Implies(z3.And(*hyps), goal) if hyps else goal, [], timeout_ms=timeout_ms):
            return 'proved'
        r = self.ex.pc._check(z3.Not(goal), *hyps)
        return 'proved' if r == z3.unsat else 'refuted' if r == z3.sat else 'unknown'

    def prove_all(self, prefix, facts, kind='post'):
        for n, c in facts:
            self.prove('%s.%s' % (prefix, n), c, kind)

    def prove_eq(self, name, lhs, rhs, kind='value'):
        try:
            st, info = P.prove_eq(self.ex.pc, lhs, rhs)
        except OutOfSubset as e:
            return self._add(name, kind, 'undecided', {'reason': 'out of subset: %s' % e})
        if st == 'proved':
            return self._add(name, kind, 'discharged')
        if st == 'refuted':
            return self._add(name, kind, 'failed', {'model': info['model'], 'lhs': info['lhs'], 'rhs': info['rhs']})
        # incomplete matcher: look for a concrete disagreement by exact evaluation
        try:
            ce = find_concrete_disagreement(self.ex.pc, lhs, rhs)
        except ZeroDivisionError:
            ce = None          # a denominator evaluated to zero at the sampled point: no verdict from this sample
        if ce is not None:
            return self._add(name, kind, 'failed', {'concrete': ce, 'matcher': _short(info)})
        return self._add(name, kind, 'undecided', {'reason': 'terms not matched and no concrete disagreement found', 'matcher': _short(info)})

    def same_seq(self, name, a, b, kind='shape'):
        """two sequences of (symbolic) ints are equal"""
        if len(a) != len(b):
            r, m = self.ex.pc.model()
            return self._add(name, kind, 'failed', {'model': m, 'cond': 'lengths %d vs %d' % (len(a), len(b))})
        conds = [H._eq(x, y) for x, y in zip(a, b)]
        conds = [c for c in conds if c is not True]
        if any(c is False for c in conds):
            return self.prove(name, False, kind)
        return self.prove(name, z3.And(*conds) if conds else True, kind)

    def wf(self, obj, name='wf'):
        if not isinstance(obj, I.SObj):
            return self._add(name, 'wf', 'failed', {'cond': 'result is not a TT object: %r' % (obj,)})
        self.prove_all(name, H.check_wf(self.ex, obj), 'wf')
        # objects never share their `cores` list (or private field lists) with an operand: otherwise a later in-place
        # update of one object (set_core, reduce_dims, sweeps) silently invalidates the other (history half of C05 / C06)
        shared = []
        if id(obj) not in self.ex.arg_objs:
            for k, v in obj.attrs.items():
                if isinstance(v, list) and id(v) in self.ex.arg_lists:
                    shared.append('%s is %s' % (k, self.ex.arg_lists[id(v)]))
        if shared:
            r, m = self.ex.pc.model()
            self._add(name + '.own_lists', 'frame', 'failed', {'model': m, 'cond': 'result shares a list with an operand: %s' % shared})
        else:
            self._add(name + '.own_lists', 'frame', 'discharged')

    def frame(self, name='frame', allowed=()):
        bad = [w for w in self.ex.writes if not any(w[1].startswith(a) for a in allowed)]
        if not bad:
            return self._add(name, 'frame', 'discharged')
        r, m = self.ex.pc.model()
        return self._add(name, 'frame', 'failed', {'model': m, 'writes': [list(map(str, w)) for w in bad][:6]})

    def fail(self, name, kind, why):
        r, m = self.ex.pc.model()
        self._add(name, kind, 'failed', {'model': m, 'cond': why})

    def ok(self, name, kind='post'):
        self._add(name, kind, 'discharged')

    def undecided(self, name, kind, why):
        self._add(name, kind, 'undecided', {'reason': why})


def _symbols(e, acc=None):
    acc = set() if acc is None else acc
    stack = [e]
    seen = set()
    while stack:
        x = stack.pop()
        i = x.get_id()
        if i in seen:
            continue
        seen.add(i)
        if z3.is_app(x) and x.decl().kind() == z3.Z3_OP_UNINTERPRETED:
            acc.add(x.decl().name() if x.num_args() == 0 else x.sexpr())     # sexpr(): the python pretty-printer (str) is ~100x slower
        if z3.is_quantifier(x):
            continue
        stack.extend(x.children())
    return acc


_FACT_CACHE = {}      # z3 ast id -> (the fact itself (keeps the id alive), has a quantifier, frozenset of its symbols)


def _fact_info(f):
    i = f.get_id()
    c = _FACT_CACHE.get(i)
    if c is None or c[0] is not f and not c[0].eq(f):
        q = z3.is_quantifier(f) or _has_quantifier(f)
        c = (f, q, frozenset() if q else frozenset(_symbols(f)))
        if len(_FACT_CACHE) > 200000:
            _FACT_CACHE.clear()
        _FACT_CACHE[i] = c
    return c


def _prove_relevant(ex, cond, ghost_facts, depth=3, timeout_ms=8000):
    # the path condition of a long path holds thousands of facts (range facts of index entries ...): the symbol set of a fact is
    # computed once per fact, not once per obligation
    # inverted index symbol -> facts, kept on the path condition and extended as the (append-only) fact list grows
    pc = ex.pc
    idx = getattr(pc, '_sym_index', None)
    if idx is None or idx['n'] > len(pc.facts) or (idx['n'] and idx['first'] is not pc.facts[0]):
        idx = {'n': 0, 'by_sym': {}, 'infos': [], 'first': pc.facts[0] if pc.facts else None}
        pc._sym_index = idx
    for f in pc.facts[idx['n']:]:
        c = _fact_info(f)
        k = len(idx['infos'])
        idx['infos'].append(c)
        if not c[1]:
            for sy in c[2]:
                idx['by_sym'].setdefault(sy, []).append(k)
    idx['n'] = len(pc.facts)
    if idx['first'] is None and pc.facts:
        idx['first'] = pc.facts[0]
    ginfos = [c for c in (_fact_info(f) for f in ghost_facts) if not c[1]]
    syms = set(_symbols(cond))
    chosen, taken, gtaken = [], set(), set()
    frontier = set(syms)
    for _ in range(depth):
        new_syms = set()
        for sy in frontier:
            for k in idx['by_sym'].get(sy, ()):
                if k not in taken:
                    taken.add(k)
                    c = idx['infos'][k]
                    chosen.append(c[0])
                    new_syms |= c[2] - syms
        for j, c in enumerate(ginfos):
            if j not in gtaken and (c[2] & frontier):
                gtaken.add(j)
                chosen.append(c[0])
                new_syms |= c[2] - syms
        if not new_syms and not frontier:
            break
        syms |= new_syms
        frontier = new_syms
        if not frontier:
            break
    s = z3.Solver()
    s.set('timeout', timeout_ms)
    for f in chosen:
        s.add(f)
    s.add(z3.Not(cond))
    t = time.time()
    r = s.check()
    P.STATS['queries'] += 1
    P.STATS['solver_s'] += time.time() - t
    return r == z3.unsat


def _constants(facts):
    """uninterpreted Int / Real constants occurring in the facts"""
    seen, out = set(), {}
    stack = list(facts)
    while stack:
        x = stack.pop()
        i = x.get_id()
        if i in seen:
            continue
        seen.add(i)
        if z3.is_quantifier(x):
            continue
        if z3.is_const(x) and x.decl().kind() == z3.Z3_OP_UNINTERPRETED and x.sort() in (z3.IntSort(), z3.RealSort()):
            out[x.decl().name()] = x
        stack.extend(x.children())
    return list(out.values())


def _has_quantifier(e):
    stack = [e]
    seen = set()
    while stack:
        x = stack.pop()
        i = x.get_id()
        if i in seen:
            continue
        seen.add(i)
        if z3.is_quantifier(x):
            return True
        stack.extend(x.children())
    return False


def _short(info):
    return {k: (v if not isinstance(v, list) else [str(x)[:300] for x in v[:2]]) for k, v in info.items() if k != 'model'}


# ------------------------------------------------------------------------------------------------
# models
# ------------------------------------------------------------------------------------------------

def size_vars(pc):
    """Int constants of the path condition that look like sizes (named by the harness)"""
    seen = {}
    for f in pc.facts:
        stack = [f]
        while stack:
            e = stack.pop()
            if z3.is_const(e) and e.decl().kind() == z3.Z3_OP_UNINTERPRETED and e.sort() == z3.IntSort():
                n = e.decl().name()
                if '!' not in n:
                    seen[n] = e
            stack.extend(e.children())
    return list(seen.values())


def small_model(pc, extra=(), bounds=(2, 3, 4, 6, 12)):
    """a model of pc /\\ extra preferring small sizes"""
    vs = size_vars(pc)
    for b in bounds:
        # prefer sizes >= 2 so that unrelated singleton-mode effects do not pollute the replay
        r, m = pc.model(*(list(extra) + [v <= b for v in vs] + [v >= 2 for v in vs]))
        if r == z3.sat:
            return m
        r, m = pc.model(*(list(extra) + [v <= b for v in vs]))
        if r == z3.sat:
            return m
    r, m = pc.model(*extra)
    return m if r == z3.sat else None


def model_env(m):
    env = {}
    if m is None:
        return env
    for d in m.decls():
        if d.arity() == 0:
            v = m[d]
            if z3.is_int_value(v):
                env[d.name()] = v.as_long()
            elif z3.is_rational_value(v):
                from fractions import Fraction
                env[d.name()] = Fraction(v.numerator_as_long(), v.denominator_as_long())
            elif z3.is_true(v) or z3.is_false(v):
                env[d.name()] = z3.is_true(v)
    return env


def find_concrete_disagreement(pc, lhs, rhs, tries=6):
    """exact evaluation of both Sigma-terms at small concrete instances of the path condition"""
    lhs = Term.of(lhs)
    rhs = Term.of(rhs)
    if lhs.wrap != rhs.wrap:
        return {'why': 'different outer functions', 'lhs_wrap': list(lhs.wrap), 'rhs_wrap': list(rhs.wrap)}
    vs = size_vars(pc)
    seen = set()
    extra = []
    cmode = any(_mentions_conj(m.body) for m in lhs.monos + rhs.monos)
    for attempt in range(tries):
        # prefer sizes >= 2 and pairwise different so that mix-ups are visible
        prefs = []
        if attempt == 0:
            prefs = [v >= 2 for v in vs] + ([z3.Distinct(*vs)] if len(vs) > 1 else [])
        elif attempt == 1:
            prefs = [v >= 2 for v in vs]
        m = small_model(pc, extra + prefs, bounds=(3, 4, 5) if attempt < 2 else (2, 3, 4))
        if m is None:
            if attempt < 2:
                continue
            break
        env = model_env(m)
        key = tuple(sorted((k, v) for k, v in env.items() if '!' not in k))
        if key in seen:
            extra.append(z3.Or(*[v != m.eval(v, model_completion=True) for v in vs])) if vs else None
            continue
        seen.add(key)
        try:
            for seed in (0, 1):
                ev = P.Evaluator(env, seed, complex_mode=cmode)
                a = ev.term(Term(lhs.monos))
                ev2 = P.Evaluator(env, seed, complex_mode=cmode)
                ev2.uf = ev.uf
                b = ev2.term(Term(rhs.monos))
                if a != b:
                    return {'env': {k: str(v) for k, v in env.items()}, 'lhs': str(a), 'rhs': str(b), 'seed': seed}
        except OutOfSubset as e:
            return None
        if vs:
            extra.append(z3.Or(*[v != m.eval(v, model_completion=True) for v in vs]))
    return None


def _mentions_conj(e):
    from .terms import CONJ
    stack = [e]
    seen = set()
    while stack:
        x = stack.pop()
        if x.get_id() in seen:
            continue
        seen.add(x.get_id())
        if z3.is_app(x) and x.decl().eq(CONJ):
            return True
        stack.extend(x.children())
    return False


def concretise(value, m):
    """replace z3 expressions in a nested structure by their values in model m"""
    if isinstance(value, dict):
        return {k: concretise(v, m) for k, v in value.items()}
    if isinstance(value, (list, tuple)):
        return [concretise(v, m) for v in value]
    if isinstance(value, SymScalar):
        return concretise(value.expr, m)
    if isinstance(value, slice):
        return {'slice': [concretise(value.start, m), concretise(value.stop, m), concretise(value.step, m)]}
    if value is Ellipsis:
        return 'Ellipsis'
    if is_sym(value):
        if m is None:
            return str(value)
        v = m.eval(value, model_completion=True)
        if z3.is_int_value(v):
            return v.as_long()
        if z3.is_rational_value(v):
            return float(v.numerator_as_long()) / float(v.denominator_as_long())
        if z3.is_true(v):
            return True
        if z3.is_false(v):
            return False
        if z3.is_algebraic_value(v):
            return float(v.approx(20).as_fraction())
        return str(v)
    if isinstance(value, (int, float, str, bool)) or value is None:
        return value
    return str(value)


# ------------------------------------------------------------------------------------------------
# running one scenario instance (all paths)
# ------------------------------------------------------------------------------------------------

def run_instance(scen, params, repo=None):
    """returns dict: obligations {name: {...}}, paths, outcome counts"""
    t0 = time.time()
    q0 = dict(P.STATS)
    agg = {}
    paths = 0
    samples = []

    def record(name, kind, status, detail, ex, ob):
        cur = agg.get(name)
        entry = {'name': name, 'kind': kind, 'status': status, 'paths': 1}
        if status != 'discharged':
            if status == 'failed' and ex is not None and ex.pc.maybe_infeasible:
                status = 'undecided'
                entry['status'] = status
                detail = dict(detail or {}, reason='path feasibility unknown')
            entry['detail'] = render_detail(detail, ex, ob)
        if cur is None:
            agg[name] = entry
            return
        cur['paths'] += 1
        order = {'discharged': 0, 'undecided': 1, 'failed': 2}
        if order[status] > order[cur['status']]:
            cur['status'] = status
            cur['detail'] = entry.get('detail')
            cur['kind'] = kind

    def body(ex):
        ob = Ob(ex, scen, params)
        ex.ob = ob
        try:
            import inspect
            names = inspect.signature(scen.fn).parameters
            scen.fn(ob, **{k: v for k, v in params.items() if k in names})
        finally:
            ex.ob_done = ob
        return ob

    results = I.run_paths(body, max_paths=scen.max_paths, repo=repo, timeout_ms=scen.timeout_ms)
    for ex, (kind, val) in results:
        paths += 1
        ob = getattr(ex, 'ob_done', None) if ex is not None else None
        if ob is not None:
            for r in ob.results:
                record(r['name'], r['kind'], r['status'], r['detail'], ex, ob)
        if kind == 'ok':
            if scen.expect == 'raise':
                r, m = ex.pc.model()
                if r == z3.sat:
                    m = small_model(ex.pc) or m
                record('must_raise', 'must_raise', 'failed' if r == z3.sat else 'undecided',
                       {'model': m, 'cond': 'the call returned normally: %s' % _describe_value(val.ret if hasattr(val, 'ret') else None)}, ex, ob)
            else:
                record('no_raise', 'no_raise', 'discharged', None, ex, ob)
        elif kind == 'raise':
            e = val
            where = getattr(e, 'where', '?')
            if scen.expect == 'raise':
                record('must_raise', 'must_raise', 'discharged', None, ex, ob)
                if scen.documented is not None:
                    if e.cls in scen.documented:
                        record('documented_type', 'must_raise', 'discharged', None, ex, ob)
                    else:
                        r, m = ex.pc.model()
                        record('documented_type', 'must_raise', 'failed' if r == z3.sat else 'undecided',
                               {'model': m, 'cond': 'raises %s (%s) at %s, not one of %s' % (e.cls, e.msg, where, list(scen.documented))}, ex, ob)
            elif e.cls in scen.allow_raise:
                record('no_raise', 'no_raise', 'discharged', None, ex, ob)
            else:
                r, m = ex.pc.model()
                if r == z3.sat:
                    m = small_model(ex.pc) or m
                record('no_raise', 'no_raise', 'failed' if r == z3.sat else 'undecided',
                       {'model': m, 'cond': 'raises %s: %s at %s' % (e.cls, e.msg, where)}, ex, ob)
        elif kind == 'oos':
            record('in_subset', 'subset', 'undecided', {'reason': 'out of subset: %s at %s' % (val, getattr(val, 'where', '?'))}, ex, ob)
        elif kind == 'limit':
            record('path_limit', 'subset', 'undecided', {'reason': str(val)}, ex, ob)
        if ex is not None and ex.notes:
            for nk, nt in ex.notes[:3]:
                samples.append('%s: %s' % (nk, nt[:200]))
    q1 = P.STATS
    return {'scenario': scen.name, 'prop': scen.prop, 'func': scen.func, 'params': params, 'paths': paths,
            'obligations': list(agg.values()), 'wall_s': time.time() - t0,
            'queries': q1['queries'] - q0['queries'], 'solver_s': q1['solver_s'] - q0['solver_s'], 'notes': samples[:5],
            'cvc5_queries': q1.get('cvc5', 0) - q0.get('cvc5', 0)}


def _describe_value(v):
    return type(v).__name__


def render_detail(detail, ex, ob):
    """make a failure detail JSON-serialisable and attach a concrete instance of the inputs"""
    d = {}
    detail = detail or {}
    m = detail.get('model')
    for k, v in detail.items():
        if k == 'model':
            continue
        d[k] = v if isinstance(v, (str, int, float, list, dict, bool)) or v is None else str(v)
    if ex is not None:
        if 'concrete' in detail:
            env = detail['concrete'].get('env', {})
            # a model consistent with the concrete evaluation environment
            eqs = []
            for v in size_vars(ex.pc):
                n = v.decl().name()
                if n in env:
                    eqs.append(v == int(env[n]))
            r, m2 = ex.pc.model(*eqs)
            m = m2 if r == z3.sat else None
        elif m is not None:
            # try to shrink the model
            cond_extra = []
            m_small = None
            try:
                m_small = small_model(ex.pc, cond_extra) if 'cond' not in detail else None
            except Exception:
                m_small = None
        d['decisions'] = len(ex.trace)
        if ob is not None and m is not None:
            try:
                d['instance'] = concretise(ob.inst, m)
                d['replay_args'] = concretise(ob.replay_args, m)
            except Exception as e:     # never let reporting kill a verdict
                d['instance_error'] = repr(e)
        d['model_excerpt'] = {k: str(v) for k, v in list(model_env(m).items())[:40] if '!' not in k} if m is not None else {}
    return d
