"""
The op table: assumed contracts of builtins, torch, numpy, math, sys as used by torchTT (DESIGN.md 2.5).
Every entry gives the condition under which the real function raises (PyRaise) and the result in the
symbolic domains.  Names that are not in the table are reported as out-of-subset, except names that do not
exist in the real library at all (checked against a list produced by the real interpreter), which raise
AttributeError exactly like CPython would.
"""
import builtins as _b
import json
import os
import z3
from . import tensors as T
from .tensors import STensor, SymScalar, PyRaise, is_sym, sz, to_int, require
from .terms import OutOfSubset, Term, to_real, fresh_int, fresh_real, fresh_bool
from . import interp as I

DTYPES = {'float64': 'float64', 'double': 'float64', 'float32': 'float32', 'float': 'float32', 'float16': 'float16',
          'complex128': 'complex128', 'cdouble': 'complex128', 'complex64': 'complex64', 'cfloat': 'complex64',
          'int64': 'int64', 'long': 'int64', 'int32': 'int32', 'int': 'int32', 'bool': 'bool'}

_BUILTIN_NAMES = ['len', 'range', 'zip', 'enumerate', 'reversed', 'list', 'tuple', 'isinstance', 'min', 'max', 'sum',
                  'any', 'all', 'int', 'float', 'complex', 'str', 'print', 'set', 'abs', 'sorted', 'slice', 'bool',
                  'type', 'super', 'dict', 'round', 'map', 'hasattr', 'getattr', 'setattr', 'id', 'iter', 'next', 'callable', 'divmod']
_EXC_NAMES = ['Exception', 'BaseException', 'ValueError', 'TypeError', 'RuntimeError', 'NotImplementedError',
              'IndexError', 'KeyError', 'AttributeError', 'ImportError', 'ModuleNotFoundError', 'ZeroDivisionError',
              'AssertionError', 'ArithmeticError', 'StopIteration', 'NameError']

_known_api = None


def known_api():
    """names that really exist in the external libraries (produced by tools/api_names.py under /venv python)"""
    global _known_api
    if _known_api is None:
        p = os.path.join(os.path.dirname(os.path.dirname(os.path.abspath(__file__))), 'contracts', 'api_names.json')
        _known_api = json.load(open(p)) if os.path.exists(p) else {}
    return _known_api


class BI(object):
    """a python builtin by name"""

    def __init__(self, name):
        self.name = name

    def __repr__(self):
        return 'BI(%s)' % self.name


def builtin(name):
    if name in _BUILTIN_NAMES:
        return BI(name)
    if name in _EXC_NAMES:
        return I.Ext('builtins.' + name)
    if name == 'property':
        return I.Ext('builtins.property')
    if name == 'staticmethod':
        return I.Ext('builtins.staticmethod')
    if name == 'Ellipsis':
        return Ellipsis
    if name == 'NotImplemented':
        return NotImplemented
    if name == '__name__':
        return 'torchtt'
    return None


# ------------------------------------------------------------------------------------------------
# numbers
# ------------------------------------------------------------------------------------------------

def is_intlike(v):
    return (isinstance(v, int) and not isinstance(v, bool)) or (is_sym(v) and isinstance(v, z3.ArithRef) and v.is_int()) \
        or (isinstance(v, SymScalar) and v.kind == 'int')


def is_number(v):
    return isinstance(v, (int, float)) or isinstance(v, SymScalar) or (is_sym(v) and isinstance(v, z3.ArithRef))


def int_expr(v):
    if isinstance(v, SymScalar):
        return v.expr
    if isinstance(v, bool):
        return int(v)
    return v


def num_kind(v):
    if isinstance(v, bool):
        return 'int'
    if isinstance(v, int):
        return 'int'
    if isinstance(v, float):
        return 'float'
    if isinstance(v, complex):
        return 'complex'
    if isinstance(v, SymScalar):
        return v.kind
    if is_sym(v):
        return 'int' if v.is_int() else 'float'
    raise OutOfSubset('num_kind %r' % (v,))


def real_expr(v):
    if isinstance(v, SymScalar):
        if getattr(v, 'poison', False):
            raise OutOfSubset('use of a non-finite numpy value (inf/nan)')
        return v.real()
    return to_real(v)


def num_binop(ex, opn, l, r):
    kl, kr = num_kind(l), num_kind(r)
    if kl == 'int' and kr == 'int' and opn in ('Add', 'Sub', 'Mult', 'FloorDiv', 'Mod', 'Pow'):
        a, b = int_expr(l), int_expr(r)
        if not is_sym(a) and not is_sym(b):
            try:
                if opn == 'Add':
                    return a + b
                if opn == 'Sub':
                    return a - b
                if opn == 'Mult':
                    return a * b
                if opn == 'FloorDiv':
                    return a // b
                if opn == 'Mod':
                    return a % b
                if opn == 'Pow':
                    if b < 0:
                        return float(a) ** b
                    return a ** b
            except ZeroDivisionError:
                raise PyRaise('ZeroDivisionError', 'integer division or modulo by zero')
        if opn in ('FloorDiv', 'Mod'):
            fd = factor_divide(ex, a, b)
            if fd is not None:
                return fd[0] if opn == 'FloorDiv' else fd[1]
        a, b = to_int(a), to_int(b)
        if opn == 'Add':
            return sz(a + b)
        if opn == 'Sub':
            return sz(a - b)
        if opn == 'Mult':
            return sz(a * b)
        if opn in ('FloorDiv', 'Mod'):
            if not ex.pc.implied(b != 0):
                if ex.decide(b == 0):
                    raise PyRaise('ZeroDivisionError', 'integer division or modulo by zero')
            if not ex.pc.implied(b > 0):
                raise OutOfSubset('floor division by a possibly negative symbolic integer')
            # python floor semantics coincide with z3 div/mod for positive divisors
            return sz(a / b) if opn == 'FloorDiv' else sz(a % b)
        if opn == 'Pow':
            if not is_sym(b) and b >= 0 and b <= 6:
                rr = z3.IntVal(1)
                for _ in range(b):
                    rr = rr * a
                return sz(rr)
            raise OutOfSubset('symbolic integer power')
    # real arithmetic
    if 'complex' in (kl, kr):
        kind = 'complex'
    else:
        kind = 'float'
    if opn == 'Pow' and isinstance(r, float) and r in (0.5, 1.5, -0.5) and isinstance(l, (int, float)) and not isinstance(l, bool) and l > 0 \
            and float(l) ** 0.5 != int(float(l) ** 0.5):
        # irrational power of a concrete number: keep it exact (floats are mathematical reals in this model)
        sq = sym_sqrt(ex, l)
        a = real_expr(l)
        e_ = {0.5: sq.expr, 1.5: sq.expr * a, -0.5: 1 / sq.expr}[r]
        return SymScalar(e_, 'float', 'float')
    if not isinstance(l, SymScalar) and not isinstance(r, SymScalar) and not is_sym(l) and not is_sym(r):
        try:
            if opn == 'Add':
                return l + r
            if opn == 'Sub':
                return l - r
            if opn == 'Mult':
                return l * r
            if opn == 'Div':
                return l / r
            if opn == 'Pow':
                return l ** r
            if opn == 'FloorDiv':
                return l // r
            if opn == 'Mod':
                return l % r
        except ZeroDivisionError:
            if (_is_np(l) or _is_np(r)) and opn == 'Div':
                # numpy scalars do not raise: the result is inf / nan (a warning only); it may not be used afterwards
                bad = SymScalar(fresh_real('nonfinite'), kind, 'np.float64')
                bad.poison = True
                return bad
            raise PyRaise('ZeroDivisionError', 'division by zero')
    a, b = real_expr(l), real_expr(r)
    pt = _result_pytype(l, r)
    if opn == 'Add':
        return SymScalar(a + b, kind, pt)
    if opn == 'Sub':
        return SymScalar(a - b, kind, pt)
    if opn == 'Mult':
        return SymScalar(a * b, kind, pt)
    if opn == 'Div':
        nz = (b != 0)
        if not ex.pc.implied(nz):
            # python floats raise ZeroDivisionError, numpy floats warn and give inf: both are out of the real model
            if ex.decide(z3.Not(nz)):
                if _is_np(l) or _is_np(r):
                    # numpy scalars do not raise: the result is inf / nan (a warning only); it may not be used afterwards
                    bad = SymScalar(fresh_real('nonfinite'), kind, 'np.float64')
                    bad.poison = True
                    return bad
                raise PyRaise('ZeroDivisionError', 'float division by zero')
        return SymScalar(a / b, kind, pt if kl != 'int' or kr != 'int' else 'float')
    if opn == 'Pow':
        if isinstance(r, (int, float)) and r == 2:
            if getattr(ex, 'square_uf', False):
                from . import nparr
                return SymScalar(nparr.SQ(a), kind, pt)
            return SymScalar(a * a, kind, pt)
        if isinstance(r, int) and 0 <= r <= 6:
            rr = z3.RealVal(1)
            for _ in range(r):
                rr = rr * a
            return SymScalar(rr, kind, pt)
        if isinstance(r, float) and r == 0.5:
            return sym_sqrt(ex, l)
        if isinstance(r, float) and r == 1.5:
            s = sym_sqrt(ex, l)
            return SymScalar(s.expr * a, kind, pt)
        if isinstance(r, float) and r == -0.5:
            s = sym_sqrt(ex, l)
            return SymScalar(1 / s.expr, kind, pt)
        raise OutOfSubset('symbolic power %r' % (r,))
    raise OutOfSubset('numeric op %s' % opn)


def _monomial(e):
    """z3 Int product of constants and uninterpreted constants -> (coefficient, sorted list of symbol names, {name: expr}) or None"""
    if isinstance(e, int):
        return e, [], {}
    e = z3.simplify(e)
    if z3.is_int_value(e):
        return e.as_long(), [], {}
    coef, syms, table = 1, [], {}
    stack = [e]
    while stack:
        x = stack.pop()
        if z3.is_int_value(x):
            coef *= x.as_long()
        elif z3.is_const(x) and x.decl().kind() == z3.Z3_OP_UNINTERPRETED:
            syms.append(x.decl().name())
            table[x.decl().name()] = x
        elif z3.is_app(x) and x.decl().kind() == z3.Z3_OP_MUL:
            stack.extend(x.children())
        elif z3.is_app(x) and x.decl().kind() == z3.Z3_OP_POWER and z3.is_int_value(x.children()[1]):
            for _ in range(x.children()[1].as_long()):
                stack.append(x.children()[0])
        elif z3.is_app(x) and x.decl().kind() in (z3.Z3_OP_ITE, z3.Z3_OP_ADD, z3.Z3_OP_SUB):
            # an opaque positive quantity (e.g. a rank given as a min): treated as one symbol
            nm = 'opq#%d' % x.get_id()
            syms.append(nm)
            table[nm] = x
        else:
            return None
    return coef, sorted(syms), table


def factor_divide(ex, a, b):
    """(a // b, a % b) for products of symbols when one divides the other syntactically; None when undetermined"""
    ma, mb = _monomial(a), _monomial(b)
    if ma is None or mb is None or mb[0] <= 0 or ma[0] <= 0:
        return None
    if not ma[1] and not mb[1]:
        return None
    ca, sa, ta = ma
    cb, sb, tb = mb
    rest = list(sa)
    ok = True
    for s_ in sb:
        if s_ in rest:
            rest.remove(s_)
        else:
            ok = False
            break
    if ok and ca % cb == 0:
        q = ca // cb
        for s_ in rest:
            q = q * ta[s_]
        return sz(q) if is_sym(q) else q, 0
    # a is a proper divisor of b (b = a * rest with rest >= 2): a // b = 0, a % b = a
    rest = list(sb)
    ok = True
    for s_ in sa:
        if s_ in rest:
            rest.remove(s_)
        else:
            ok = False
            break
    if ok and cb % ca == 0 and (rest or cb // ca > 1):
        extra = cb // ca
        big = extra > 1 or any(ex.pc.implied(tb[s_] >= 2) for s_ in rest)
        pos = all(ex.pc.implied(tb[s_] >= 1) for s_ in rest)
        if big and pos:
            return 0, a
    return None


class NPInt(int):
    """a concrete numpy integer scalar (np.prod of a python list, ...): behaves as an int, except that dividing by it never raises"""


def _is_np(v):
    return isinstance(v, NPInt) or (isinstance(v, SymScalar) and v.pytype.startswith('np.'))


def _result_pytype(l, r):
    for v in (l, r):
        if _is_np(v):
            return v.pytype if v.kind != 'int' else 'np.float64'
    if 'complex' in (num_kind(l), num_kind(r)):
        return 'complex'
    return 'float'


def sym_sqrt(ex, v):
    """sqrt of a non-negative real: fresh s with s*s == v, s >= 0"""
    if isinstance(v, (int, float)) and not isinstance(v, bool):
        import math
        if v < 0:
            raise OutOfSubset('sqrt of negative')
        r = math.sqrt(v)
        if r == int(r):
            return float(r)
        s = fresh_real('sqrt')
        ex.assume_ghost(s * s == to_real(v))
        ex.pc.add(s > 0)
        return SymScalar(s, 'float', 'np.float64')
    a = real_expr(v)
    s = fresh_real('sqrt')
    if not ex.pc.implied(a >= 0):
        raise OutOfSubset('sqrt of a possibly negative value')
    ex.assume_ghost(s * s == a)
    ex.pc.add(s >= 0)
    return SymScalar(s, 'float', 'np.float64')


# ------------------------------------------------------------------------------------------------
# generic operators
# ------------------------------------------------------------------------------------------------

_TOP = {'Add': 'add', 'Sub': 'sub', 'Mult': 'mul', 'Div': 'div'}
_DUNDER = {'Add': ('__add__', '__radd__'), 'Sub': ('__sub__', '__rsub__'), 'Mult': ('__mul__', '__rmul__'),
           'Div': ('__truediv__', '__rtruediv__'), 'MatMult': ('__matmul__', '__rmatmul__'), 'Pow': ('__pow__', '__rpow__')}


def binop(ex, opn, l, r):
    if isinstance(l, I.SObj) or isinstance(r, I.SObj):
        fwd, rev = _DUNDER.get(opn, (None, None))
        if fwd is None:
            raise OutOfSubset('operator %s on objects' % opn)
        if isinstance(l, I.SObj):
            m = l.cls.lookup(fwd)
            if m is not None:
                res = ex.call_sfunc(m, [l, r], {})
                if res is not NotImplemented:
                    return res
        elif isinstance(l, STensor) and l.lib == 'torch' and opn != 'Pow':
            # torch.Tensor.__op__(TT) -> TypeError inside torch's dispatcher is caught and NotImplemented returned
            pass
        if isinstance(r, I.SObj):
            m = r.cls.lookup(rev)
            if m is not None:
                return ex.call_sfunc(m, [r, l], {})
        raise PyRaise('TypeError', 'unsupported operand type(s) for %s' % opn)
    if isinstance(l, STensor) or isinstance(r, STensor):
        return tensor_binop(ex, opn, l, r)
    if isinstance(l, list) or isinstance(r, list) or isinstance(l, tuple) or isinstance(r, tuple):
        if opn == 'Add':
            if type(l) is type(r) or (isinstance(l, tuple) and isinstance(r, tuple)):
                return l + r
            raise PyRaise('TypeError', 'can only concatenate list to list')
        if opn == 'Mult':
            seq, n = (l, r) if isinstance(l, (list, tuple)) else (r, l)
            n = int_expr(n)
            if is_sym(n):
                raise OutOfSubset('sequence repetition by a symbolic count')
            if not isinstance(n, int):
                raise PyRaise('TypeError', "can't multiply sequence by non-int")
            return seq * n
        if opn == 'Mod' and isinstance(l, (str, I.Opaque)):
            return I.Opaque('str')
        raise PyRaise('TypeError', 'unsupported operand type(s) for %s: list' % opn)
    if isinstance(l, (str, I.Opaque)) or isinstance(r, (str, I.Opaque)):
        if opn in ('Add', 'Mod', 'Mult'):
            return I.Opaque('str')
        raise PyRaise('TypeError', 'unsupported operand for str')
    if l is None or r is None:
        raise PyRaise('TypeError', 'unsupported operand type(s) for %s: NoneType' % opn)
    if isinstance(l, complex) or isinstance(r, complex):
        raise OutOfSubset('concrete complex arithmetic')
    if is_number(l) and is_number(r):
        if isinstance(l, bool):
            l = int(l)
        if isinstance(r, bool):
            r = int(r)
        return num_binop(ex, opn, l, r)
    if isinstance(l, (z3.BoolRef,)) or isinstance(r, z3.BoolRef):
        raise OutOfSubset('arithmetic on symbolic bool')
    raise OutOfSubset('binop %s on %s, %s' % (opn, type(l).__name__, type(r).__name__))


def tensor_binop(ex, opn, l, r):
    for v in (l, r):
        if isinstance(v, (list, tuple, str, I.Opaque)) or v is None:
            raise PyRaise('TypeError', 'unsupported operand type(s) for tensor op: %s' % type(v).__name__)
    if opn in _TOP:
        if isinstance(l, STensor) and l.lib == 'numpy' or isinstance(r, STensor) and r.lib == 'numpy':
            return numpy_binop(ex, opn, l, r)
        return T.binary(_TOP[opn], _num(l), _num(r))
    if opn == 'MatMult':
        if not (isinstance(l, STensor) and isinstance(r, STensor)):
            raise PyRaise('TypeError', 'matmul with a scalar')
        return T.matmul(l, r)
    if opn == 'Pow':
        if isinstance(l, STensor):
            p = int_expr(r) if is_intlike(r) else r
            return T.power(l, p)
    raise OutOfSubset('tensor operator %s' % opn)


def _num(v):
    if is_sym(v) and not isinstance(v, z3.BoolRef):
        return SymScalar(v, 'int' if v.is_int() else 'float')
    return v


def numpy_binop(ex, opn, l, r):
    # numpy 0-d / scalar arithmetic used in rank_chop arguments: ep * norm(s)
    lt = l if isinstance(l, STensor) else None
    rt = r if isinstance(r, STensor) else None
    if lt is not None and lt.ndim == 0 and rt is None:
        return SymScalar(_scalar_of(lt) if opn is None else num_binop(ex, opn, SymScalar(_scalar_of(lt), 'float', 'np.float64'), r).expr, 'float', 'np.float64')
    if rt is not None and rt.ndim == 0 and lt is None:
        return SymScalar(num_binop(ex, opn, l, SymScalar(_scalar_of(rt), 'float', 'np.float64')).expr, 'float', 'np.float64')
    if lt is not None and rt is not None and lt.ndim == 0 and rt.ndim == 0:
        return SymScalar(num_binop(ex, opn, SymScalar(_scalar_of(lt), 'float', 'np.float64'), SymScalar(_scalar_of(rt), 'float', 'np.float64')).expr, 'float', 'np.float64')
    return T.binary(_TOP[opn], _num(l), _num(r))


def _scalar_of(t):
    """z3 Real for the value of a 0-d tensor (opaque values get a stable fresh constant with ghost facts)"""
    if 'scalar' in t.ghost:
        return t.ghost['scalar']
    if t._val is not None and t.cost <= 40:
        v = t.at([])
        if v.is_simple():
            return v.simple_expr()
    c = fresh_real('val')
    t.ghost['scalar'] = c
    return c


def neg(ex, v):
    if isinstance(v, I.SObj):
        m = v.cls.lookup('__neg__')
        if m is None:
            raise PyRaise('TypeError', 'bad operand type for unary -')
        return ex.call_sfunc(m, [v], {})
    if isinstance(v, STensor):
        return T.neg(v)
    if isinstance(v, SymScalar):
        if v.pytype == 'np.uint8':
            # unsigned numpy scalars wrap around: -np.uint8(3) == np.uint8(253) (a RuntimeWarning only)
            return SymScalar(z3.If(v.expr == 0, z3.IntVal(0), 256 - v.expr), v.kind, v.pytype)
        return SymScalar(-v.expr, v.kind, v.pytype)
    if is_sym(v):
        return sz(-v)
    if isinstance(v, (int, float, complex)):
        return -v
    raise PyRaise('TypeError', 'bad operand type for unary -: %s' % type(v).__name__)


def pos(ex, v):
    if isinstance(v, I.SObj):
        m = v.cls.lookup('__pos__')
        if m is None:
            raise PyRaise('TypeError', 'bad operand type for unary +')
        return ex.call_sfunc(m, [v], {})
    return v


def _seq_eq(ex, a, b):
    """symbolic equality of two sequences -> bool or z3 Bool"""
    if len(a) != len(b):
        return False
    conds = []
    for x, y in zip(a, b):
        c = eq_sym(ex, x, y)
        if c is False:
            return False
        if c is not True:
            conds.append(c)
    if not conds:
        return True
    return z3.And(*conds) if len(conds) > 1 else conds[0]


def eq_sym(ex, l, r):
    """python == as bool or z3 Bool"""
    if l is None or r is None:
        if isinstance(l, STensor) or isinstance(r, STensor):
            return False
        if isinstance(l, I.SObj) or isinstance(r, I.SObj):
            o = l if isinstance(l, I.SObj) else r
            if o.cls.lookup('__eq__') is not None:
                raise OutOfSubset('user __eq__')
            return False
        return l is r
    if l is Ellipsis or r is Ellipsis:
        if isinstance(l, STensor) or isinstance(r, STensor):
            raise OutOfSubset('tensor == Ellipsis')
        return l is r
    if isinstance(l, I.SSize) or isinstance(r, I.SSize):
        # torch.Size is a tuple subclass: equal to tuples, never to lists
        if isinstance(l, list) or isinstance(r, list):
            return False
        if isinstance(l, tuple) and isinstance(r, tuple):
            return _seq_eq(ex, l, r)
        return False
    if isinstance(l, list) and isinstance(r, list):
        return _seq_eq(ex, l, r)
    if isinstance(l, tuple) and isinstance(r, tuple):
        return _seq_eq(ex, l, r)
    if isinstance(l, (list, tuple)) or isinstance(r, (list, tuple)):
        if isinstance(l, STensor) or isinstance(r, STensor):
            raise OutOfSubset('tensor == sequence')
        return False
    if isinstance(l, STensor) or isinstance(r, STensor):
        return tensor_compare(ex, 'Eq', l, r)
    if isinstance(l, slice) or isinstance(r, slice):
        if isinstance(l, slice) and isinstance(r, slice):
            return _seq_eq(ex, (l.start, l.stop, l.step), (r.start, r.stop, r.step))
        return False
    if isinstance(l, (str, I.DType)) or isinstance(r, (str, I.DType)):
        return isinstance(l, str) and isinstance(r, str) and str(l) == str(r)
    if isinstance(l, bool) and isinstance(r, bool):
        return l == r
    if isinstance(l, z3.BoolRef) or isinstance(r, z3.BoolRef):
        lb = l if isinstance(l, z3.BoolRef) else z3.BoolVal(bool(l))
        rb = r if isinstance(r, z3.BoolRef) else z3.BoolVal(bool(r))
        return lb == rb
    if is_number(l) and is_number(r):
        if not isinstance(l, SymScalar) and not isinstance(r, SymScalar) and not is_sym(l) and not is_sym(r):
            return l == r
        if num_kind(l) == 'int' and num_kind(r) == 'int':
            c = z3.simplify(to_int(int_expr(l)) == to_int(int_expr(r)))
        else:
            c = z3.simplify(real_expr(l) == real_expr(r))
        if z3.is_true(c):
            return True
        if z3.is_false(c):
            return False
        return c
    if isinstance(l, (I.SObj, I.SClass, I.Ext, I.SFunc, I.Module)) or isinstance(r, (I.SObj, I.SClass, I.Ext, I.SFunc, I.Module)):
        if isinstance(l, I.Ext) and isinstance(r, I.Ext):
            return l.name == r.name
        return l is r
    if isinstance(l, I.Opaque) or isinstance(r, I.Opaque):
        raise OutOfSubset('comparison with an opaque string')
    return l == r


def tensor_compare(ex, opn, l, r):
    """comparison involving a tensor: only 0-d / 1-element results are given a truth value later"""
    t = l if isinstance(l, STensor) else r
    o = r if isinstance(l, STensor) else l
    if isinstance(o, STensor):
        axes, ma, mb = T.broadcast_axes(l, r)
    else:
        if not is_number(o) and not isinstance(o, bool):
            if opn == 'Eq':
                return False
            if opn == 'NotEq':
                return True
            raise PyRaise('TypeError', 'comparison of tensor with %s' % type(o).__name__)
        axes = list(t.axes)
    out = STensor(axes, 'bool', None, lib=t.lib)
    out.ghost['cmp'] = (opn, l, r)
    return out


def compare(ex, opn, l, r):
    if opn in ('Is', 'IsNot'):
        same = l is r
        if isinstance(l, (bool, type(None))) or isinstance(r, (bool, type(None))):
            same = l is r
        elif isinstance(l, I.Ext) and isinstance(r, I.Ext):
            same = l.name == r.name
        return same if opn == 'Is' else not same
    if opn in ('Eq', 'NotEq'):
        if isinstance(l, I.SObj) and l.cls.lookup('__eq__') is not None:
            raise OutOfSubset('user __eq__')
        c = eq_sym(ex, l, r)
        if isinstance(c, STensor):
            if opn == 'NotEq':
                c.ghost['cmp'] = ('NotEq',) + c.ghost['cmp'][1:]
            return c
        if opn == 'Eq':
            return c
        return (not c) if isinstance(c, bool) else z3.Not(c)
    if opn in ('In', 'NotIn'):
        if isinstance(r, (list, tuple, set)):
            conds = []
            hit = False
            for x in r:
                if isinstance(x, STensor) or isinstance(l, STensor):
                    raise OutOfSubset('tensor membership test')
                c = eq_sym(ex, l, x)
                if c is True:
                    hit = True
                    break
                if c is not False:
                    conds.append(c)
            res = True if hit else (z3.Or(*conds) if conds else False)
        elif isinstance(r, dict):
            res = l in r
        elif isinstance(r, (str, I.Opaque)):
            raise OutOfSubset('substring test')
        else:
            raise PyRaise('TypeError', 'argument of type %s is not iterable' % type(r).__name__)
        if opn == 'In':
            return res
        return (not res) if isinstance(res, bool) else z3.Not(res)
    # ordering
    if isinstance(l, STensor) or isinstance(r, STensor):
        return tensor_compare(ex, opn, l, r)
    if is_number(l) and is_number(r):
        if isinstance(l, bool):
            l = int(l)
        if isinstance(r, bool):
            r = int(r)
        if not isinstance(l, SymScalar) and not isinstance(r, SymScalar) and not is_sym(l) and not is_sym(r):
            return {'Lt': l < r, 'LtE': l <= r, 'Gt': l > r, 'GtE': l >= r}[opn]
        if num_kind(l) == 'int' and num_kind(r) == 'int':
            a, b = to_int(int_expr(l)), to_int(int_expr(r))
        else:
            a, b = real_expr(l), real_expr(r)
        c = {'Lt': a < b, 'LtE': a <= b, 'Gt': a > b, 'GtE': a >= b}[opn]
        c = z3.simplify(c)
        if z3.is_true(c):
            return True
        if z3.is_false(c):
            return False
        return c
    if isinstance(l, (list, tuple)) and isinstance(r, (list, tuple)):
        raise OutOfSubset('sequence ordering')
    raise PyRaise('TypeError', "'%s' not supported between instances of %s and %s" % (opn, type(l).__name__, type(r).__name__))


def truth_sym(ex, v):
    if isinstance(v, bool):
        return v
    if v is None:
        return False
    if isinstance(v, z3.BoolRef):
        return v
    if isinstance(v, (int, float)):
        return v != 0
    if is_sym(v):
        return v != 0
    if isinstance(v, SymScalar):
        return v.expr != 0
    if isinstance(v, (list, tuple, dict, set, str)):
        return len(v) > 0
    if isinstance(v, STensor):
        n = T.numel(v)
        if is_sym(n):
            if not ex.pc.implied(to_int(n) == 1):
                if not ex.decide(to_int(n) == 1):
                    raise PyRaise('RuntimeError', 'Boolean value of Tensor with more than one value is ambiguous', origin='torch')
        elif n != 1:
            raise PyRaise('RuntimeError', 'Boolean value of Tensor with more than one value is ambiguous', origin='torch')
        if 'cmp' in v.ghost:
            opn, l, r = v.ghost['cmp']
            a = _elem_scalar(l)
            b = _elem_scalar(r)
            if a is not None and b is not None:
                return {'Eq': a == b, 'NotEq': a != b, 'Lt': a < b, 'LtE': a <= b, 'Gt': a > b, 'GtE': a >= b}[opn]
            return fresh_bool('tensorcmp')
        if v._val is not None and v.cost <= 40:
            x = v.at([(0,) * len(a.factors) for a in v.axes])
            if x.is_simple():
                return x.simple_expr() != 0
        return _scalar_of(v) != 0
    if isinstance(v, (I.SObj, I.SFunc, I.SClass, I.Ext, I.Module, I.BoundMethod, I.Opaque, I.ExtMethod)):
        if isinstance(v, I.SObj) and (v.cls.lookup('__bool__') or v.cls.lookup('__len__')):
            raise OutOfSubset('user __bool__')
        return True
    if v is Ellipsis:
        return True
    if isinstance(v, slice):
        return True
    raise OutOfSubset('truth value of %s' % type(v).__name__)


def _elem_scalar(x):
    if isinstance(x, STensor):
        if T.numel(x) != 1 and not is_sym(T.numel(x)):
            return None
        if x._val is not None and x.cost <= 40:
            t = x.at([(0,) * len(a.factors) for a in x.axes])
            if t.is_simple():
                return t.simple_expr()
            return None
        return _scalar_of(x) if x.ndim == 0 else None
    if isinstance(x, bool):
        return z3.RealVal(int(x))
    if is_number(x):
        return real_expr(x)
    return None


def iterate(ex, v, live=False):
    if isinstance(v, list):
        return v if live else list(v)
    if isinstance(v, (tuple, set, range)):
        return list(v)
    if isinstance(v, dict):
        return list(v.keys())
    if isinstance(v, STensor):
        n = v.shape[0] if v.ndim else None
        if n is None:
            raise PyRaise('TypeError', 'iteration over a 0-d tensor', origin='torch')
        if is_sym(n):
            raise OutOfSubset('iteration over a tensor of symbolic length')
        return [T.getitem(v, k) for k in range(n)]
    if isinstance(v, _LazyIter):
        return v.items()
    if isinstance(v, SymRange):
        raise OutOfSubset('range() over a symbolic bound')
    if isinstance(v, SIter):
        rest = v.items[v.pos:]
        v.pos = len(v.items)
        return rest
    if v is None:
        raise PyRaise('TypeError', "'NoneType' object is not iterable")
    if isinstance(v, (int, float, SymScalar)) or is_sym(v):
        raise PyRaise('TypeError', 'object is not iterable')
    if isinstance(v, I.SObj):
        raise PyRaise('TypeError', "'%s' object is not iterable" % v.cls.name)
    raise OutOfSubset('iteration over %s' % type(v).__name__)


class SIter(object):
    """iter(sequence)"""
    def __init__(self, items):
        self.items, self.pos = items, 0


class SymRange(object):
    """range(n) with a symbolic bound: only usable as data (torch.tensor(range(n))) or by the loop contract"""
    def __init__(self, n):
        self.n = n


class _LazyIter(object):
    def __init__(self, f):
        self.f = f

    def items(self):
        return self.f()


# ------------------------------------------------------------------------------------------------
# subscripts
# ------------------------------------------------------------------------------------------------

def _conc_index(ex, i, n, what='list'):
    i = int_expr(i)
    if is_sym(i):
        raise OutOfSubset('symbolic index into a %s' % what)
    if isinstance(i, bool) or not isinstance(i, int):
        raise PyRaise('TypeError', '%s indices must be integers or slices, not %s' % (what, type(i).__name__))
    if i < -n or i >= n:
        raise PyRaise('IndexError', '%s index out of range' % what)
    return i


def _conc_slice(s):
    def c(v):
        v = int_expr(v)
        if is_sym(v):
            raise OutOfSubset('symbolic slice bound on a python sequence')
        return v
    return slice(c(s.start), c(s.stop), c(s.step))


def subscript(ex, obj, idx):
    if isinstance(obj, STensor):
        return T.getitem(obj, _tensor_index(idx))
    if isinstance(obj, (list, tuple)):
        if isinstance(idx, slice):
            r = obj[_conc_slice(idx)]
            return I.SSize(r) if isinstance(obj, I.SSize) else r
        if isinstance(idx, (list, tuple, STensor)) or idx is None:
            raise PyRaise('TypeError', 'list indices must be integers or slices, not %s' % type(idx).__name__)
        return obj[_conc_index(ex, idx, len(obj))]
    if isinstance(obj, dict):
        if idx not in obj:
            raise PyRaise('KeyError', str(idx))
        return obj[idx]
    if isinstance(obj, I.SObj):
        m = obj.cls.lookup('__getitem__')
        if m is None:
            raise PyRaise('TypeError', "'%s' object is not subscriptable" % obj.cls.name)
        return ex.call_sfunc(m, [obj, idx], {})
    if obj is None:
        raise PyRaise('TypeError', "'NoneType' object is not subscriptable", origin='python-misuse')
    if isinstance(obj, (int, float, SymScalar)) or is_sym(obj):
        raise PyRaise('TypeError', 'object is not subscriptable')
    if isinstance(obj, (str, I.Opaque)):
        return I.Opaque('str')
    raise OutOfSubset('subscript of %s' % type(obj).__name__)


def _tensor_index(idx):
    def one(i):
        if isinstance(i, (list,)):
            raise OutOfSubset('list as tensor index')
        if is_sym(i) and not isinstance(i, z3.BoolRef):
            return i
        return i
    if isinstance(idx, tuple):
        return tuple(one(i) for i in idx)
    return one(idx)


def store_subscript(ex, obj, idx, v):
    if isinstance(obj, STensor):
        if obj.requires_grad and obj.is_leaf:
            raise PyRaise('RuntimeError', 'a leaf Variable that requires grad is being used in an in-place operation', origin='torch')
        return T.setitem(obj, _tensor_index(idx), v)
    if isinstance(obj, list):
        ex.record_list_write(obj, 'setitem')
        if isinstance(idx, slice):
            obj[_conc_slice(idx)] = list(v)
            return
        obj[_conc_index(ex, idx, len(obj))] = v
        return
    if isinstance(obj, dict):
        obj[idx] = v
        return
    if isinstance(obj, tuple):
        raise PyRaise('TypeError', "'tuple' object does not support item assignment")
    if isinstance(obj, I.SObj):
        raise PyRaise('TypeError', "'%s' object does not support item assignment" % obj.cls.name)
    raise OutOfSubset('subscript store on %s' % type(obj).__name__)


# ------------------------------------------------------------------------------------------------
# attributes of values
# ------------------------------------------------------------------------------------------------

_TENSOR_METHODS = {'is_floating_point', 'is_complex', 'resolve_conj', 'is_conj', 'conj_physical', 'topk', 'clone', 'detach', 'to', 'cpu', 'cuda', 'numpy', 'numel', 'permute', 'requires_grad_', 't', 'conj',
                   'backward', 'retain_grad', 'reshape', 'sum', 'item', 'size', 'dim', 'squeeze', 'unsqueeze', 'norm',
                   'copy', 'flatten', 'transpose', 'contiguous', 'double', 'float', 'view', 'abs', 'tolist', 'type', 'index'}
_LIST_METHODS = {'append', 'copy', 'index', 'count', 'extend', 'insert', 'pop', 'reverse', 'sort', 'remove', 'clear'}


def value_attr(ex, obj, name):
    if isinstance(obj, STensor):
        if name == 'shape':
            return I.SSize(obj.shape) if obj.lib == 'torch' else tuple(obj.shape)
        if name == 'dtype':
            return I.DType(obj.dtype)
        if name == 'device':
            return I.CPU
        if name == 'is_cuda':
            if obj.lib == 'numpy':
                raise PyRaise('AttributeError', "'numpy.ndarray' object has no attribute 'is_cuda'", origin='python-misuse')
            return False
        if name == 'T':
            if obj.ndim != 2:
                raise OutOfSubset('.T on a non-matrix')
            return T.transpose2(obj)
        if name == 'requires_grad':
            return obj.requires_grad or bool(obj.deps)
        if name == 'grad_fn':
            return I.Opaque('grad_fn') if obj.deps else None
        if name == 'grad':
            return obj.grad
        if name == 'is_cuda':
            return False
        if name == 'is_leaf':
            return obj.is_leaf
        if name == 'ndim':
            return obj.ndim
        if name == 'size' and obj.lib == 'numpy':
            return T.numel(obj)
        if name == 'data':
            return T.detach(obj)
        if name in _TENSOR_METHODS:
            return I.ExtMethod(obj, name)
        api = known_api().get('torch.Tensor' if obj.lib == 'torch' else 'numpy.ndarray')
        if api is not None and name not in api:
            raise PyRaise('AttributeError', "'Tensor' object has no attribute '%s'" % name, origin='python-misuse')
        raise OutOfSubset('tensor attribute %s' % name)
    if isinstance(obj, list):
        if name in _LIST_METHODS:
            return I.ExtMethod(obj, name)
        raise PyRaise('AttributeError', "'list' object has no attribute '%s'" % name, origin='python-misuse')
    if isinstance(obj, tuple):
        if name in ('count', 'index'):
            return I.ExtMethod(obj, name)
        if isinstance(obj, I.SSize) and name == 'numel':
            return I.ExtMethod(obj, name)
        raise PyRaise('AttributeError', "'tuple' object has no attribute '%s'" % name, origin='python-misuse')
    if isinstance(obj, dict):
        if name in ('keys', 'values', 'items', 'get', 'update', 'copy'):
            return I.ExtMethod(obj, name)
        raise PyRaise('AttributeError', "'dict' object has no attribute '%s'" % name)
    if isinstance(obj, slice):
        if name in ('start', 'stop', 'step'):
            return getattr(obj, name)
    if isinstance(obj, SymScalar) or is_sym(obj) or isinstance(obj, (int, float)):
        if isinstance(obj, SymScalar) and obj.pytype.startswith('np.'):
            if name in ('numpy', 'cpu', 'item'):
                return I.ExtMethod(obj, name)
        if name == 'real':
            return obj
        if name in ('shape',) and _is_np(obj):
            return ()
        raise PyRaise('AttributeError', "'%s' object has no attribute '%s'" % ('float', name), origin='python-misuse')
    if obj is None:
        raise PyRaise('AttributeError', "'NoneType' object has no attribute '%s'" % name, origin='python-misuse')
    if isinstance(obj, I.BoundMethod) or isinstance(obj, I.SFunc):
        raise OutOfSubset('function attribute')
    if isinstance(obj, I.DType):
        if name == 'is_complex':
            return obj in T.COMPLEX
        if name == 'is_floating_point':
            return obj in T.FLOATS
    if isinstance(obj, (str, I.Opaque)):
        if not hasattr(str, name):
            raise PyRaise('AttributeError', "'str' object has no attribute '%s'" % name, origin='python-misuse')
        raise OutOfSubset('string method %s' % name)
    if isinstance(obj, I.Device):
        return I.Opaque('str')
    if isinstance(obj, I.ExcValue):
        return I.Opaque('str')
    raise OutOfSubset('attribute %s of %s' % (name, type(obj).__name__))


def module_base_attr(ex, obj, name):
    """attributes inherited from an external base class (nn.Module)"""
    return NotImplemented


def super_call(ex, selfobj, cls, name):
    if name == '__init__':
        return None
    raise OutOfSubset('super().%s' % name)


def ext_attr(ex, obj, name):
    full = obj.name + '.' + name
    top = obj.name.split('.')[0]
    if top == 'torch':
        if name in DTYPES and obj.name == 'torch':
            return I.DType(DTYPES[name])
    if top == 'numpy' and obj.name == 'numpy':
        if name in ('float64', 'float32', 'int64', 'complex128', 'int32'):
            return I.Ext(full)
        if name == 'pi':
            raise OutOfSubset('numpy.pi')
    if top == 'sys' and name == 'maxsize':
        return I.MAXSIZE
    if top == 'math' and name in ('pi', 'e', 'inf'):
        raise OutOfSubset('math constant')
    api = known_api().get(obj.name)
    if api is not None and name not in api:
        raise PyRaise('AttributeError', "module '%s' has no attribute '%s'" % (obj.name, name), origin='python-misuse')
    return I.Ext(full)


# ------------------------------------------------------------------------------------------------
# builtin calls
# ------------------------------------------------------------------------------------------------

def _isinstance(ex, v, typ):
    if isinstance(typ, tuple):
        return any(_isinstance(ex, v, t) for t in typ)
    if isinstance(typ, BI):
        n = typ.name
        if n == 'int':
            return (isinstance(v, int)) or (is_sym(v) and isinstance(v, z3.ArithRef) and v.is_int()) or (isinstance(v, SymScalar) and v.pytype == 'int') \
                or isinstance(v, bool)
        if n == 'bool':
            return isinstance(v, bool) or isinstance(v, z3.BoolRef)
        if n == 'float':
            return isinstance(v, float) or (isinstance(v, SymScalar) and v.pytype in ('float', 'np.float64')) or (is_sym(v) and isinstance(v, z3.ArithRef) and v.is_real())
        if n == 'complex':
            return isinstance(v, complex) or (isinstance(v, SymScalar) and v.pytype in ('complex', 'np.complex128'))
        if n == 'list':
            return isinstance(v, list)
        if n == 'tuple':
            return isinstance(v, tuple)
        if n == 'str':
            return isinstance(v, (str, I.Opaque)) and not isinstance(v, I.DType)
        if n == 'slice':
            return isinstance(v, slice)
        if n == 'dict':
            return isinstance(v, dict)
        if n == 'set':
            return isinstance(v, set)
        raise OutOfSubset('isinstance(..., %s)' % n)
    if isinstance(typ, I.SClass):
        return isinstance(v, I.SObj) and v.cls.is_subclass_of(typ)
    if isinstance(typ, I.Ext):
        n = typ.name
        if n in ('torch.Tensor', 'torch.tensor'):
            if n == 'torch.tensor':
                raise PyRaise('TypeError', 'isinstance() arg 2 must be a type', origin='python-misuse')
            return isinstance(v, STensor) and v.lib == 'torch'
        if n == 'numpy.ndarray':
            return isinstance(v, STensor) and v.lib == 'numpy'
        if n.startswith('builtins.'):
            return False
        if n in ('numpy.float64', 'numpy.floating'):
            return isinstance(v, SymScalar) and v.pytype == 'np.float64'
        if n in ('numpy.number', 'numpy.generic'):
            return isinstance(v, SymScalar) and v.pytype.startswith('np.')
        if n == 'numpy.integer':
            return isinstance(v, SymScalar) and v.pytype.startswith('np.int')
        raise OutOfSubset('isinstance(..., %s)' % n)
    raise PyRaise('TypeError', 'isinstance() arg 2 must be a type')


def _minmax(ex, name, args, kwargs):
    if len(args) == 1:
        items = iterate(ex, args[0])
    else:
        items = list(args)
    if not items:
        raise PyRaise('ValueError', '%s() iterable argument is empty' % name)
    items = [SymScalar(_scalar_of(x), 'float', 'np.float64') if isinstance(x, STensor) and (x.ndim == 0) else x for x in items]
    for x in items:
        if isinstance(x, STensor):
            raise OutOfSubset('min/max over tensors')
    if all(not is_sym(x) and not isinstance(x, SymScalar) for x in items):
        return min(items) if name == 'min' else max(items)
    if all(num_kind(x) == 'int' for x in items):
        r = to_int(int_expr(items[0]))
        for x in items[1:]:
            y = to_int(int_expr(x))
            r = z3.If(y < r, y, r) if name == 'min' else z3.If(y > r, y, r)
        # simplify against the path condition when one argument dominates
        for x in items:
            y = to_int(int_expr(x))
            if all(ex.pc.implied((y <= to_int(int_expr(o))) if name == 'min' else (y >= to_int(int_expr(o)))) for o in items):
                return sz(y)
        return sz(r)
    r = real_expr(items[0])
    for x in items[1:]:
        y = real_expr(x)
        r = z3.If(y < r, y, r) if name == 'min' else z3.If(y > r, y, r)
    return SymScalar(r, 'float')


def call_builtin(ex, f, args, kwargs):
    if isinstance(f, BI):
        n = f.name
        if n == 'len':
            v = args[0]
            if isinstance(v, (list, tuple, dict, set, str)):
                return len(v)
            if isinstance(v, STensor):
                if v.ndim == 0:
                    raise PyRaise('TypeError', 'len() of a 0-d tensor', origin='torch')
                return v.shape[0]
            if isinstance(v, I.SObj):
                raise PyRaise('TypeError', "object of type '%s' has no len()" % v.cls.name)
            raise PyRaise('TypeError', "object of type '%s' has no len()" % type(v).__name__)
        if n == 'range':
            vals = [int_expr(a) for a in args]
            if any(is_sym(v) for v in vals):
                if len(vals) == 1:
                    return SymRange(vals[0])
                raise OutOfSubset('range() over a symbolic bound')
            for v in vals:
                if not isinstance(v, int):
                    raise PyRaise('TypeError', "'%s' object cannot be interpreted as an integer" % type(v).__name__)
            return range(*vals)
        if n == 'iter':
            return SIter(list(iterate(ex, args[0])))
        if n == 'next':
            it = args[0]
            if not isinstance(it, SIter):
                raise PyRaise('TypeError', "'%s' object is not an iterator" % type(it).__name__)
            if it.pos >= len(it.items):
                if len(args) > 1:
                    return args[1]
                raise PyRaise('StopIteration', '')
            it.pos += 1
            return it.items[it.pos - 1]
        if n == 'zip':
            its = [iterate(ex, a) for a in args]
            return list(zip(*its))
        if n == 'enumerate':
            return list(enumerate(iterate(ex, args[0]), *args[1:]))
        if n == 'reversed':
            return list(reversed(iterate(ex, args[0])))
        if n == 'list':
            return list(iterate(ex, args[0])) if args else []
        if n == 'tuple':
            return tuple(iterate(ex, args[0])) if args else ()
        if n == 'set':
            items = iterate(ex, args[0]) if args else []
            if any(is_sym(x) or isinstance(x, SymScalar) for x in items):
                raise OutOfSubset('set of symbolic values')
            return set(items)
        if n == 'dict':
            return dict(*args, **kwargs)
        if n == 'isinstance':
            return _isinstance(ex, args[0], args[1])
        if n in ('min', 'max'):
            return _minmax(ex, n, args, kwargs)
        if n == 'sum':
            items = iterate(ex, args[0])
            r = args[1] if len(args) > 1 else 0
            for x in items:
                r = binop(ex, 'Add', r, x)
            return r
        if n in ('any', 'all'):
            items = iterate(ex, args[0])
            for x in items:
                t = ex.truth(x)
                if n == 'any' and t:
                    return True
                if n == 'all' and not t:
                    return False
            return n == 'all'
        if n == 'int':
            v = args[0]
            if isinstance(v, (int, float)):
                return int(v)
            if is_intlike(v):
                return int_expr(v)
            if isinstance(v, SymScalar) or is_sym(v):
                e = real_expr(v)
                # truncation towards zero ; floor for non-negative values
                if ex.pc.implied(e >= 0):
                    return sz(z3.ToInt(e))
                raise OutOfSubset('int() of a possibly negative symbolic real')
            if isinstance(v, STensor):
                raise OutOfSubset('int(tensor)')
            raise PyRaise('TypeError', 'int() argument')
        if n == 'float':
            v = args[0]
            if isinstance(v, (int, float)):
                return float(v)
            if isinstance(v, SymScalar):
                return SymScalar(v.real(), 'float', 'float')
            if is_sym(v):
                return SymScalar(to_real(v), 'float', 'float')
            if isinstance(v, STensor):
                if v.deps or (v.requires_grad and v.is_leaf):
                    ex.grad_cuts.append(('float()', ex.cur_where()))
                return SymScalar(_scalar_of(v), 'float', 'float')
            raise PyRaise('TypeError', 'float() argument')
        if n == 'bool':
            return ex.truth(args[0])
        if n == 'str':
            return I.Opaque('str')
        if n == 'print':
            return None
        if n == 'abs':
            v = args[0]
            if isinstance(v, (int, float)):
                return abs(v)
            if is_intlike(v):
                e = to_int(int_expr(v))
                return sz(z3.If(e < 0, -e, e))
            if isinstance(v, STensor):
                return T.unary_fn(v, 'abs')
            e = real_expr(v)
            return SymScalar(z3.If(e < 0, -e, e), 'float')
        if n == 'sorted':
            items = iterate(ex, args[0])
            if any(is_sym(x) or isinstance(x, SymScalar) for x in items):
                raise OutOfSubset('sorted() of symbolic values')
            return sorted(items)
        if n == 'slice':
            return slice(*args) if len(args) > 1 else slice(None, args[0], None)
        if n == 'type':
            v = args[0]
            if isinstance(v, I.SObj):
                return v.cls
            raise OutOfSubset('type()')
        if n == 'hasattr':
            v, name = args
            if isinstance(v, I.SObj):
                return name in v.attrs or v.cls.lookup(name) is not None
            raise OutOfSubset('hasattr on %s' % type(v).__name__)
        if n == 'getattr':
            v, name = args[0], args[1]
            if not isinstance(name, str):
                raise PyRaise('TypeError', 'attribute name must be string')
            if isinstance(v, I.SObj) and len(args) == 3:
                if name in v.attrs or v.cls.lookup(name) is not None:
                    return ex.getattr(v, name)
                return args[2]
            if len(args) == 2:
                return ex.getattr(v, name)
            raise OutOfSubset('getattr with a default on %s' % type(v).__name__)
        if n == 'setattr':
            ex.setattr(args[0], args[1], args[2])
            return None
        if n == 'callable':
            return isinstance(args[0], (I.SFunc, I.BoundMethod, I.SClass, I.Ext, I.ExtMethod, BI))
        if n == 'id':
            return id(args[0])
        if n == 'round':
            v = args[0]
            if isinstance(v, (int, float)) and not isinstance(v, bool) and (len(args) == 1 or args[1] is None):
                return round(v)
            if isinstance(v, (int, float)) and len(args) == 2 and isinstance(args[1], int):
                return round(v, args[1])
            raise OutOfSubset('round() of a symbolic value')
        if n == 'map':
            return [ex.call(args[0], [x]) for x in iterate(ex, args[1])]
        raise OutOfSubset('builtin %s' % n)
    raise OutOfSubset('call of python object %r' % (f,))


# ------------------------------------------------------------------------------------------------
# methods of built-in values
# ------------------------------------------------------------------------------------------------

def call_method(ex, obj, name, args, kwargs):
    if isinstance(obj, list):
        if name == 'append':
            ex.record_list_write(obj, 'append')
            obj.append(args[0])
            return None
        if name == 'copy':
            return obj.copy() if not isinstance(obj, I.SParamList) else list(obj)
        if name == 'extend':
            ex.record_list_write(obj, 'extend')
            obj.extend(iterate(ex, args[0]))
            return None
        if name == 'insert':
            ex.record_list_write(obj, 'insert')
            obj.insert(_conc_index(ex, args[0], len(obj) + 1), args[1])
            return None
        if name == 'pop':
            ex.record_list_write(obj, 'pop')
            if not obj:
                raise PyRaise('IndexError', 'pop from empty list')
            return obj.pop(*[_conc_index(ex, a, len(obj)) for a in args])
        if name == 'reverse':
            ex.record_list_write(obj, 'reverse')
            obj.reverse()
            return None
        if name == 'clear':
            ex.record_list_write(obj, 'clear')
            obj.clear()
            return None
        if name in ('index', 'count'):
            return _seq_index_count(ex, obj, name, args)
        raise OutOfSubset('list.%s' % name)
    if isinstance(obj, tuple):
        if name in ('index', 'count'):
            return _seq_index_count(ex, obj, name, args)
        if name == 'numel':
            return sz(T.prod(list(obj)))
    if isinstance(obj, dict):
        if name == 'keys':
            return list(obj.keys())
        if name == 'values':
            return list(obj.values())
        if name == 'items':
            return list(obj.items())
        if name == 'get':
            return obj.get(*args)
        if name == 'copy':
            return dict(obj)
        if name == 'update':
            obj.update(*args, **kwargs)
            return None
    if isinstance(obj, SymScalar):
        if name in ('numpy', 'cpu', 'item'):
            return obj
    if isinstance(obj, STensor):
        return tensor_method(ex, obj, name, args, kwargs)
    raise OutOfSubset('method %s of %s' % (name, type(obj).__name__))


def _seq_index_count(ex, obj, name, args):
    x = args[0]
    if name == 'count':
        c = 0
        for y in obj:
            if x is Ellipsis or y is Ellipsis:
                e = (x is y)
            elif isinstance(y, STensor) or isinstance(x, STensor):
                raise OutOfSubset('count() over tensors')
            else:
                e = eq_sym(ex, y, x)
            if e is True:
                c += 1
            elif e is not False:
                if ex.decide(e):
                    c += 1
        return c
    for k, y in enumerate(obj):
        e = (x is y) if (x is Ellipsis or y is Ellipsis) else eq_sym(ex, y, x)
        if e is True or (e is not False and ex.decide(e)):
            return k
    raise PyRaise('ValueError', 'value is not in list')


def tensor_method(ex, t, name, args, kwargs):
    if name == 'clone':
        return T.clone(t)
    if name == 'copy' and t.lib == 'numpy':
        return T.clone(t)
    if name == 'detach':
        return T.detach(t)
    if name == 'cpu':
        return t
    if name == 'cuda':
        raise OutOfSubset('cuda')
    if name == 'contiguous':
        if t.contiguous:
            return t
        c = T.clone(t)           # a strided tensor is copied (when the model cannot tell, aliasing is unknown)
        c.contiguous = True
        c.maybe_view_of = t
        return c
    if name == 'to':
        dtype = kwargs.get('dtype')
        for a in args:
            if isinstance(a, I.DType):
                dtype = a
        return T.to_dtype(t, str(dtype) if dtype is not None else None)
    if name in ('double', 'float'):
        return T.to_dtype(t, 'float64' if name == 'double' else 'float32')
    if name == 'numpy':
        if t.deps or (t.requires_grad):
            raise PyRaise('RuntimeError', "Can't call numpy() on Tensor that requires grad", origin='torch')
        if getattr(t, 'conj_bit', False):
            raise PyRaise('RuntimeError', "Can't call numpy() on Tensor that has conjugate bit set", origin='torch')
        out = STensor(list(t.axes), t.dtype, t._val, lib='numpy', ival=t.ival)
        out.ghost = dict(t.ghost)
        T.derive(out, t, differentiable=False, view_of=t)
        return out
    if name == 'numel':
        return T.numel(t)
    if name == 'dim':
        return t.ndim
    if name == 'size':
        if args:
            return t.shape[T.norm_dim(args[0], t.ndim)]
        return I.SSize(t.shape)
    if name == 'permute':
        dims = args[0] if len(args) == 1 and isinstance(args[0], (list, tuple)) else args
        return T.permute(t, [int_expr(d) for d in dims])
    if name == 't':
        return T.transpose2(t)
    if name == 'transpose':
        if t.lib == 'numpy' and not args:
            return T.permute(t, list(reversed(range(t.ndim))))
        a, b = [T.norm_dim(x, t.ndim) for x in args]
        p = list(range(t.ndim))
        p[a], p[b] = p[b], p[a]
        return T.permute(t, p)
    if name == 'flatten':
        return T.reshape(t, [-1])
    if name == 'topk':
        return _topk(ex, t, args, kwargs)
    if name == 'conj':
        return T.conj(t)
    if name in ('is_floating_point', 'is_complex') and t.lib == 'numpy':
        raise PyRaise('AttributeError', "'numpy.ndarray' object has no attribute '%s'" % name, origin='python-misuse')
    if name == 'is_floating_point':
        return t.dtype in T.FLOATS
    if name == 'is_complex':
        return t.dtype in T.COMPLEX
    if name == 'is_conj':
        return bool(getattr(t, 'conj_bit', False))
    if name == 'conj_physical':
        # eager conjugation: a new tensor holding conj(values of t), conjugate bit clear (whatever the bit of t is)
        if t.dtype not in T.COMPLEX:
            return t                       # real tensors: torch returns the tensor itself
        val = None
        if t._val is not None:
            def val(idx, _t=t):
                return _t.at(idx).conj()
        out = STensor(list(t.axes), t.dtype, val, lib=t.lib)
        T.derive(out, t)
        out.conj_bit = False
        return out
    if name == 'resolve_conj':
        if not getattr(t, 'conj_bit', False):
            return t
        c = T.clone(t)
        c.conj_bit = False
        return c
    if name == 'abs':
        return T.unary_fn(t, 'abs')
    if name in ('reshape', 'view'):
        shape = args[0] if len(args) == 1 and isinstance(args[0], (list, tuple)) else args
        if name == 'view' and not t.contiguous:
            raise OutOfSubset('view() of a possibly non-contiguous tensor (raises when the strides are incompatible)')
        return T.reshape(t, [int_expr(s) for s in shape])
    if name == 'squeeze':
        return T.squeeze(t, *args, **kwargs)
    if name == 'unsqueeze':
        return T.unsqueeze(t, *args)
    if name == 'sum':
        return T.sum_(t, *args, **kwargs)
    if name == 'norm':
        return T.fro_norm(t)
    if name == 'item':
        if t.ndim and not all(T.known_eq(s, 1) for s in t.shape):
            raise OutOfSubset('item() of a non-scalar')
        if t.deps or (t.requires_grad and t.is_leaf):
            ex.grad_cuts.append(('item()', ex.cur_where()))
        return SymScalar(_scalar_of(t) if t._val is None or not t.at([(0,) * len(a.factors) for a in t.axes]).is_simple() else t.at([(0,) * len(a.factors) for a in t.axes]).simple_expr(), 'float')
    if name == 'requires_grad_':
        flag = args[0] if args else kwargs.get('requires_grad', True)
        if not t.is_leaf and not flag:
            raise PyRaise('RuntimeError', 'you can only change requires_grad flags of leaf variables', origin='torch')
        if t.dtype not in T.FLOATS + T.COMPLEX and flag:
            raise PyRaise('RuntimeError', 'only Tensors of floating point and complex dtype can require gradients', origin='torch')
        if t.storage.id in ex.arg_storages:
            ex.writes.append(('requires_grad', ex.arg_storages[t.storage.id], str(flag)))
        t.requires_grad = bool(flag)
        return t
    if name == 'retain_grad':
        if not (t.requires_grad or t.deps):
            raise PyRaise('RuntimeError', "can't retain_grad on Tensor that has requires_grad=False", origin='torch')
        if t.deps:
            t.retains_grad = True          # non-leaf: backward() will fill its .grad (a no-op on leaves)
        return None
    if name == 'backward':
        return backward(ex, t)
    if name == 'tolist':
        raise OutOfSubset('tolist')
    raise OutOfSubset('tensor method %s' % name)


def backward(ex, t):
    """contract of torch.autograd (assumed): fills .grad of every tracked leaf the value was differentiably derived from"""
    if T.numel(t) != 1 and not T.known_eq(T.numel(t), 1):
        raise PyRaise('RuntimeError', 'grad can be implicitly created only for scalar outputs', origin='torch')
    if not t.deps and not (t.requires_grad):
        raise PyRaise('RuntimeError', 'element 0 of tensors does not require grad and does not have a grad_fn', origin='torch')
    ex.events.append(('backward', t))
    retained = [c for c in ex._all_tensors() if getattr(c, 'retains_grad', False) and c.deps and (c.tid in getattr(t, 'anc', frozenset()))]
    for leaf in ex.tracked_leaves() + retained:
        if leaf.tid in t.deps or leaf is t or leaf in retained:
            old = getattr(leaf, 'grad', None)
            if isinstance(old, STensor):
                # torch ACCUMULATES into an existing .grad, in place: the same tensor object now holds old + d t / d leaf
                prev = old.ghost.get('grad_of')
                old.ghost['grad_of'] = ('accumulated', prev, (t, leaf))
                old.ghost['accumulated'] = True
                ex.events.append(('grad_accumulated', leaf))
                continue
            g = T.opaque_tensor(leaf.shape, leaf.dtype, 'grad')
            g.ghost['grad_of'] = (t, leaf)
            leaf.grad = g
    return None


# ------------------------------------------------------------------------------------------------
# external functions
# ------------------------------------------------------------------------------------------------

def _dtype_kw(kwargs, default=None):
    d = kwargs.get('dtype', None)
    if d is None:
        return default
    if isinstance(d, I.DType):
        return str(d)
    if isinstance(d, I.Ext) and d.name.startswith('numpy.'):
        return d.name.split('.')[1]
    raise PyRaise('TypeError', 'dtype must be torch.dtype', origin='torch')


def _ints(xs):
    return [int_expr(x) for x in xs]


def call_ext(ex, name, args, kwargs):
    spy = getattr(ex, 'ext_hooks', {}).get(name)
    if spy is not None:
        r = spy(ex, args, kwargs)          # contract harness: observe (or replace) a library call at its call site
        if r is not NotImplemented:
            return r
    f = EXT.get(name)
    if f is None:
        if name.startswith('builtins.') and name.split('.')[1] in _EXC_NAMES:
            return I.ExcValue(name.split('.')[1])
        top, _, last = name.rpartition('.')
        api = known_api().get(top)
        if api is not None and last not in api:
            raise PyRaise('AttributeError', "module '%s' has no attribute '%s'" % (top, last), origin='python-misuse')
        raise OutOfSubset('external function %s' % name)
    return f(ex, args, kwargs)


EXT = {}


def ext(*names):
    def deco(f):
        for n in names:
            EXT[n] = f
        return f
    return deco


@ext('torch.is_tensor')
def _is_tensor(ex, a, k):
    return isinstance(a[0], STensor) and a[0].lib == 'torch'


@ext('numpy.isscalar')
def _isscalar(ex, a, k):
    v = a[0]
    return isinstance(v, (int, float, complex, str, SymScalar, bool)) or (is_sym(v) and not isinstance(v, z3.BoolRef)) and not isinstance(v, I.DType)


@ext('torch.numel')
def _numel(ex, a, k):
    if not isinstance(a[0], STensor):
        raise PyRaise('TypeError', 'numel(): argument must be Tensor', origin='torch')
    return T.numel(a[0])


def _creation(fill):
    def f(ex, a, k):
        k = dict(k)
        k.pop('device', None)
        dtype = _dtype_kw(k)
        if not a and 'size' not in k:
            raise PyRaise('TypeError', 'missing 1 required positional argument: size', origin='torch')
        shape = T._shape_arg(a)
        shape = _ints(shape)
        for s in shape:
            if isinstance(s, (float, STensor)) or s is None or isinstance(s, (list, tuple)):
                raise PyRaise('TypeError', 'size must be a sequence of ints', origin='torch')
        return T.full_like_shape(shape, fill, dtype)
    return f


EXT['torch.ones'] = _creation(1)
EXT['torch.zeros'] = _creation(0)


@ext('torch.eye')
def _eye(ex, a, k):
    dtype = _dtype_kw(k)
    a = _ints(a)
    return T.eye(a[0], a[1] if len(a) > 1 else None, dtype)


@ext('torch.randn', 'torch.rand')
def _randn(ex, a, k):
    dtype = _dtype_kw(k, T.DEFAULT_FLOAT)
    shape = _ints(T._shape_arg(a))
    T._check_sizes(shape)
    return T.opaque_tensor(shape, dtype, 'rnd')


@ext('torch.tensor')
def _tensor(ex, a, k):
    dtype = _dtype_kw(k)
    data = a[0]
    if isinstance(data, STensor) and data.lib == 'numpy':
        out = STensor(list(data.axes), dtype or data.dtype, data._val, ival=data.ival)
        out.ghost = dict(data.ghost)
        out.ghost['copy_of'] = data
        return out
    if isinstance(data, STensor):
        out = T.from_data(data, dtype)
        return out
    if isinstance(data, SymRange):
        require(to_int(data.n) >= 0, 'RuntimeError', 'negative length')
        return T.arange_tensor(data.n, dtype or 'int64')
    if isinstance(data, I.SObj) or data is None or isinstance(data, (str, I.Opaque)):
        raise PyRaise('RuntimeError', 'Could not infer dtype', origin='torch')
    if is_sym(data):
        data = SymScalar(data, 'int' if data.is_int() else 'float')
    return T.from_data(data, dtype)


@ext('torch.as_tensor')
def _as_tensor(ex, a, k):
    """torch.as_tensor(data, dtype=None, device=None): a tensor is returned as it is (converted when a dtype is given); python data
    is converted like torch.tensor (python floats become the DEFAULT dtype float32 -- a double is rounded)"""
    k = dict(k)
    k.pop('device', None)
    dtype = _dtype_kw(k)
    data = a[0]
    if len(a) > 1:
        raise PyRaise('TypeError', 'as_tensor() takes 1 positional argument but %d were given' % len(a), origin='torch')
    if isinstance(data, STensor) and data.lib == 'numpy' and (dtype is None or dtype == data.dtype):
        out = STensor(list(data.axes), data.dtype, data._val, ival=data.ival, contiguous=data.contiguous)    # torch.from_numpy: shares the memory
        out.ghost = dict(data.ghost)
        return T.derive(out, data, differentiable=False, view_of=data)
    if isinstance(data, STensor):
        return T.to_dtype(data, dtype) if data.lib != 'numpy' else _tensor(ex, [data], {'dtype': I.DType(dtype)} if dtype else {})
    return _tensor(ex, [data], {'dtype': I.DType(dtype)} if dtype else {})


@ext('torch.arange')
def _arange(ex, a, k):
    dtype = _dtype_kw(k)
    if dtype in T.COMPLEX:
        raise PyRaise('NotImplementedError', '"arange_cpu" not implemented for complex dtypes', origin='torch')
    if len(a) == 1:
        n = int_expr(a[0])
        if is_intlike(a[0]):
            if is_sym(n):
                require(n >= 0, 'RuntimeError', 'upper bound and larger bound inconsistent with step sign')
            elif n < 0:
                raise PyRaise('RuntimeError', 'upper bound and larger bound inconsistent with step sign', origin='torch')
            return T.arange_tensor(n, dtype)
    raise OutOfSubset('arange(start, stop, step)')


@ext('torch.reshape')
def _reshape(ex, a, k):
    t = a[0]
    if not isinstance(t, STensor):
        raise PyRaise('TypeError', 'reshape(): argument input must be Tensor', origin='torch')
    shape = a[1] if len(a) > 1 else k['shape']
    if isinstance(shape, STensor) or not isinstance(shape, (list, tuple)):
        raise PyRaise('TypeError', 'reshape(): argument shape must be tuple of ints', origin='torch')
    return T.reshape(t, list(shape))


@ext('torch.permute')
def _permute(ex, a, k):
    if not isinstance(a[0], STensor):
        raise PyRaise('TypeError', 'permute(): argument input must be Tensor', origin='torch')
    return T.permute(a[0], _ints(iterate(ex, a[1])))


@ext('torch.squeeze')
def _squeeze(ex, a, k):
    if not isinstance(a[0], STensor):
        raise PyRaise('TypeError', 'squeeze(): argument input must be Tensor', origin='torch')
    return T.squeeze(a[0], *a[1:], **k)


@ext('torch.unsqueeze')
def _unsqueeze(ex, a, k):
    if not isinstance(a[0], STensor):
        raise PyRaise('TypeError', 'unsqueeze(): argument input must be Tensor', origin='torch')
    return T.unsqueeze(a[0], a[1])


@ext('torch.conj')
def _conj(ex, a, k):
    if not isinstance(a[0], STensor):
        raise PyRaise('TypeError', 'conj(): argument input must be Tensor', origin='torch')
    return T.conj(a[0])


@ext('torch.einsum')
def _einsum(ex, a, k):
    return T.einsum(a[0], *a[1:])


@ext('opt_einsum.contract')
def _oe_contract(ex, a, k):
    return T.einsum(a[0], *a[1:], validated_by_opt_einsum=True)


@ext('torch.tensordot')
def _tensordot(ex, a, k):
    dims = a[2] if len(a) > 2 else k.get('dims', 2)
    return T.tensordot(a[0], a[1], dims)


@ext('torch.nn.functional.pad')
def _pad(ex, a, k):
    t = a[0]
    if not isinstance(t, STensor):
        raise PyRaise('TypeError', 'pad(): argument input must be Tensor', origin='torch')
    pads = a[1]
    value = a[3] if len(a) > 3 else k.get('value', 0)
    if value is None:
        value = 0
    mode = a[2] if len(a) > 2 else k.get('mode', 'constant')
    if mode != 'constant':
        raise OutOfSubset('pad mode')
    if isinstance(value, STensor):
        if value.ndim != 0:
            raise PyRaise('TypeError', 'pad(): value must be a number', origin='torch')
    elif not is_number(value):
        raise PyRaise('TypeError', 'pad(): value must be a number', origin='torch')
    return T.pad(t, _ints(iterate(ex, pads)), value)


@ext('torch.cat', 'torch.concat')
def _cat(ex, a, k):
    dim = a[1] if len(a) > 1 else k.get('dim', k.get('axis', 0))
    return T.cat(iterate(ex, a[0]), dim)


@ext('torch.tile')
def _tile(ex, a, k):
    return T.tile(a[0], _ints(iterate(ex, a[1])))


@ext('torch.sum')
def _sum(ex, a, k):
    if not isinstance(a[0], STensor):
        raise PyRaise('TypeError', 'sum(): argument input must be Tensor', origin='torch')
    return T.sum_(a[0], *a[1:], **k)


@ext('torch.diag')
def _diag(ex, a, k):
    return T.diag(a[0])


@ext('torch.diagonal')
def _diagonal(ex, a, k):
    return T.diagonal(a[0], *a[1:], **k)


@ext('torch.sqrt')
def _sqrt(ex, a, k):
    return T.unary_fn(a[0], 'sqrt')


@ext('torch.abs')
def _abs(ex, a, k):
    return T.unary_fn(a[0], 'abs')


@ext('torch.linalg.norm')
def _norm(ex, a, k):
    if len(a) > 1 or k:
        raise OutOfSubset('linalg.norm with ord/dim')
    return T.fro_norm(a[0])


@ext('torch.prod')
def _prod(ex, a, k):
    t = a[0]
    if t.ndim != 1 or is_sym(t.shape[0]):
        raise OutOfSubset('prod of a non-vector')
    r = Term.of(1)
    for j in range(t.shape[0]):
        r = r * t.at([j])
    out = STensor([], t.dtype if t.dtype not in ('int32', 'bool') else 'int64', lambda idx: r)
    if t.ival is not None:
        iv = 1
        for j in range(t.shape[0]):
            iv = iv * t.ival([(j,)])
        out.ival = lambda idx: iv
    return T.derive(out, t)


@ext('torch.autograd.grad')
def _autograd_grad(ex, a, k):
    """assumed contract of torch.autograd.grad(output, inputs, allow_unused=False): one derivative per input, in the order of the inputs;
    None (allow_unused) / RuntimeError for an input the output was not differentiably derived from; nothing is written to .grad"""
    out = a[0]
    inputs = a[1] if len(a) > 1 else k.get('inputs')
    allow_unused = bool(k.get('allow_unused', False))
    extra = set(k) - {'inputs', 'allow_unused', 'retain_graph'}
    if extra or len(a) > 2:
        raise OutOfSubset('autograd.grad options %s' % sorted(extra))
    if isinstance(out, (list, tuple)):
        raise OutOfSubset('autograd.grad of several outputs')
    single = isinstance(inputs, STensor)
    ins = [inputs] if single else list(iterate(ex, inputs))
    if T.numel(out) != 1 and not T.known_eq(T.numel(out), 1):
        raise PyRaise('RuntimeError', 'grad can be implicitly created only for scalar outputs', origin='torch')
    if not out.deps and not out.requires_grad:
        raise PyRaise('RuntimeError', 'element 0 of tensors does not require grad and does not have a grad_fn', origin='torch')
    res = []
    for c in ins:
        if not isinstance(c, STensor):
            raise PyRaise('TypeError', 'autograd.grad: inputs must be tensors', origin='torch')
        if not (c.requires_grad or c.deps):
            raise PyRaise('RuntimeError', 'One of the differentiated Tensors does not require grad', origin='torch')
        used = (c.is_leaf and c.tid in out.deps) or (not c.is_leaf and c.tid in getattr(out, 'anc', frozenset())) or c is out
        if not used:
            if not allow_unused:
                raise PyRaise('RuntimeError', 'One of the differentiated Tensors appears to not have been used in the graph', origin='torch')
            res.append(None)
            continue
        g = T.opaque_tensor(c.shape, c.dtype, 'grad')
        g.ghost['grad_of'] = (out, c)
        res.append(g)
    return tuple(res)


@ext('torch.kron')
def _kron(ex, a, k):
    return T.kron2(a[0], a[1])


@ext('torch.save')
def _save(ex, a, k):
    ex.events.append(('torch.save', a[0], a[1]))
    ex.saved = getattr(ex, 'saved', {})
    ex.saved[id(a[1])] = a[0]
    ex.saved_last = a[0]
    return None


@ext('torch.load')
def _load(ex, a, k):
    """contract (assumed): torch.load(torch.save(obj)) is a deep copy of obj with bit-identical tensors"""
    obj = getattr(ex, 'saved_last', None)
    if obj is None:
        raise OutOfSubset('torch.load without a preceding torch.save')
    return _deepcopy_saved(obj)


def _deepcopy_saved(o):
    if isinstance(o, STensor):
        c = T.clone(o)
        c.ghost['loaded_from'] = o
        c.deps = frozenset()
        return c
    if isinstance(o, list):
        return [_deepcopy_saved(x) for x in o]
    if isinstance(o, tuple):
        return tuple(_deepcopy_saved(x) for x in o)
    if isinstance(o, dict):
        return {k: _deepcopy_saved(v) for k, v in o.items()}
    return o


@ext('warnings.warn')
def _warn(ex, a, k):
    return None


@ext('numpy.prod')
def _np_prod(ex, a, k):
    v = a[0]
    if isinstance(v, STensor):
        raise OutOfSubset('np.prod of an array')
    items = list(iterate(ex, v))
    nested = [isinstance(x, (tuple, list, I.SSize)) for x in items]
    if any(nested):
        # np.prod of a list of equally long tuples ([(m1, n1), (m2, n2), ...]): product over the whole 2-d array
        if not all(nested) or len({len(x) for x in items}) != 1:
            raise PyRaise('ValueError', 'setting an array element with a sequence. The requested array has an inhomogeneous shape', origin='numpy')
        items = [y for x in items for y in x]
        if any(isinstance(y, (tuple, list)) for y in items):
            raise OutOfSubset('np.prod of a doubly nested sequence')
    r = 1
    for x in items:
        r = binop(ex, 'Mult', r, x)
    if is_sym(r):
        return SymScalar(r, 'int', 'np.int64')
    return NPInt(r) if isinstance(r, int) and not isinstance(r, bool) else r


@ext('numpy.sqrt')
def _np_sqrt(ex, a, k):
    v = a[0]
    if isinstance(v, STensor):
        # numpy ufunc on a torch tensor returns a tensor of the same shape (value-abstract here)
        out = STensor(list(v.axes), v.dtype if v.dtype in T.FLOATS + T.COMPLEX else 'float64', None, lib=v.lib)
        return T.derive(out, v)
    if isinstance(v, (int, float)) and v == 0:
        return SymScalar(z3.RealVal(0), 'float', 'np.float64')
    r = sym_sqrt(ex, v)
    if isinstance(r, float):
        return SymScalar(to_real(r), 'float', 'np.float64')
    return r


@ext('numpy.arange')
def _np_arange(ex, a, k):
    n = int_expr(a[0])
    if is_sym(n):
        raise OutOfSubset('np.arange(symbolic)')
    return NPInts(list(range(n)), (n,))


class NPInts(object):
    """a small concrete numpy integer array"""

    def __init__(self, data, shape):
        self.data = list(data)
        self.shape = tuple(shape)


def _np_method(ex, obj, name, args, kwargs):
    import itertools
    if name == 'reshape':
        shape = tuple(args[0]) if len(args) == 1 and isinstance(args[0], (list, tuple)) else tuple(args)
        n = 1
        for s in shape:
            n *= s
        if n != len(obj.data):
            raise PyRaise('ValueError', 'cannot reshape array', origin='numpy')
        return NPInts(obj.data, shape)
    if name == 'transpose':
        if len(obj.shape) != 2:
            raise OutOfSubset('NPInts transpose nd')
        r, c = obj.shape
        return NPInts([obj.data[i * c + j] for j in range(c) for i in range(r)], (c, r))
    if name == 'flatten':
        return NPInts(obj.data, (len(obj.data),))
    raise OutOfSubset('numpy int array method %s' % name)


_orig_value_attr = value_attr


def value_attr(ex, obj, name):   # noqa: F811
    if isinstance(obj, NPInts):
        if name in ('reshape', 'transpose', 'flatten'):
            return I.ExtMethod(obj, name)
        if name == 'shape':
            return obj.shape
        raise OutOfSubset('numpy int array attribute %s' % name)
    return _orig_value_attr(ex, obj, name)


_orig_call_method = call_method


def call_method(ex, obj, name, args, kwargs):   # noqa: F811
    if isinstance(obj, NPInts):
        return _np_method(ex, obj, name, args, kwargs)
    return _orig_call_method(ex, obj, name, args, kwargs)


_orig_iterate = iterate


def iterate(ex, v, live=False):   # noqa: F811
    if isinstance(v, NPInts):
        if len(v.shape) != 1:
            raise OutOfSubset('iteration over nd int array')
        return list(v.data)
    return _orig_iterate(ex, v, live)


_orig_binop = binop


def binop(ex, opn, l, r):   # noqa: F811
    if isinstance(l, NPInts) or isinstance(r, NPInts):
        a, o, left = (l, r, True) if isinstance(l, NPInts) else (r, l, False)
        if isinstance(o, int) and opn in ('Add', 'Mult', 'Sub'):
            f = {'Add': lambda x: x + o, 'Mult': lambda x: x * o, 'Sub': (lambda x: x - o) if left else (lambda x: o - x)}[opn]
            return NPInts([f(x) for x in a.data], a.shape)
        raise OutOfSubset('numpy int array arithmetic')
    return _orig_binop(ex, opn, l, r)


@ext('math.log')
def _math_log(ex, a, k):
    """math.log(n, m) for positive ints: returned as an opaque positive real L with ghost (n, m); int(L) is the
    exact integer logarithm when n is a power of m (assumption 2 of DESIGN.md section 3)"""
    n, m = int_expr(a[0]), int_expr(a[1]) if len(a) > 1 else None
    if m is None:
        raise OutOfSubset('natural log')
    if not is_sym(n) and not is_sym(m):
        import math
        if n <= 0 or m <= 0:
            raise PyRaise('ValueError', 'math domain error')
        if m == 1:
            raise PyRaise('ZeroDivisionError', 'float division by zero')
        return math.log(n, m)
    raise OutOfSubset('math.log of symbolic value')


@ext('torch.nn.Parameter')
def _parameter(ex, a, k):
    t = a[0]
    if not isinstance(t, STensor):
        raise PyRaise('TypeError', 'Parameter data must be a tensor', origin='torch')
    p = T.detach(t)
    p.requires_grad = k.get('requires_grad', True)
    p.ghost['is_parameter'] = True
    p.ghost['param_data'] = t
    return p


@ext('torch.nn.ParameterList')
def _parameter_list(ex, a, k):
    items = iterate(ex, a[0]) if a else []
    for x in items:
        if not (isinstance(x, STensor)):
            raise PyRaise('TypeError', 'ParameterList items must be tensors', origin='torch')
    return I.SParamList(items)


@ext('torch.jit.export')
def _jit_export(ex, a, k):
    return a[0]


# ------------------------------------------------------------------------------------------------
# factorizations: opaque values with ghost (gauge-domain) attributes
# ------------------------------------------------------------------------------------------------

def _min_size(ex, m, n):
    if not is_sym(m) and not is_sym(n):
        return min(m, n)
    a, b = to_int(m), to_int(n)
    if ex.pc.implied(a <= b):
        return sz(a)
    if ex.pc.implied(b <= a):
        return sz(b)
    return sz(z3.If(a <= b, a, b))


@ext('torch.linalg.qr')
def _qr(ex, a, k):
    """reduced QR (assumed contract): Q (m x k) has orthonormal columns, R (k x n), k = min(m, n), Q R = A.
    No sign / phase convention is assumed."""
    A = a[0]
    if not isinstance(A, STensor) or A.ndim != 2:
        raise PyRaise('RuntimeError', 'linalg.qr: expected a matrix', origin='torch')
    if A.dtype not in T.FLOATS + T.COMPLEX:
        raise PyRaise('RuntimeError', 'linalg.qr: expected a floating point or complex tensor', origin='torch')
    if k.get('mode', 'reduced') != 'reduced' or len(a) > 1:
        raise OutOfSubset('qr mode')
    m, n = A.shape
    kk = _min_size(ex, m, n)
    Q = T.opaque_with_axes([A.axes[0], T.Axis(kk)], A.dtype, 'Q')
    R = T.opaque_with_axes([T.Axis(kk), A.axes[1]], A.dtype, 'R')
    qrec = {'A': A, 'Q': Q, 'R': R, 'k': kk, 'id': Q.tid}
    Q.ghost.update({'orth_cols': True, 'qr_of': A, 'qr': qrec, 'qrole': 'Q'})
    R.ghost.update({'qr_of': A, 'qr': qrec, 'qrole': 'R'})
    if 'fro2' in A.ghost:
        R.ghost['fro2'] = A.ghost['fro2']
    ex.events.append(('qr', A, Q, R))
    T.derive(Q, A)
    T.derive(R, A)
    # provenance: each factor is a value of its own (dropping Q -- e.g. a 1x1 unit phase -- must be visible to consumption checks)
    Q.prov = Q.prov | frozenset(['Q#%d' % Q.tid])
    R.prov = R.prov | frozenset(['R#%d' % Q.tid])
    return (Q, R)


@ext('torch.linalg.svd')
def _svd(ex, a, k):
    """reduced SVD (assumed contract): U (m x k) orthonormal columns, S (k) non-negative and sorted decreasingly,
    Vh (k x n) orthonormal rows, U diag(S) Vh = A, k = min(m, n)"""
    A = a[0]
    if not isinstance(A, STensor) or A.ndim != 2:
        raise PyRaise('RuntimeError', 'linalg.svd: expected a matrix', origin='torch')
    if A.dtype not in T.FLOATS + T.COMPLEX:
        raise PyRaise('RuntimeError', 'linalg.svd: expected a floating point or complex tensor', origin='torch')
    fm = k.get('full_matrices', a[1] if len(a) > 1 else True)
    if fm:
        raise OutOfSubset('svd with full_matrices=True')
    m, n = A.shape
    kk = _min_size(ex, m, n)
    U = T.opaque_with_axes([A.axes[0], T.Axis(kk)], A.dtype, 'U')
    sdt = A.dtype if A.dtype in T.FLOATS else ('float64' if A.dtype == 'complex128' else 'float32')
    S = T.opaque_tensor([kk], sdt, 'S')
    V = T.opaque_with_axes([T.Axis(kk), A.axes[1]], A.dtype, 'Vh')
    U.ghost.update({'orth_cols': True, 'svd_of': A, 'role': 'U'})
    V.ghost.update({'orth_rows': True, 'svd_of': A, 'role': 'Vh'})
    S.ghost.update({'svals': True, 'svd_of': A, 'role': 'S'})
    from . import gauge
    rec = gauge.new_svd_record(ex, A, U, S, V, kk)
    for t in (U, S, V):
        t.ghost['svd'] = rec
    S.ghost['fro2'] = rec['fro2']
    ex.events.append(('svd', rec))
    for t in (U, S, V):
        T.derive(t, A)
    U.prov = U.prov | frozenset(['U#%d' % S.tid])
    S.prov = S.prov | frozenset(['S#%d' % S.tid])
    V.prov = V.prov | frozenset(['V#%d' % S.tid])
    return (U, S, V)


# ------------------------------------------------------------------------------------------------
# symbolic-length numpy vectors (nparr.py)
# ------------------------------------------------------------------------------------------------
from . import nparr as NP   # noqa: E402

_va2 = value_attr


def value_attr(ex, obj, name):   # noqa: F811
    if isinstance(obj, NP.NPArr):
        if name == 'size':
            return obj.n
        if name == 'shape':
            return (obj.n,)
        if name == 'dtype':
            return I.DType(getattr(obj, 'dtype', 'float64'))
        raise OutOfSubset('numpy vector attribute %s' % name)
    return _va2(ex, obj, name)


_sub2 = subscript


def subscript(ex, obj, idx):   # noqa: F811
    if isinstance(obj, NP.NPArr):
        return NP.getitem(ex, obj, idx)
    return _sub2(ex, obj, idx)


_bin2 = binop


def binop(ex, opn, l, r):   # noqa: F811
    if isinstance(l, NP.NPArr):
        if opn == 'Pow' and isinstance(r, int) and r == 2:
            return NP.square(l)
        raise OutOfSubset('numpy vector arithmetic %s' % opn)
    if isinstance(r, NP.NPArr):
        raise OutOfSubset('numpy vector arithmetic %s' % opn)
    return _bin2(ex, opn, l, r)


_cmp2 = compare


def compare(ex, opn, l, r):   # noqa: F811
    if isinstance(l, NP.NPArr) and opn in ('Lt', 'LtE', 'Gt', 'GtE') and is_number(r):
        return NP.compare(l, opn, real_expr(r))
    if isinstance(l, NP.NPArr) or isinstance(r, NP.NPArr):
        raise OutOfSubset('numpy vector comparison')
    return _cmp2(ex, opn, l, r)


@ext('numpy.linalg.norm')
def _np_norm(ex, a, k):
    v = a[0]
    if isinstance(v, NP.NPArr):
        return NP.norm_is_zero_facts(ex, v)
    if isinstance(v, STensor):
        t = T.fro_norm(v)
        return SymScalar(_scalar_of(t), 'float', 'np.float64')
    raise OutOfSubset('np.linalg.norm of %s' % type(v).__name__)


@ext('numpy.abs')
def _np_abs(ex, a, k):
    v = a[0]
    if isinstance(v, NP.NPArr):
        return NP.np_abs(v)
    return call_builtin(ex, BI('abs'), a, k)


@ext('numpy.cumsum')
def _np_cumsum(ex, a, k):
    v = a[0]
    if isinstance(v, NP.NPArr):
        return NP.cumsum(ex, v)
    raise OutOfSubset('np.cumsum of %s' % type(v).__name__)


@ext('numpy.argmax')
def _np_argmax(ex, a, k):
    v = a[0]
    if isinstance(v, NP.NPArr):
        return NP.argmax_bool(ex, v)
    raise OutOfSubset('np.argmax of %s' % type(v).__name__)


@ext('torch.dot')
def _dot(ex, a, k):
    """torch.dot: sum_i a_i b_i  (no conjugation), 1-D operands of equal length"""
    x, y = a[0], a[1]
    if not (isinstance(x, STensor) and isinstance(y, STensor)) or x.ndim != 1 or y.ndim != 1:
        raise PyRaise('RuntimeError', '1D tensors expected', origin='torch')
    return T.matmul(x, y)


@ext('torch.any')
def _any(ex, a, k):
    t = a[0]
    if not isinstance(t, STensor) or len(a) > 1 or k:
        raise OutOfSubset('torch.any with dim')
    out = STensor([], 'bool', None)
    b = fresh_bool('any')
    out.ghost['bool'] = b
    if t._val is not None and all(len(ax.factors) == 1 for ax in t.axes):
        # not any(t)  ==>  every entry is zero
        js = [z3.Int('j!any%d' % i) for i in range(t.ndim)]
        v = t.at(js)
        if v.is_simple() and js:
            rng = z3.And(*[z3.And(j >= 0, j < to_int(ax.size)) for j, ax in zip(js, t.axes)])
            ex.assume(z3.Implies(z3.Not(b), z3.ForAll(js, z3.Implies(rng, v.simple_expr() == 0))))
    return T.derive(out, t, differentiable=False)


_ts2 = truth_sym


def truth_sym(ex, v):   # noqa: F811
    if isinstance(v, STensor) and 'bool' in v.ghost:
        return v.ghost['bool']
    return _ts2(ex, v)


@ext('numpy.isclose')
def _np_isclose(ex, a, k):
    """numpy.isclose(a, b) with the default tolerances: |a - b| <= 1e-8 + 1e-5 |b|"""
    if k.get('rtol') is not None or k.get('atol') is not None or len(a) > 2:
        raise OutOfSubset('isclose with explicit tolerances')
    x, y = a[0], a[1]
    if isinstance(x, (STensor, NP.NPArr)) or isinstance(y, (STensor, NP.NPArr)):
        raise OutOfSubset('isclose of arrays')
    xe, ye = real_expr(x), real_expr(y)
    d = xe - ye
    ad = z3.If(d < 0, -d, d)
    ay = z3.If(ye < 0, -ye, ye)
    return z3.simplify(ad <= z3.RealVal('1e-8') + z3.RealVal('1e-5') * ay)


class NPFloats(list):
    """a small concrete-length numpy float vector (np.zeros(d), np.ones(d-1)): element reads / writes only"""
    pass


def _np_filled(value):
    def f(ex, a, k):
        n = a[0]
        if isinstance(n, (list, tuple)):
            if len(n) != 1:
                raise OutOfSubset('np.zeros/ones of a matrix')
            n = n[0]
        n = int_expr(n)
        if is_sym(n) or not isinstance(n, int):
            raise OutOfSubset('np.zeros/ones of symbolic length')
        return NPFloats([float(value)] * n)
    return f


EXT['numpy.zeros'] = _np_filled(0.0)
EXT['numpy.ones'] = _np_filled(1.0)


def _opaque_real(ex, positive=False):
    v = fresh_real('npval')
    if positive:
        ex.assume(v > 0)
    return SymScalar(v, 'float', 'np.float64')


@ext('numpy.log')
def _np_log(ex, a, k):
    v = a[0]
    if isinstance(v, NPFloats):
        return NPFloats([_opaque_real(ex) for _ in v])
    return _opaque_real(ex)


@ext('numpy.exp')
def _np_exp(ex, a, k):
    v = a[0]
    if isinstance(v, NPFloats):
        return NPFloats([_opaque_real(ex, True) for _ in v])
    return _opaque_real(ex, True)


@ext('numpy.sum')
def _np_sum(ex, a, k):
    v = a[0]
    if isinstance(v, NPFloats):
        return _opaque_real(ex)
    raise OutOfSubset('np.sum of %s' % type(v).__name__)


@ext('datetime.datetime.now')
def _dt_now(ex, a, k):
    return I.Opaque('datetime')


_bin3 = binop


def binop(ex, opn, l, r):   # noqa: F811
    if isinstance(l, I.Opaque) and l.what == 'datetime' or isinstance(r, I.Opaque) and r.what == 'datetime':
        return I.Opaque('datetime')
    return _bin3(ex, opn, l, r)


@ext('torch.linalg.solve')
def _linalg_solve(ex, a, k):
    """torch.linalg.solve(B, rhs) (assumed contract): B is n x n, rhs is n x k or n; the result has the shape of rhs.
    torch raises for a singular B -- a value-dependent condition that is assumed not to occur (stated in the evidence)."""
    B, rhs = a[0], a[1]
    if not (isinstance(B, STensor) and isinstance(rhs, STensor)) or B.ndim != 2 or rhs.ndim not in (1, 2):
        raise PyRaise('RuntimeError', 'linalg.solve: expected a square matrix and a vector / matrix', origin='torch')
    if not T.known_eq(B.shape[0], B.shape[1]):
        require(to_int(B.shape[0]) == to_int(B.shape[1]), 'RuntimeError', 'linalg.solve: A must be batches of square matrices')
    if not T.known_eq(B.shape[1], rhs.shape[0]):
        require(to_int(B.shape[1]) == to_int(rhs.shape[0]), 'RuntimeError', 'linalg.solve: incompatible shapes')
    if B.dtype != rhs.dtype:
        raise PyRaise('RuntimeError', 'linalg.solve: expected both operands to have the same dtype', origin='torch')
    out = T.opaque_with_axes(list(rhs.axes), rhs.dtype, 'solve')
    out._val = None
    ex.notes.append(('assumed', 'torch.linalg.solve: the local matrix is assumed to be nonsingular'))
    return T.derive(out, B, rhs)


@ext('torch.linalg.inv')
def _linalg_inv(ex, a, k):
    """torch.linalg.inv (assumed contract): the last two dims must be square; result has the same shape; singular -> raises (assumed away)"""
    A = a[0]
    if not isinstance(A, STensor) or A.ndim < 2:
        raise PyRaise('RuntimeError', 'linalg.inv: expected a (batch of) square matrices', origin='torch')
    if not T.known_eq(A.shape[-1], A.shape[-2]):
        require(to_int(A.shape[-1]) == to_int(A.shape[-2]), 'RuntimeError', 'linalg.inv: A must be batches of square matrices')
    out = T.opaque_with_axes(list(A.axes), A.dtype, 'inv')
    out._val = None
    ex.notes.append(('assumed', 'torch.linalg.inv: the matrix is assumed to be nonsingular'))
    return T.derive(out, A)


@ext('math.sqrt')
def _math_sqrt(ex, a, k):
    v = a[0]
    if isinstance(v, STensor):
        raise PyRaise('TypeError', 'only one element tensors can be converted to Python scalars', origin='python')
    if isinstance(v, (int, float)) and not isinstance(v, bool) and v < 0:
        raise PyRaise('ValueError', 'math domain error')
    if isinstance(v, (int, float)) and v == 0:
        return 0.0
    r = sym_sqrt(ex, v)
    if isinstance(r, SymScalar):
        return SymScalar(r.expr, 'float', 'float')
    return r


# ------------------------------------------------------------------------------------------------
# index computations of the cross approximation (interpolate.py): LU pivots, topk, sort, unravel_index, outer, stacking
# ------------------------------------------------------------------------------------------------

@ext('torch.linalg.lu_factor')
def _lu_factor(ex, a, k):
    """assumed contract: LU (m x n, same dtype) and pivots (int32, length min(m, n), 1-based row numbers)"""
    A = a[0]
    if isinstance(A, STensor) and A.ndim > 2:
        raise OutOfSubset('batched lu_factor')
    if not isinstance(A, STensor) or A.ndim != 2:
        raise PyRaise('RuntimeError', 'linalg.lu_factor: expected a matrix', origin='torch')
    if A.dtype not in T.FLOATS + T.COMPLEX:
        raise PyRaise('NotImplementedError', '"lu_cpu" not implemented for this dtype', origin='torch')
    m, n = A.shape
    LU = T.opaque_with_axes(list(A.axes), A.dtype, 'LU')
    LU._val = None
    LU.ghost['lu_of'] = A
    piv = T.opaque_int_tensor([T.Axis(_min_size(ex, m, n))], 1, to_int(m) + 1, 'pivots', dtype='int32')
    piv.ghost['lu_of'] = A
    T.derive(LU, A)
    return (LU, piv)


@ext('torch.lu_unpack')
def _lu_unpack(ex, a, k):
    """assumed contract: P (m x m permutation matrix, dtype of LU), L (m x k), U (k x n), k = min(m, n)"""
    LU, piv = a[0], a[1]
    if not isinstance(LU, STensor) or LU.ndim != 2 or not isinstance(piv, STensor) or piv.dtype != 'int32':
        raise PyRaise('RuntimeError', 'lu_unpack: expected LU data and int32 pivots', origin='torch')
    m, n = LU.shape
    kk = _min_size(ex, m, n)
    if not T.known_eq(piv.shape[0], kk):
        require(to_int(piv.shape[0]) == to_int(kk), 'ValueError', 'lu_unpack: pivots have the wrong length')
    P = T.opaque_with_axes([LU.axes[0], T.Axis(m)], LU.dtype, 'P')
    P._val = None
    P.ghost['perm'] = True
    L = T.opaque_with_axes([LU.axes[0], T.Axis(kk)], LU.dtype, 'L')
    L._val = None
    U = T.opaque_with_axes([T.Axis(kk), LU.axes[1]], LU.dtype, 'Uf')
    U._val = None
    for t in (P, L, U):
        T.derive(t, LU)
    return (P, L, U)


def _topk(ex, t, args, kwargs):
    """assumed contract (1-D input, k <= length): values (k) and int64 positions in [0, length)"""
    kk = int_expr(args[0] if args else kwargs.get('k'))
    if t.dtype in T.COMPLEX:
        raise PyRaise('RuntimeError', 'topk does not support complex dtypes on CPU', origin='torch')
    if t.ndim != 1 or is_sym(kk):
        raise OutOfSubset('topk of a non 1-D tensor / symbolic k')
    n = t.shape[0]
    require(to_int(n) >= kk, 'RuntimeError', 'selected index k out of range')
    vals = T.opaque_tensor([kk], t.dtype, 'topk')
    vals._val = None
    T.derive(vals, t)
    pos = T.opaque_int_tensor([T.Axis(kk)], 0, n, 'topk_pos')
    return (vals, pos)


@ext('torch.sort')
def _sort(ex, a, k):
    """assumed contract (1-D): (sorted values, positions); the sorted values are the entries of the input in another order"""
    t = a[0]
    if not isinstance(t, STensor) or t.ndim != 1:
        raise OutOfSubset('sort of a non 1-D tensor')
    pos = T.opaque_int_tensor([t.axes[0]], 0, t.shape[0], 'sort_pos')
    vals = T.getitem(t, (pos,)) if t.ival is not None else T.opaque_with_axes(list(t.axes), t.dtype, 'sorted')
    if t.ival is None:
        vals._val = None
        T.derive(vals, t)
    return (vals, pos)


@ext('torch.outer')
def _outer(ex, a, k):
    x, y = a[0], a[1]
    if not (isinstance(x, STensor) and isinstance(y, STensor)):
        raise PyRaise('TypeError', 'outer(): arguments must be Tensors', origin='torch')
    if x.ndim != 1 or y.ndim != 1:
        raise PyRaise('RuntimeError', 'outer: expected 1D tensors', origin='torch')
    return T.contract([x, y], [['i'], ['j']], ['i', 'j'], contiguous=True)


@ext('numpy.unravel_index')
def _unravel_index(ex, a, k):
    """assumed contract of numpy.unravel_index(v, shape) (C order): every entry of v must lie in [0, prod(shape)) (ValueError
    otherwise); returns one integer array per dimension with v = sum_k r_k * stride_k and 0 <= r_k < shape[k]"""
    v, shape = a[0], a[1]
    if isinstance(v, float) or (isinstance(v, SymScalar) and v.kind != 'int') or (isinstance(v, STensor) and v.dtype not in T.INTS):
        raise PyRaise('TypeError', 'only int indices permitted', origin='numpy')
    if isinstance(shape, I.SSize):
        shape = list(shape.sizes) if hasattr(shape, 'sizes') else list(iterate(ex, shape))
    shape = [int_expr(x) for x in (iterate(ex, shape) if not isinstance(shape, (list, tuple)) else shape)]
    total = T.prod([to_int(x) for x in shape])
    nd = len(shape)

    def split(val):
        """fresh r_0..r_{nd-1} with val = ((r_0*s_1 + r_1)*s_2 + ...) and ranges"""
        rs = [fresh_int('ur') for _ in shape]
        acc = rs[0]
        for r, s_ in zip(rs[1:], shape[1:]):
            acc = acc * to_int(s_) + r
        facts = [acc == val] + [z3.And(r >= 0, r < to_int(s_)) for r, s_ in zip(rs, shape)]
        return rs, facts
    if isinstance(v, STensor) and v.ndim >= 1:
        if v.ival is None:
            raise OutOfSubset('unravel_index of an untracked integer tensor')
        pos = [tuple(fresh_int('j') for _ in ax.factors) for ax in v.axes]
        bounds = [z3.And(x >= 0, x < to_int(f.size)) for ax, tup in zip(v.axes, pos) for x, f in zip(tup, ax.factors)]
        e = v.ival(pos)
        cond = z3.And(e >= 0, e < total)
        T.require_for_all(cond, bounds, 'ValueError', 'unravel_index: index is out of bounds for array with size %s' % total)
        fs = [z3.Function('unravel!%d' % next(T._ids), *([z3.IntSort()] * v.ndim + [z3.IntSort()])) for _ in shape]
        outs = []
        for kdim in range(nd):
            def ival(idx, kdim=kdim):
                args = [to_int(T.flatten_ix(i, ax.factors)) if len(ax.factors) > 1 else to_int(i[0]) for i, ax in zip(idx, v.axes)]
                rs = [f(*args) for f in fs]
                acc = rs[0]
                for r, s_ in zip(rs[1:], shape[1:]):
                    acc = acc * to_int(s_) + r
                inb = [z3.And(to_int(x) >= 0, to_int(x) < to_int(fc.size)) for i, ax in zip(idx, v.axes) for x, fc in zip(i, ax.factors)]
                facts = z3.And(acc == v.ival(idx), *[z3.And(r >= 0, r < to_int(s_)) for r, s_ in zip(rs, shape)])
                ex.pc.add(z3.Implies(z3.And(*inb), facts))
                return rs[kdim]
            o = STensor(list(v.axes), 'int64', None, lib='numpy', ival=ival)
            o._val = (lambda idx, iv=ival: Term.of(z3.ToReal(iv(idx))))
            outs.append(T.derive(o, v, differentiable=False))
        return tuple(outs)
    # scalar
    if isinstance(v, STensor):
        if v.ival is None:
            raise OutOfSubset('unravel_index of an untracked integer tensor')
        e = v.ival([])
    else:
        e = int_expr(v)
    require(z3.And(to_int(e) >= 0, to_int(e) < total), 'ValueError', 'index is out of bounds for array with size %s' % total)
    rs, facts = split(to_int(e))
    for f in facts:
        ex.pc.add(f)
    return tuple(SymScalar(r, 'int', 'np.int64') for r in rs)


def _np_stack(axis, lib):
    def f(ex, a, k):
        seq = list(iterate(ex, a[0]))
        ts = []
        for x in seq:
            if not isinstance(x, STensor):
                raise OutOfSubset('stacking of non-arrays')
            if x.ndim == 0:
                x = T.reshape(x, [1])            # atleast_1d
            if x.ndim == 1:
                x = T.unsqueeze(x, 0) if axis == 0 else x      # vstack: atleast_2d
            ts.append(x)
        try:
            if axis == 1 and ts and ts[0].ndim == 1:
                out = T.cat(ts, 0)               # hstack concatenates along axis 0 when the first operand is 1-D
            else:
                out = T.cat(ts, axis)
        except PyRaise as e:
            if lib == 'numpy' and e.cls in ('RuntimeError', 'IndexError'):
                raise PyRaise('ValueError', e.msg, origin='numpy')
            raise
        out.lib = lib
        return out
    return f


EXT['numpy.vstack'] = _np_stack(0, 'numpy')
EXT['numpy.hstack'] = _np_stack(1, 'numpy')
EXT['torch.vstack'] = _np_stack(0, 'torch')
EXT['torch.hstack'] = _np_stack(1, 'torch')


class NPFinfo(object):
    """numpy.finfo / torch.finfo of a floating dtype (machine constants as exact rationals of the IEEE values)"""
    _E = {'float64': (2.220446049250313e-16, 2.2250738585072014e-308, 1.7976931348623157e+308),
          'float32': (1.1920928955078125e-07, 1.1754943508222875e-38, 3.4028234663852886e+38),
          'complex128': (2.220446049250313e-16, 2.2250738585072014e-308, 1.7976931348623157e+308),
          'complex64': (1.1920928955078125e-07, 1.1754943508222875e-38, 3.4028234663852886e+38)}

    def __init__(self, dtype):
        self.eps, self.tiny, self.max = self._E[dtype]
        self.resolution = 1e-15 if dtype in ('float64', 'complex128') else 1e-6
        self.min = -self.max
        self.dtype = dtype


@ext('numpy.finfo', 'torch.finfo')
def _finfo(ex, a, k):
    d = a[0] if a else k.get('dtype', k.get('type'))
    if d is None:
        d = T.DEFAULT_FLOAT
    if isinstance(d, STensor):
        d = d.dtype
    if isinstance(d, I.Ext) and d.name.startswith('numpy.'):
        d = d.name.split('.', 1)[1]
    d = str(d)
    if d not in NPFinfo._E:
        if d == 'float16':
            raise OutOfSubset('finfo(float16)')
        if isinstance(a[0] if a else None, I.DType):
            raise PyRaise('TypeError', 'torch.finfo() requires a floating point input type', origin='torch')
        raise PyRaise('ValueError', 'data type %r not inexact' % d, origin='numpy')
    return NPFinfo(d)


_va_fin = value_attr


def value_attr(ex, obj, name):   # noqa: F811
    if isinstance(obj, NPFinfo):
        if name in ('eps', 'tiny', 'max', 'min', 'smallest_normal', 'resolution'):
            return getattr(obj, 'tiny' if name == 'smallest_normal' else name)
        raise PyRaise('AttributeError', "'finfo' object has no attribute %r" % name)
    return _va_fin(ex, obj, name)


@ext('torch.promote_types')
def _promote_types(ex, a, k):
    return I.DType(T.promote(str(a[0]), str(a[1])))


@ext('torch.zeros_like', 'torch.ones_like')
def _zeros_like(ex, a, k):
    t = a[0]
    if not isinstance(t, STensor):
        raise PyRaise('TypeError', 'zeros_like(): argument must be a Tensor', origin='torch')
    dtype = _dtype_kw(k) or t.dtype
    out = T.const_tensor(t.shape, 0, dtype)
    out.axes = list(t.axes)
    return out
