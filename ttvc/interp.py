"""
Symbolic interpreter for the Python subset torchTT is written in.  It executes the FunctionDef nodes
parsed from the repository's working tree (nothing is translated by hand) over symbolic integers,
symbolic tensors (tensors.py) and a real Python heap (lists / objects keep their identity, so aliasing is
exact).  Branches on symbolic conditions fork the execution (re-execution with a decision prefix).
"""
import ast
import os
import sys
import hashlib
import z3
from . import tensors as T
from .tensors import STensor, SymScalar, PyRaise, is_sym, sz, to_int
from .terms import OutOfSubset, Term, to_real, fresh_int, fresh_real, fresh_bool
from .prover import PC

REPO = os.environ.get('TTVC_REPO', '/repo')
MAXSIZE = 2 ** 63 - 1
_AST_CACHE = {}
SOURCE_HASHES = {}


class HostFn(object):
    """a callable supplied by the contract harness (e.g. the user's callback of dmrg_cross): fn(ex, args, kwargs)"""
    def __init__(self, fn, name='callback'):
        self.fn, self.name = fn, name


class PathLimit(Exception):
    pass


class PathEnd(Exception):
    """the path ends here by construction (back edge of a loop summarised by its invariant): nothing after it is executed"""
    pass


class SSize(tuple):
    """torch.Size"""
    pass


class DType(str):
    pass


class Device(object):
    def __repr__(self):
        return 'cpu'


CPU = Device()


class Ext(object):
    """an object of an external library, identified by its dotted name"""

    def __init__(self, name):
        self.name = name

    def __repr__(self):
        return 'Ext(%s)' % self.name


class Opaque(object):
    """an opaque python value (strings built at run time etc.)"""

    def __init__(self, what='str'):
        self.what = what


class SFunc(object):
    def __init__(self, node, module, cls=None):
        self.node = node
        self.module = module
        self.cls = cls
        self.name = node.name if hasattr(node, 'name') else '<lambda>'
        self.defaults = None
        self.closure = None

    @property
    def qualname(self):
        return '%s.%s%s' % (self.module.name, (self.cls.name + '.') if self.cls else '', self.name)


class SProperty(object):
    def __init__(self, fget):
        self.fget = fget


class SClass(object):
    def __init__(self, name, module, bases):
        self.name = name
        self.module = module
        self.bases = bases
        self.attrs = {}

    def lookup(self, name):
        if name in self.attrs:
            return self.attrs[name]
        for b in self.bases:
            if isinstance(b, SClass):
                r = b.lookup(name)
                if r is not None:
                    return r
        return None

    def is_subclass_of(self, other):
        if self is other:
            return True
        return any(isinstance(b, SClass) and b.is_subclass_of(other) for b in self.bases)

    def is_exception(self):
        for b in self.bases:
            if isinstance(b, Ext) and b.name in ('builtins.Exception', 'builtins.BaseException'):
                return True
            if isinstance(b, SClass) and b.is_exception():
                return True
        return False


class SObj(object):
    def __init__(self, cls):
        self.cls = cls
        self.attrs = {}
        self.oid = next(T._ids)

    def __repr__(self):
        return '<%s object #%d>' % (self.cls.name, self.oid)


class BoundMethod(object):
    def __init__(self, func, self_obj):
        self.func = func
        self.self_obj = self_obj


class ExtMethod(object):
    """method of a built-in / external value (list.append, tensor.clone ...)"""

    def __init__(self, obj, name):
        self.obj = obj
        self.name = name


class SParamList(list):
    pass


class Module(object):
    def __init__(self, name):
        self.name = name
        self.env = {}
        self.loaded = False


class _Return(Exception):
    def __init__(self, value):
        self.value = value


class _Break(Exception):
    pass


class _Continue(Exception):
    pass


class Frame(object):
    def __init__(self, func, locals_, local_names):
        self.func = func
        self.locals = locals_
        self.local_names = local_names


def parse_module_file(path):
    st = os.stat(path)
    key = (path, st.st_mtime_ns, st.st_size)
    if key not in _AST_CACHE:
        src = open(path, 'rb').read()
        SOURCE_HASHES[path] = hashlib.sha256(src).hexdigest()
        _AST_CACHE[key] = ast.parse(src, path)
    return _AST_CACHE[key]


def assigned_names(fnode):
    """names that are local to the function (python scoping)"""
    names = set()
    args = fnode.args
    for a in args.posonlyargs + args.args + args.kwonlyargs:
        names.add(a.arg)
    if args.vararg:
        names.add(args.vararg.arg)
    if args.kwarg:
        names.add(args.kwarg.arg)

    def targets(t):
        if isinstance(t, ast.Name):
            names.add(t.id)
        elif isinstance(t, (ast.Tuple, ast.List)):
            for e in t.elts:
                targets(e)
        elif isinstance(t, ast.Starred):
            targets(t.value)

    class V(ast.NodeVisitor):
        def visit_FunctionDef(self, n):
            if n is not fnode:
                names.add(n.name)
                return
            self.generic_visit(n)

        def visit_Lambda(self, n):
            return

        def visit_ListComp(self, n):
            # comprehension variables are not function locals, but walrus is not used here
            return

        visit_GeneratorExp = visit_SetComp = visit_DictComp = visit_ListComp

        def visit_Assign(self, n):
            for t in n.targets:
                targets(t)
            self.generic_visit(n)

        def visit_AugAssign(self, n):
            targets(n.target)
            self.generic_visit(n)

        def visit_AnnAssign(self, n):
            targets(n.target)
            self.generic_visit(n)

        def visit_For(self, n):
            targets(n.target)
            self.generic_visit(n)

        def visit_With(self, n):
            for it in n.items:
                if it.optional_vars is not None:
                    targets(it.optional_vars)
            self.generic_visit(n)

        def visit_Import(self, n):
            for a in n.names:
                names.add((a.asname or a.name).split('.')[0])

        def visit_ImportFrom(self, n):
            for a in n.names:
                names.add(a.asname or a.name)

        def visit_ExceptHandler(self, n):
            if n.name:
                names.add(n.name)
            self.generic_visit(n)
    V().visit(fnode)
    return names


class Exec(object):
    """one symbolic execution path"""

    def __init__(self, prefix=(), repo=None, max_decisions=400, timeout_ms=None):
        self.repo = repo or REPO
        self.pc = PC(timeout_ms)
        self.prefix = list(prefix)
        self.trace = []
        self.new_prefixes = []
        self.max_decisions = max_decisions
        self.modules = {}
        self.writes = []          # (kind, target, detail)
        self.notes = []           # unproved side facts: (kind, text)
        self.frames = []
        self.arg_storages = {}    # storage id -> description
        self.arg_lists = {}       # id(list) -> description
        self.arg_objs = {}        # id(SObj) -> description
        self.keepalive = []
        self.events = []          # callee events (for contracts keyed by event)
        self.loop_contracts = {}  # (function qualname, ordinal of the loop in the function) -> invariant(ex, frame) -> {name: AbstractValue}
        self.call_hooks = {}      # qualname -> python callable(ex, args, kwargs) replacing the body (modular use of a contract)
        self.loop_guard = 0
        self.ghost_facts = []
        self.grad_cuts = []       # places where a value derived from tracked leaves left the autograd graph
        self.tensors = {}         # tid -> tensor (for the autograd contract)
        self.optable = None
        from . import optable
        self.optable = optable
        T.EX = self

    # ---- forking
    def decide(self, cond):
        if isinstance(cond, bool):
            return cond
        cond = z3.simplify(cond)
        if z3.is_true(cond):
            return True
        if z3.is_false(cond):
            return False
        pos = len(self.trace)
        if pos < len(self.prefix):
            choice = self.prefix[pos]
            self.trace.append(choice)
            self.pc.add(cond if choice else z3.Not(cond))
            return choice
        if pos >= self.max_decisions:
            raise PathLimit('more than %d decisions on one path' % self.max_decisions)
        ft = self.pc.feasible(cond)
        ff = self.pc.feasible(z3.Not(cond))
        if ft and ff:
            self.new_prefixes.append(self.trace + [False])
            choice = True
        elif ft:
            choice = True
        elif ff:
            choice = False
        else:
            # the path itself is infeasible (can happen after an 'unknown'); treat as dead
            raise DeadPath()
        self.trace.append(choice)
        self.pc.add(cond if choice else z3.Not(cond))
        return choice

    def assume(self, cond):
        self.pc.add(cond)

    def assume_ghost(self, cond):
        """facts about ghost (gauge-domain) reals: kept out of the path condition that decides shapes and branches,
        used only by ghost obligations (keeps the integer queries linear and fast)"""
        self.ghost_facts.append(cond)

    def note_unproved(self, kind, text):
        self.notes.append((kind, text))

    # ---- frames (writes)
    def register_arg(self, value, path, seen=None):
        """mark everything reachable from an argument"""
        seen = seen if seen is not None else set()
        if id(value) in seen:
            return
        seen.add(id(value))
        if isinstance(value, STensor):
            if value.storage.owner == 'fresh':
                value.storage.owner = 'arg:' + path
            self.arg_storages[value.storage.id] = path
        elif isinstance(value, (list, tuple)):
            if isinstance(value, list):
                self.arg_lists[id(value)] = path
                self.keepalive.append(value)
            for k, v in enumerate(value):
                self.register_arg(v, '%s[%d]' % (path, k), seen)
        elif isinstance(value, SObj):
            self.arg_objs[id(value)] = path
            self.keepalive.append(value)
            for k, v in value.attrs.items():
                self.register_arg(v, '%s.%s' % (path, k), seen)

    def record_write(self, tensor, how):
        sid = tensor.storage.id
        if sid in self.arg_storages:
            self.writes.append(('storage', self.arg_storages[sid], how))
        # other tensors that share the storage now have a stale value
        for m in tensor.storage.members:
            if m is not tensor:
                m.stale = True

    def record_list_write(self, lst, how):
        if id(lst) in self.arg_lists:
            self.writes.append(('list', self.arg_lists[id(lst)], how))

    def record_attr_write(self, obj, name):
        if id(obj) in self.arg_objs:
            self.writes.append(('attr', '%s.%s' % (self.arg_objs[id(obj)], name), 'setattr'))

    def cur_where(self):
        n = getattr(self, 'cur_node', None)
        m = self.cur_module_stack[-1].name if getattr(self, 'cur_module_stack', None) else None
        fr = self.frames[-1].func.qualname if self.frames and self.frames[-1].func is not None else '?'
        return '%s:%s' % (fr, getattr(n, 'lineno', '?'))

    def tracked_leaves(self):
        out = []
        seen = set()
        for st in list(self._all_tensors()):
            if st.requires_grad and st.is_leaf and st.tid not in seen:
                seen.add(st.tid)
                out.append(st)
        return out

    def _all_tensors(self):
        return list(self.tensors.values())

    # ---- modules
    def module(self, name):
        if name in self.modules:
            m = self.modules[name]
        else:
            m = Module(name)
            self.modules[name] = m
        if not m.loaded:
            m.loaded = True
            self._load(m)
        return m

    def _module_path(self, name):
        parts = name.split('.')
        base = os.path.join(self.repo, *parts)
        if os.path.isdir(base):
            return os.path.join(base, '__init__.py')
        return base + '.py'

    def _load(self, m):
        path = self._module_path(m.name)
        if not os.path.exists(path):
            raise PyRaise('ModuleNotFoundError', m.name)
        tree = parse_module_file(path)
        m.path = path
        fr = Frame(None, m.env, None)
        self.frames.append(fr)
        self.cur_module_stack = getattr(self, 'cur_module_stack', [])
        self.cur_module_stack.append(m)
        try:
            for st in tree.body:
                self.exec_stmt(st, fr, m, None)
        finally:
            self.cur_module_stack.pop()
            self.frames.pop()

    def import_name(self, name):
        """returns the value bound for a dotted module name"""
        top = name.split('.')[0]
        if top == 'torchtt':
            return self.module(name)
        return Ext({'torch': 'torch', 'numpy': 'numpy'}.get(name, name))

    # ---- calling
    def call(self, f, args, kwargs=None):
        kwargs = kwargs or {}
        if isinstance(f, SFunc):
            return self.call_sfunc(f, list(args), kwargs)
        if isinstance(f, BoundMethod):
            return self.call_sfunc(f.func, [f.self_obj] + list(args), kwargs)
        if isinstance(f, SClass):
            return self.instantiate(f, list(args), kwargs)
        if isinstance(f, Ext):
            return self.optable.call_ext(self, f.name, list(args), kwargs)
        if isinstance(f, ExtMethod):
            return self.optable.call_method(self, f.obj, f.name, list(args), kwargs)
        if isinstance(f, self.optable.BI):
            return self.optable.call_builtin(self, f, list(args), kwargs)
        if isinstance(f, HostFn):
            return f.fn(self, list(args), kwargs)
        raise PyRaise('TypeError', '%r object is not callable' % type(f).__name__)

    def instantiate(self, cls, args, kwargs):
        obj = SObj(cls)
        init = cls.lookup('__init__')
        if isinstance(init, SFunc):
            self.call_sfunc(init, [obj] + args, kwargs)
        elif cls.is_exception():
            obj.attrs['args'] = tuple(args)
        return obj

    def call_sfunc(self, f, args, kwargs):
        hook = self.call_hooks.get(f.qualname)
        if hook is not None:
            r = hook(self, f, args, kwargs)
            if r is not NotImplemented:
                return r
        node = f.node
        a = node.args
        params = [p.arg for p in a.posonlyargs + a.args]
        if f.defaults is None:
            mod = f.module
            fr0 = Frame(None, mod.env, None)
            f.defaults = [self.eval(d, fr0, mod, f.cls) for d in a.defaults]
            f.kwdefaults = {k.arg: (self.eval(d, fr0, mod, f.cls) if d is not None else None) for k, d in zip(a.kwonlyargs, a.kw_defaults)}
        loc = {}
        if len(args) > len(params):
            if a.vararg:
                loc[a.vararg.arg] = tuple(args[len(params):])
                args = args[:len(params)]
            else:
                raise PyRaise('TypeError', '%s() takes %d positional arguments but %d were given' % (f.name, len(params), len(args)))
        elif a.vararg:
            loc[a.vararg.arg] = ()
        for p, v in zip(params, args):
            loc[p] = v
        for k, v in kwargs.items():
            if k in loc:
                raise PyRaise('TypeError', '%s() got multiple values for argument %r' % (f.name, k))
            if k in params or k in [x.arg for x in a.kwonlyargs]:
                loc[k] = v
            elif a.kwarg:
                loc.setdefault(a.kwarg.arg, {})[k] = v
            else:
                raise PyRaise('TypeError', '%s() got an unexpected keyword argument %r' % (f.name, k))
        nd = len(f.defaults)
        for i, p in enumerate(params):
            if p not in loc:
                j = i - (len(params) - nd)
                if j >= 0:
                    loc[p] = f.defaults[j]
                else:
                    raise PyRaise('TypeError', '%s() missing required positional argument: %r' % (f.name, p))
        for k in a.kwonlyargs:
            if k.arg not in loc:
                loc[k.arg] = f.kwdefaults.get(k.arg)
        if f.closure:
            for k, v in f.closure.items():
                loc.setdefault(k, v)
        if isinstance(node, ast.Lambda):
            fr = Frame(f, loc, None)
            self.frames.append(fr)
            try:
                return self.eval(node.body, fr, f.module, f.cls)
            finally:
                self.frames.pop()
        if not hasattr(node, '_local_names'):
            node._local_names = assigned_names(node)
        fr = Frame(f, loc, node._local_names)
        if len(self.frames) > 60:
            raise OutOfSubset('recursion too deep')
        self.frames.append(fr)
        try:
            for st in node.body:
                self.exec_stmt(st, fr, f.module, f.cls)
        except _Return as r:
            return r.value
        finally:
            self.frames.pop()
        return None

    # ---- statements
    def exec_block(self, body, fr, mod, cls):
        for st in body:
            self.exec_stmt(st, fr, mod, cls)

    def exec_stmt(self, st, fr, mod, cls):
        m = getattr(self, 'st_' + type(st).__name__, None)
        if m is None:
            raise OutOfSubset('statement %s' % type(st).__name__)
        self.cur_node = st
        try:
            return m(st, fr, mod, cls)
        except (PyRaise, OutOfSubset) as e:
            if not hasattr(e, 'where'):
                e.where = '%s:%d' % (getattr(mod, 'name', '?'), getattr(st, 'lineno', 0))
            raise

    def st_Expr(self, st, fr, mod, cls):
        if isinstance(st.value, ast.Constant):
            return
        self.eval(st.value, fr, mod, cls)

    def st_Pass(self, st, fr, mod, cls):
        pass

    def st_Import(self, st, fr, mod, cls):
        for a in st.names:
            if a.asname:
                fr.locals[a.asname] = self.import_name(a.name)
            else:
                top = a.name.split('.')[0]
                if top == 'torchtt':
                    self.module(a.name)         # make sure the submodule is loaded
                    fr.locals['torchtt'] = PackageNS(self, 'torchtt')
                else:
                    if top == 'torchttcpp':
                        raise PyRaise('ModuleNotFoundError', 'No module named torchttcpp')
                    fr.locals[top] = Ext({'torch': 'torch', 'numpy': 'numpy'}.get(top, top))

    def st_ImportFrom(self, st, fr, mod, cls):
        name = st.module or ''
        if st.level:
            pkg = mod.name.rsplit('.', st.level)[0] if '.' in mod.name else mod.name
            if mod.name == 'torchtt':
                pkg = 'torchtt'
            name = pkg + ('.' + name if name else '')
        top = name.split('.')[0]
        if top == 'torchtt':
            if os.path.exists(self._module_path(name)):
                src = self.module(name)
                for a in st.names:
                    if a.name == '*':
                        for k, v in src.env.items():
                            if not k.startswith('_'):
                                fr.locals[k] = v
                    elif a.name in src.env:
                        fr.locals[a.asname or a.name] = src.env[a.name]
                    else:
                        sub = name + '.' + a.name
                        if os.path.exists(self._module_path(sub)):
                            fr.locals[a.asname or a.name] = self.module(sub)
                        elif src.loaded and not getattr(src, 'done', True):
                            raise PyRaise('ImportError', 'cannot import name %s from %s' % (a.name, name))
                        else:
                            # circular import during package initialisation: bind lazily
                            fr.locals[a.asname or a.name] = LazyRef(self, name, a.name)
            else:
                raise PyRaise('ModuleNotFoundError', name)
        else:
            for a in st.names:
                fr.locals[a.asname or a.name] = Ext(name + '.' + a.name)

    def st_FunctionDef(self, st, fr, mod, cls):
        f = SFunc(st, mod, cls if fr.func is None else None)
        if fr.func is not None:
            f.closure = fr.locals
        val = f
        for d in reversed(st.decorator_list):
            dv = self.eval(d, fr, mod, cls)
            if isinstance(dv, Ext) and dv.name == 'builtins.property':
                val = SProperty(f)
            elif isinstance(dv, Ext) and dv.name in ('torch.jit.export', 'builtins.staticmethod'):
                pass
            else:
                raise OutOfSubset('decorator %s' % ast.dump(d))
        fr.locals[st.name] = val

    def st_ClassDef(self, st, fr, mod, cls):
        bases = [self.eval(b, fr, mod, cls) for b in st.bases]
        c = SClass(st.name, mod, bases)
        cfr = Frame(None, c.attrs, None)
        for s in st.body:
            self.exec_stmt(s, cfr, mod, c)
        fr.locals[st.name] = c

    def st_Return(self, st, fr, mod, cls):
        raise _Return(self.eval(st.value, fr, mod, cls) if st.value is not None else None)

    def st_Break(self, st, fr, mod, cls):
        raise _Break()

    def st_Continue(self, st, fr, mod, cls):
        raise _Continue()

    def st_Assign(self, st, fr, mod, cls):
        v = self.eval(st.value, fr, mod, cls)
        for t in st.targets:
            self.assign(t, v, fr, mod, cls)

    def st_AnnAssign(self, st, fr, mod, cls):
        if st.value is not None:
            self.assign(st.target, self.eval(st.value, fr, mod, cls), fr, mod, cls)

    def st_AugAssign(self, st, fr, mod, cls):
        t = st.target
        opn = type(st.op).__name__
        if isinstance(t, ast.Name):
            cur = self.load_name(t.id, fr, mod)
            rhs = self.eval(st.value, fr, mod, cls)
            fr.locals[t.id] = self.aug(opn, cur, rhs)
        elif isinstance(t, ast.Subscript):
            obj = self.eval(t.value, fr, mod, cls)
            idx = self.eval_index(t.slice, fr, mod, cls)
            cur = self.subscript(obj, idx)
            rhs = self.eval(st.value, fr, mod, cls)
            new = self.aug(opn, cur, rhs)
            if new is not cur or not isinstance(cur, STensor):
                self.store_subscript(obj, idx, new)
            elif isinstance(obj, list):
                # python still performs the (no-op) list store
                pass
        elif isinstance(t, ast.Attribute):
            obj = self.eval(t.value, fr, mod, cls)
            name = self.mangle(t.attr, cls)
            cur = self.getattr(obj, name)
            rhs = self.eval(st.value, fr, mod, cls)
            self.setattr(obj, name, self.aug(opn, cur, rhs))
        else:
            raise OutOfSubset('augassign target')

    def aug(self, opn, cur, rhs):
        if isinstance(cur, STensor) and cur.lib == 'torch':
            op = {'Add': 'add', 'Sub': 'sub', 'Mult': 'mul', 'Div': 'div'}.get(opn)
            if op is None:
                raise OutOfSubset('in-place %s on tensor' % opn)
            if isinstance(rhs, SObj):
                raise OutOfSubset('tensor op= object')
            return T.inplace(op, cur, rhs)
        if isinstance(cur, list) and opn == 'Add':
            self.record_list_write(cur, 'iadd')
            cur.extend(list(rhs))
            return cur
        return self.binop(opn, cur, rhs)

    def assign(self, t, v, fr, mod, cls):
        if isinstance(t, ast.Name):
            fr.locals[t.id] = v
        elif isinstance(t, (ast.Tuple, ast.List)):
            vals = self.iterate(v)
            if any(isinstance(e, ast.Starred) for e in t.elts):
                raise OutOfSubset('starred assignment')
            if len(vals) != len(t.elts):
                raise PyRaise('ValueError', 'not enough / too many values to unpack')
            for e, x in zip(t.elts, vals):
                self.assign(e, x, fr, mod, cls)
        elif isinstance(t, ast.Subscript):
            obj = self.eval(t.value, fr, mod, cls)
            idx = self.eval_index(t.slice, fr, mod, cls)
            self.store_subscript(obj, idx, v)
        elif isinstance(t, ast.Attribute):
            obj = self.eval(t.value, fr, mod, cls)
            self.setattr(obj, self.mangle(t.attr, cls), v)
        else:
            raise OutOfSubset('assignment target %s' % type(t).__name__)

    def st_If(self, st, fr, mod, cls):
        if self.truth(self.eval(st.test, fr, mod, cls)):
            self.exec_block(st.body, fr, mod, cls)
        else:
            self.exec_block(st.orelse, fr, mod, cls)

    def _symbolic_range_loop(self, st, fr, mod, cls):
        """loop contract for `for v in range(a, b, step)` with symbolic bounds (enabled per scenario by ex.havoc_range_loops):
        the body is executed ONCE for an arbitrary admissible value of v (this checks that an arbitrary iteration raises nothing);
        afterwards every name assigned in the body is havocked: the loop variable becomes an arbitrary value in
        {value before the loop} U range, all other assigned names become undefined.  The body may only assign plain names."""
        call = st.iter
        if not (isinstance(call, ast.Call) and isinstance(call.func, ast.Name) and call.func.id == 'range' and isinstance(st.target, ast.Name)):
            raise OutOfSubset('symbolic loop that is not a range loop')
        args = [self.optable.int_expr(self.eval(a, fr, mod, cls)) for a in call.args]
        if len(args) == 1:
            lo, hi, step = 0, args[0], 1
        elif len(args) == 2:
            lo, hi, step = args[0], args[1], 1
        else:
            lo, hi, step = args
        if is_sym(step) or step not in (1, -1):
            raise OutOfSubset('symbolic range loop with a step other than +-1')
        for n in ast.walk(ast.Module(body=st.body, type_ignores=[])):
            if isinstance(n, (ast.Assign, ast.AugAssign)):
                tg = n.targets if isinstance(n, ast.Assign) else [n.target]
                for t in tg:
                    for e in (t.elts if isinstance(t, (ast.Tuple, ast.List)) else [t]):
                        if not isinstance(e, ast.Name):
                            raise OutOfSubset('symbolic range loop whose body assigns to a subscript / attribute')
        v = fresh_int('loopvar')
        in_range = z3.And(v >= to_int(lo), v < to_int(hi)) if step == 1 else z3.And(v <= to_int(lo), v > to_int(hi))
        name = st.target.id
        prev = fr.locals.get(name)
        assigned = set()
        for n in ast.walk(ast.Module(body=st.body, type_ignores=[])):
            if isinstance(n, ast.Name) and isinstance(n.ctx, ast.Store):
                assigned.add(n.id)
        if self.decide(z3.And(in_range, True)) if True else False:
            # an arbitrary iteration
            self.pc.add(in_range)
            fr.locals[name] = v
            try:
                self.exec_block(st.body, fr, mod, cls)
            except (_Break, _Continue):
                pass
            for a in assigned:
                fr.locals.pop(a, None)
            out = fresh_int('loopexit')
            conds = [z3.And(out >= to_int(lo), out < to_int(hi)) if step == 1 else z3.And(out <= to_int(lo), out > to_int(hi))]
            if prev is not None and (isinstance(prev, int) or is_sym(prev)):
                conds.append(out == to_int(prev))
            self.pc.add(z3.Or(*conds))
            fr.locals[name] = out
        else:
            # the range is empty on this path: the loop variable keeps its value
            if prev is not None:
                fr.locals[name] = prev
        self.notes.append(('loop_contract', '%s: symbolic range loop summarised (one arbitrary iteration checked, assigned names havocked)' % getattr(mod, 'name', '?')))

    # ---- loop contracts (inductive invariants stated in the sidecar contracts)
    def _loop_ordinal(self, st, fr):
        func = fr.func
        if func is None or getattr(func, 'node', None) is None:
            return None
        cache = getattr(func, '_loop_ordinals', None)
        if cache is None:
            cache = {}
            k = 0

            def walk(n):
                nonlocal k
                for ch in ast.iter_child_nodes(n):
                    if isinstance(ch, (ast.FunctionDef, ast.Lambda, ast.ClassDef)):
                        continue
                    if isinstance(ch, (ast.For, ast.While)):
                        cache[id(ch)] = k
                        k += 1
                    walk(ch)
            walk(func.node)
            func._loop_ordinals = cache
        return cache.get(id(st))

    def _loop_contract(self, st, fr):
        if not self.loop_contracts:
            return None
        k = self._loop_ordinal(st, fr)
        if k is None:
            return None
        return self.loop_contracts.get((fr.func.qualname, k))

    def _run_loop_contract(self, st, fr, mod, cls, spec, iter_values=None):
        """inductive invariant: (1) it holds at loop entry, (2) from an ARBITRARY state satisfying it one iteration re-establishes
        it (the path ends at the back edge), (3) after the loop the state is an arbitrary state satisfying it.  `return` / `raise`
        inside the body leave the function from such an arbitrary iteration and are checked against the function's postcondition as
        usual.  Names assigned in the body that the invariant does not mention are undefined afterwards."""
        key = '%s#loop%d' % (fr.func.qualname, self._loop_ordinal(st, fr))
        inv = spec(self, fr)
        ob = getattr(self, 'ob', None)

        def check(stage):
            for name, av in inv.items():
                for oname, cond in av.check(self, fr.locals.get(name)):
                    if ob is not None:
                        if isinstance(cond, str):
                            ob.fail('loop_inv.%s.%s.%s.%s' % (key, stage, name, oname), 'invariant', cond)
                        else:
                            ob.prove('loop_inv.%s.%s.%s.%s' % (key, stage, name, oname), cond, 'invariant')
        check('entry')
        assigned = set()
        for n in ast.walk(ast.Module(body=st.body, type_ignores=[])):
            if isinstance(n, ast.Name) and isinstance(n.ctx, ast.Store):
                assigned.add(n.id)
        tnames = set(n.id for n in ast.walk(st.target) if isinstance(n, ast.Name)) if isinstance(st, ast.For) else set()
        for name, av in inv.items():
            fr.locals[name] = av.fresh(self, name)
        for a in assigned - set(inv) - tnames:
            fr.locals.pop(a, None)
        self.notes.append(('loop_contract', '%s summarised by its invariant over %s' % (key, sorted(inv))))
        if self.decide(fresh_bool('iterate')):
            # an arbitrary iteration
            if isinstance(st, ast.For):
                self.assign(st.target, iter_values(), fr, mod, cls)
            else:
                if not self.truth(self.eval(st.test, fr, mod, cls)):
                    raise DeadPath()
            try:
                self.exec_block(st.body, fr, mod, cls)
            except _Continue:
                pass
            except _Break:
                # leaves the loop from an arbitrary iteration: continue after the loop with the current state
                return
            check('preserved')
            raise PathEnd()
        # the loop is left normally (exhausted / condition false) in an arbitrary state satisfying the invariant
        if isinstance(st, ast.While):
            if self.truth(self.eval(st.test, fr, mod, cls)):
                raise DeadPath()
        else:
            for a in tnames:
                fr.locals.pop(a, None)
        self.exec_block(st.orelse, fr, mod, cls)

    def st_For(self, st, fr, mod, cls):
        spec = self._loop_contract(st, fr)
        if spec is not None:
            itv = self.eval(st.iter, fr, mod, cls)

            def one():
                if isinstance(itv, range):
                    if len(itv) == 0:
                        raise DeadPath()
                    v = fresh_int('loopvar')
                    self.pc.add(z3.And(v >= itv.start, v < itv.stop) if itv.step > 0 else z3.And(v <= itv.start, v > itv.stop))
                    return v
                n_ = getattr(itv, 'n', None)
                if n_ is not None:
                    v = fresh_int('loopvar')
                    self.pc.add(z3.And(v >= 0, v < to_int(n_)))
                    return v
                raise OutOfSubset('loop contract on a loop that is not a range loop')
            return self._run_loop_contract(st, fr, mod, cls, spec, one)
        try:
            it = self.iterate(self.eval(st.iter, fr, mod, cls), live=True)
        except OutOfSubset as e:
            if 'symbolic bound' in str(e) and getattr(self, 'havoc_range_loops', False):
                return self._symbolic_range_loop(st, fr, mod, cls)
            raise
        broke = False
        for x in it:
            self.assign(st.target, x, fr, mod, cls)
            try:
                self.exec_block(st.body, fr, mod, cls)
            except _Break:
                broke = True
                break
            except _Continue:
                continue
        if not broke:
            self.exec_block(st.orelse, fr, mod, cls)

    def st_While(self, st, fr, mod, cls):
        spec = self._loop_contract(st, fr)
        if spec is not None:
            return self._run_loop_contract(st, fr, mod, cls, spec)
        n = 0
        while self.truth(self.eval(st.test, fr, mod, cls)):
            n += 1
            if n > 200:
                raise PathLimit('while loop exceeded 200 iterations (unwinding bound)')
            try:
                self.exec_block(st.body, fr, mod, cls)
            except _Break:
                return
            except _Continue:
                continue
        self.exec_block(st.orelse, fr, mod, cls)

    def st_Raise(self, st, fr, mod, cls):
        if st.exc is None:
            raise OutOfSubset('bare raise')
        e = self.eval(st.exc, fr, mod, cls)
        raise self.to_pyraise(e)

    def to_pyraise(self, e):
        if isinstance(e, SObj) and e.cls.is_exception():
            return PyRaise(e.cls.name, '', origin='python')
        if isinstance(e, SClass) and e.is_exception():
            return PyRaise(e.name, '', origin='python')
        if isinstance(e, ExcValue):
            return PyRaise(e.cls, '', origin='python')
        if isinstance(e, Ext) and e.name.startswith('builtins.'):
            return PyRaise(e.name.split('.')[1], '', origin='python')
        return PyRaise('TypeError', 'exceptions must derive from BaseException', origin='python-misuse')

    def st_Try(self, st, fr, mod, cls):
        try:
            self.exec_block(st.body, fr, mod, cls)
        except PyRaise as e:
            for h in st.handlers:
                if h.type is None or self.exc_matches(e, self.eval(h.type, fr, mod, cls)):
                    if h.name:
                        fr.locals[h.name] = ExcValue(e.cls)
                    self.exec_block(h.body, fr, mod, cls)
                    break
            else:
                self.exec_block(st.finalbody, fr, mod, cls)
                raise
        else:
            self.exec_block(st.orelse, fr, mod, cls)
        self.exec_block(st.finalbody, fr, mod, cls)

    def exc_matches(self, e, typ):
        if isinstance(typ, tuple):
            return any(self.exc_matches(e, t) for t in typ)
        if isinstance(typ, Ext):
            n = typ.name.split('.')[-1]
            return n in ('Exception', 'BaseException') or n == e.cls
        if isinstance(typ, SClass):
            return typ.name == e.cls
        return False

    def st_Assert(self, st, fr, mod, cls):
        if not self.truth(self.eval(st.test, fr, mod, cls)):
            raise PyRaise('AssertionError', '')

    def st_Delete(self, st, fr, mod, cls):
        for t in st.targets:
            if isinstance(t, ast.Name):
                fr.locals.pop(t.id, None)
            else:
                raise OutOfSubset('del of non-name')

    def st_Global(self, st, fr, mod, cls):
        raise OutOfSubset('global statement')

    def st_With(self, st, fr, mod, cls):
        # only torch.no_grad()-like context managers would appear; none in the subset
        raise OutOfSubset('with statement')

    # ---- expressions
    def eval(self, e, fr, mod, cls):
        m = getattr(self, 'ex_' + type(e).__name__, None)
        if m is None:
            raise OutOfSubset('expression %s' % type(e).__name__)
        return m(e, fr, mod, cls)

    def ex_Constant(self, e, fr, mod, cls):
        return e.value

    def load_name(self, name, fr, mod):
        if name in fr.locals:
            v = fr.locals[name]
            return v.get() if isinstance(v, LazyRef) else v
        if fr.local_names is not None and name in fr.local_names and not (fr.func and fr.func.closure and name in fr.func.closure):
            raise PyRaise('UnboundLocalError', "cannot access local variable '%s' where it is not associated with a value" % name, origin='python-misuse')
        if name in mod.env:
            v = mod.env[name]
            return v.get() if isinstance(v, LazyRef) else v
        b = self.optable.builtin(name)
        if b is not None:
            return b
        raise PyRaise('NameError', "name '%s' is not defined" % name, origin='python-misuse')

    def ex_Name(self, e, fr, mod, cls):
        return self.load_name(e.id, fr, mod)

    def mangle(self, attr, cls):
        if cls is not None and attr.startswith('__') and not attr.endswith('__'):
            return '_%s%s' % (cls.name.lstrip('_'), attr)
        return attr

    def ex_Attribute(self, e, fr, mod, cls):
        obj = self.eval(e.value, fr, mod, cls)
        return self.getattr(obj, self.mangle(e.attr, cls))

    def getattr(self, obj, name):
        if isinstance(obj, SObj):
            if name in obj.attrs:
                return obj.attrs[name]
            c = obj.cls.lookup(name)
            if c is None:
                if name == '__class__':
                    return obj.cls
                ext = self.optable.module_base_attr(self, obj, name)
                if ext is not NotImplemented:
                    return ext
                raise PyRaise('AttributeError', "'%s' object has no attribute '%s'" % (obj.cls.name, name), origin='python-misuse')
            if isinstance(c, SProperty):
                return self.call_sfunc(c.fget, [obj], {})
            if isinstance(c, SFunc):
                return BoundMethod(c, obj)
            return c
        if isinstance(obj, Module):
            if name in obj.env:
                v = obj.env[name]
                return v.get() if isinstance(v, LazyRef) else v
            sub = obj.name + '.' + name
            if os.path.exists(self._module_path(sub)):
                return self.module(sub)
            raise PyRaise('AttributeError', "module '%s' has no attribute '%s'" % (obj.name, name), origin='python-misuse')
        if isinstance(obj, PackageNS):
            return obj.get(name)
        if isinstance(obj, Ext):
            return self.optable.ext_attr(self, obj, name)
        if isinstance(obj, SClass):
            c = obj.lookup(name)
            if c is None:
                raise PyRaise('AttributeError', name)
            return c
        return self.optable.value_attr(self, obj, name)

    def setattr(self, obj, name, v):
        if isinstance(obj, SObj):
            self.record_attr_write(obj, name)
            obj.attrs[name] = v
            return
        if isinstance(obj, STensor) and name in ('requires_grad', 'grad'):
            if name == 'requires_grad':
                self.optable.call_method(self, obj, 'requires_grad_', [v], {})
            else:
                obj.grad = v
            return
        raise OutOfSubset('attribute store on %s' % type(obj).__name__)

    def ex_BinOp(self, e, fr, mod, cls):
        l = self.eval(e.left, fr, mod, cls)
        r = self.eval(e.right, fr, mod, cls)
        return self.binop(type(e.op).__name__, l, r)

    def ex_UnaryOp(self, e, fr, mod, cls):
        v = self.eval(e.operand, fr, mod, cls)
        op = type(e.op).__name__
        if op == 'Not':
            t = self.truth_sym(v)
            return (not t) if isinstance(t, bool) else z3.Not(t)
        if op == 'USub':
            return self.optable.neg(self, v)
        if op == 'UAdd':
            return self.optable.pos(self, v)
        raise OutOfSubset('unary %s' % op)

    def ex_BoolOp(self, e, fr, mod, cls):
        # short-circuit evaluation with forking on symbolic operands
        if isinstance(e.op, ast.And):
            v = True
            for x in e.values:
                v = self.eval(x, fr, mod, cls)
                if not self.truth(v):
                    return v
            return v
        else:
            v = False
            for x in e.values:
                v = self.eval(x, fr, mod, cls)
                if self.truth(v):
                    return v
            return v

    def ex_Compare(self, e, fr, mod, cls):
        left = self.eval(e.left, fr, mod, cls)
        result = True
        for op, rn in zip(e.ops, e.comparators):
            right = self.eval(rn, fr, mod, cls)
            r = self.optable.compare(self, type(op).__name__, left, right)
            if len(e.ops) == 1:
                return r
            if not self.truth(r):
                return False
            left = right
        return result

    def ex_IfExp(self, e, fr, mod, cls):
        if self.truth(self.eval(e.test, fr, mod, cls)):
            return self.eval(e.body, fr, mod, cls)
        return self.eval(e.orelse, fr, mod, cls)

    def ex_Call(self, e, fr, mod, cls):
        # super().__init__()
        if isinstance(e.func, ast.Attribute) and isinstance(e.func.value, ast.Call) and isinstance(e.func.value.func, ast.Name) and e.func.value.func.id == 'super':
            selfobj = fr.locals.get('self')
            for b in (cls.bases if cls else []):
                if isinstance(b, SClass):
                    m = b.lookup(e.func.attr)
                    if m is not None:
                        args = [self.eval(a, fr, mod, cls) for a in e.args]
                        return self.call_sfunc(m, [selfobj] + args, {})
            return self.optable.super_call(self, selfobj, cls, e.func.attr)
        f = self.eval(e.func, fr, mod, cls)
        args = []
        for a in e.args:
            if isinstance(a, ast.Starred):
                args.extend(self.iterate(self.eval(a.value, fr, mod, cls)))
            else:
                args.append(self.eval(a, fr, mod, cls))
        kwargs = {}
        for k in e.keywords:
            if k.arg is None:
                kwargs.update(self.eval(k.value, fr, mod, cls))
            else:
                kwargs[k.arg] = self.eval(k.value, fr, mod, cls)
        self.cur_node = e
        return self.call(f, args, kwargs)

    def ex_List(self, e, fr, mod, cls):
        out = []
        for x in e.elts:
            if isinstance(x, ast.Starred):
                out.extend(self.iterate(self.eval(x.value, fr, mod, cls)))
            else:
                out.append(self.eval(x, fr, mod, cls))
        return out

    def ex_Tuple(self, e, fr, mod, cls):
        return tuple(self.ex_List(e, fr, mod, cls))

    def ex_Set(self, e, fr, mod, cls):
        return set(self.ex_List(e, fr, mod, cls))

    def ex_Dict(self, e, fr, mod, cls):
        d = {}
        for k, v in zip(e.keys, e.values):
            d[self.eval(k, fr, mod, cls)] = self.eval(v, fr, mod, cls)
        return d

    def ex_JoinedStr(self, e, fr, mod, cls):
        for v in e.values:
            if isinstance(v, ast.FormattedValue):
                self.eval(v.value, fr, mod, cls)
        return Opaque('str')

    def ex_Lambda(self, e, fr, mod, cls):
        f = SFunc(e, mod, None)
        f.closure = fr.locals
        return f

    def _comp(self, gens, k, fr, mod, cls, emit, loc):
        if k == len(gens):
            emit(loc)
            return
        g = gens[k]
        sub = Frame(fr.func, loc, None)
        for x in self.iterate(self.eval(g.iter, sub, mod, cls)):
            loc2 = dict(loc)
            sub2 = Frame(fr.func, loc2, None)
            self.assign(g.target, x, sub2, mod, cls)
            if all(self.truth(self.eval(c, sub2, mod, cls)) for c in g.ifs):
                self._comp(gens, k + 1, fr, mod, cls, emit, loc2)

    def ex_ListComp(self, e, fr, mod, cls):
        out = []
        base = ChainLocals(fr.locals)
        self._comp(e.generators, 0, fr, mod, cls, lambda loc: out.append(self.eval(e.elt, Frame(fr.func, loc, None), mod, cls)), base)
        return out

    def ex_GeneratorExp(self, e, fr, mod, cls):
        return self.ex_ListComp(e, fr, mod, cls)

    def ex_SetComp(self, e, fr, mod, cls):
        return set(self.ex_ListComp(e, fr, mod, cls))

    def ex_DictComp(self, e, fr, mod, cls):
        out = {}

        def emit(loc):
            f2 = Frame(fr.func, loc, None)
            out[self.eval(e.key, f2, mod, cls)] = self.eval(e.value, f2, mod, cls)
        self._comp(e.generators, 0, fr, mod, cls, emit, ChainLocals(fr.locals))
        return out

    def eval_index(self, s, fr, mod, cls):
        if isinstance(s, ast.Slice):
            return slice(self.eval(s.lower, fr, mod, cls) if s.lower else None,
                         self.eval(s.upper, fr, mod, cls) if s.upper else None,
                         self.eval(s.step, fr, mod, cls) if s.step else None)
        if isinstance(s, ast.Tuple):
            return tuple(self.eval_index(x, fr, mod, cls) for x in s.elts)
        return self.eval(s, fr, mod, cls)

    def ex_Subscript(self, e, fr, mod, cls):
        obj = self.eval(e.value, fr, mod, cls)
        idx = self.eval_index(e.slice, fr, mod, cls)
        return self.subscript(obj, idx)

    def ex_Slice(self, e, fr, mod, cls):
        return self.eval_index(e, fr, mod, cls)

    def ex_Starred(self, e, fr, mod, cls):
        raise OutOfSubset('starred expression')

    def subscript(self, obj, idx):
        return self.optable.subscript(self, obj, idx)

    def store_subscript(self, obj, idx, v):
        return self.optable.store_subscript(self, obj, idx, v)

    def binop(self, opn, l, r):
        return self.optable.binop(self, opn, l, r)

    # ---- truth
    def truth_sym(self, v):
        """python truth value as bool or z3 Bool"""
        return self.optable.truth_sym(self, v)

    def truth(self, v):
        t = self.truth_sym(v)
        if isinstance(t, bool):
            return t
        return self.decide(t)

    def iterate(self, v, live=False):
        return self.optable.iterate(self, v, live)


class DeadPath(Exception):
    pass


class ExcValue(object):
    def __init__(self, cls):
        self.cls = cls


class ChainLocals(dict):
    """locals of a comprehension: reads fall through to the enclosing scope"""

    def __init__(self, parent):
        dict.__init__(self)
        self.parent = parent

    def __contains__(self, k):
        return dict.__contains__(self, k) or k in self.parent

    def __getitem__(self, k):
        if dict.__contains__(self, k):
            return dict.__getitem__(self, k)
        return self.parent[k]

    def get(self, k, d=None):
        return self[k] if k in self else d

    def copy(self):
        c = ChainLocals(self.parent)
        c.update(dict.items(self))
        return c

    def __iter__(self):
        return iter(set(dict.keys(self)) | set(self.parent.keys()))

    def items(self):
        return [(k, self[k]) for k in self]


def _chain_dict(loc):
    c = ChainLocals(loc.parent) if isinstance(loc, ChainLocals) else ChainLocals(loc)
    if isinstance(loc, ChainLocals):
        c.update(dict.items(loc))
    return c


# make dict(loc) in _comp preserve the chain
_orig_comp = Exec._comp


def _comp(self, gens, k, fr, mod, cls, emit, loc):
    if k == len(gens):
        emit(loc)
        return
    g = gens[k]
    sub = Frame(fr.func, loc, None)
    for x in self.iterate(self.eval(g.iter, sub, mod, cls)):
        loc2 = loc.copy()
        sub2 = Frame(fr.func, loc2, None)
        self.assign(g.target, x, sub2, mod, cls)
        if all(self.truth(self.eval(c, sub2, mod, cls)) for c in g.ifs):
            self._comp(gens, k + 1, fr, mod, cls, emit, loc2)


Exec._comp = _comp


class LazyRef(object):
    def __init__(self, ex, modname, name):
        self.ex = ex
        self.modname = modname
        self.name = name

    def get(self):
        m = self.ex.module(self.modname)
        if self.name in m.env:
            v = m.env[self.name]
            if isinstance(v, LazyRef):
                return v.get()
            return v
        raise PyRaise('ImportError', 'cannot import name %s' % self.name)


class PackageNS(object):
    """the name `torchtt` inside the package's own modules: attribute access loads submodules"""

    def __init__(self, ex, name):
        self.ex = ex
        self.name = name

    def get(self, attr):
        sub = self.name + '.' + attr
        if os.path.exists(self.ex._module_path(sub)) and not os.path.isdir(os.path.join(self.ex.repo, *sub.split('.'))):
            return self.ex.module(sub)
        m = self.ex.module(self.name)
        if attr in m.env:
            v = m.env[attr]
            return v.get() if isinstance(v, LazyRef) else v
        raise PyRaise('AttributeError', "module '%s' has no attribute '%s'" % (self.name, attr), origin='python-misuse')


def run_paths(body, max_paths=2000, repo=None, timeout_ms=None, max_decisions=400):
    """body(ex) -> result ; explores all decision prefixes.  returns list of (ex, outcome) where outcome is
    ('ok', value) | ('raise', PyRaise) | ('oos', OutOfSubset) | ('limit', msg)"""
    work = [[]]
    out = []
    while work:
        if len(out) >= max_paths:
            out.append((None, ('limit', 'more than %d paths' % max_paths)))
            break
        prefix = work.pop()
        ex = Exec(prefix, repo=repo, timeout_ms=timeout_ms, max_decisions=max_decisions)
        try:
            v = body(ex)
            res = ('ok', v)
        except PyRaise as e:
            res = ('raise', e)
        except OutOfSubset as e:
            res = ('oos', e)
        except PathLimit as e:
            res = ('limit', str(e))
        except DeadPath:
            res = ('dead', None)
        except PathEnd:
            res = ('end', None)
        except (_Break, _Continue, _Return):
            res = ('oos', OutOfSubset('control flow escaped'))
        work.extend(ex.new_prefixes)
        if res[0] != 'dead':
            out.append((ex, res))
    return out
