"""
Symbolic tensors: shape (symbolic ints), dtype tag, element-wise value (lambda-domain, see terms.py),
storage identity (for frame conditions), autograd tags, ghost attributes (gauge domain).

The semantics implemented here are the *assumed contracts* of the torch / numpy functions the
repository calls (DESIGN.md 2.5).  They are validated against real torch by ttvc/optable_validate.py.
"""
import itertools
import z3
from .terms import Term, Mono, ite, to_real, is_sym, fresh_int, fresh_real, OutOfSubset, CONJ
from . import terms

_ids = itertools.count(1)

FLOATS = ('float16', 'float32', 'float64')
COMPLEX = ('complex64', 'complex128')
INTS = ('int32', 'int64')
DEFAULT_FLOAT = 'float32'
TRACK_NARROWING = False    # set per scenario instance: model double -> float32 narrowing of scalars by the uninterpreted rounding R32


class PyRaise(Exception):
    """an exception raised inside the interpreted program (python or torch level)"""

    def __init__(self, cls, msg='', origin=None):
        Exception.__init__(self, '%s: %s' % (cls, msg))
        self.cls = cls
        self.msg = msg
        self.origin = origin


def promote(d1, d2):
    if d1 == d2:
        return d1
    order = ['bool', 'int32', 'int64', 'float16', 'float32', 'float64']
    c1, c2 = d1 in COMPLEX, d2 in COMPLEX
    if c1 or c2:
        def w(d):
            return 2 if d in ('float64', 'complex128') else 1
        if c1 and c2:
            return 'complex128' if 'complex128' in (d1, d2) else 'complex64'
        other = d2 if c1 else d1
        mine = d1 if c1 else d2
        if other in FLOATS and w(other) == 2:
            return 'complex128'
        return mine
    if d1 in order and d2 in order:
        a, b = order.index(d1), order.index(d2)
        # int with float -> the float type ; float with float -> wider
        return order[max(a, b)]
    raise OutOfSubset('promote %s %s' % (d1, d2))


def scalar_dtype_promote(tdtype, s):
    """tensor (dim>0) op python scalar: the tensor category wins unless the scalar is of higher category"""
    if isinstance(s, complex) or (isinstance(s, SymScalar) and s.kind == 'complex'):
        if tdtype in COMPLEX:
            return tdtype
        if tdtype == 'float16':
            raise OutOfSubset('float16 tensor with a complex scalar (complex32)')
        return 'complex128' if tdtype == 'float64' else 'complex64'
    if isinstance(s, float) or (isinstance(s, SymScalar) and s.kind == 'float'):
        if tdtype in FLOATS or tdtype in COMPLEX:
            return tdtype
        return DEFAULT_FLOAT
    if tdtype == 'bool' and not isinstance(s, bool) and not isinstance(s, z3.BoolRef):
        return 'int64'          # bool tensor op python int -> int64
    return tdtype


class SymScalar(object):
    """a symbolic python / numpy scalar (int, float, complex, numpy.float64, numpy.int64)"""

    def __init__(self, expr, kind, pytype=None):
        self.expr = expr          # z3 Real (or Int for kind == 'int')
        self.kind = kind          # 'int' | 'float' | 'complex'
        self.pytype = pytype or kind   # 'int','float','complex','np.float64','np.int64','np.float32'

    def real(self):
        return to_real(self.expr)

    def __repr__(self):
        return 'SymScalar(%s:%s)' % (self.expr, self.pytype)


class Factor(object):
    __slots__ = ('size', 'id')

    def __init__(self, size):
        self.size = size
        self.id = next(_ids)

    def __repr__(self):
        return 'F%d(%s)' % (self.id, self.size)


class Axis(object):
    __slots__ = ('size', 'factors')

    def __init__(self, size, factors=None):
        self.size = size
        self.factors = tuple(factors) if factors is not None else (Factor(size),)

    def __repr__(self):
        return 'Ax(%s|%d)' % (self.size, len(self.factors))


class Storage(object):
    def __init__(self, owner='fresh'):
        self.id = next(_ids)
        self.owner = owner       # 'fresh' or 'arg:<path>'
        self.members = []


def prod(xs):
    r = 1
    for x in xs:
        r = r * x
    return r


def sz(x):
    """normalise a size: concrete python int when possible"""
    if is_sym(x):
        x = z3.simplify(x)
        if z3.is_int_value(x):
            return x.as_long()
    return x


EX = None   # the current execution (set by interp.Exec)


def ex():
    if EX is None:
        raise RuntimeError('no active execution')
    return EX


class STensor(object):
    def __init__(self, axes, dtype, val, storage=None, lib='torch', contiguous=True, ival=None):
        self.axes = list(axes)
        self.dtype = dtype
        self._val = val          # callable(list of index tuples) -> Term ; None = opaque
        self.ival = ival         # integer tensors: callable(list of index tuples) -> z3 Int
        self.storage = storage or Storage()
        self.storage.members.append(self)
        self.lib = lib
        self.contiguous = contiguous
        self.requires_grad = False
        self.is_leaf = True
        self.deps = frozenset()      # ids of tracked leaves this value is differentiably derived from
        self.grad_cut = False        # value passed through a non-differentiable step
        self.prov = frozenset()      # provenance labels: which marked inputs this value was computed from (any data flow)
        self.cost = 1                # size of the expression DAG behind the value (used to avoid evaluating huge terms for truth tests)
        self.ghost = {}
        self.stale = False
        self.tid = next(_ids)
        self.name = None
        self.grad = None
        if EX is not None:
            EX.tensors[self.tid] = self

    # ---- structure
    @property
    def shape(self):
        return [a.size for a in self.axes]

    @property
    def ndim(self):
        return len(self.axes)

    def at(self, idx):
        """idx: list (one entry per axis) of tuples (one entry per factor) or flat ints"""
        if self.stale:
            raise OutOfSubset('read of a tensor after a write through an alias of its storage')
        if self._val is None:
            raise OutOfSubset('value of an opaque tensor (%s) is needed' % (self.name or self.tid))
        idx = [self._norm_ix(a, i) for a, i in zip(self.axes, idx)]
        if not self.axes:
            # a 0-d tensor has one value: evaluate it once (terms abstracted by fresh constants -- norms, square roots of sums --
            # must be the SAME constant every time the value is looked at)
            c = getattr(self, '_cache0', None)
            if c is not None and c[0] is self._val:
                return c[1]
            v = self._val(idx)
            self._cache0 = (self._val, v)
            return v
        return self._val(idx)

    def _norm_ix(self, axis, i):
        if isinstance(i, tuple):
            if len(i) != len(axis.factors):
                raise OutOfSubset('index tuple of wrong length for a factored axis')
            return i
        if len(axis.factors) == 1:
            return (i,)
        return unflatten(i, axis.factors)

    def __repr__(self):
        return 'STensor(%s,%s%s)' % (self.shape, self.dtype, ',' + self.name if self.name else '')


def flatten_ix(tup, factors):
    r = 0
    for i, f in zip(tup, factors):
        r = r * f.size + i
    return r


def align_factors(tup, f_from, f_to):
    """re-express an index tuple over the factors f_from as a tuple over f_to when both lists agree up to unit-size factors"""
    a = [(x, f) for x, f in zip(tup, f_from) if not known_eq(f.size, 1)]
    b = [f for f in f_to if not known_eq(f.size, 1)]
    if len(a) != len(b) or not all(known_eq(x[1].size, y.size) for x, y in zip(a, b)):
        return None
    it = iter(a)
    return tuple(0 if known_eq(f.size, 1) else next(it)[0] for f in f_to)


def unflatten(i, factors):
    """flat index -> tuple of factor indices (div/mod ; exact, but hard for the solver when symbolic)"""
    if isinstance(i, int) and i == 0:
        return tuple(0 for _ in factors)
    out = []
    rem = i
    for k in range(len(factors) - 1, 0, -1):
        s = factors[k].size
        out.append(rem % s)
        rem = rem / s if is_sym(rem) or is_sym(s) else rem // s
    out.append(rem)
    return tuple(reversed(out))


def opaque_int_tensor(axes, lo, hi, name='ix', lib='torch', dtype='int64'):
    """an integer tensor with unknown entries in [lo, hi): entry = UF(flat indices).  The range fact of an entry is added to the
    path condition whenever that entry is looked at (instantiation on use), guarded by the entry being inside the tensor."""
    axes = list(axes)
    n = len(axes)
    f = z3.Function('%s!%d' % (name, next(_ids)), *([z3.IntSort()] * max(n, 1) + [z3.IntSort()]))

    def ival(idx):
        args = [to_int(flatten_ix(i, ax.factors)) if len(ax.factors) > 1 else to_int(i[0]) for i, ax in zip(idx, axes)] if n else [z3.IntVal(0)]
        v = f(*args)
        inb = [z3.And(to_int(x) >= 0, to_int(x) < to_int(fc.size)) for i, ax in zip(idx, axes) for x, fc in zip(i, ax.factors)]
        fact = z3.And(v >= to_int(lo), v < to_int(hi))
        ex().pc.add(z3.Implies(z3.And(*inb), fact) if inb else fact)
        return v
    t = STensor(axes, dtype, lambda idx: Term.of(z3.ToReal(ival(idx))), lib=lib, ival=ival)
    t.name = name
    return t


def int_entry(t, idx):
    """symbolic value (z3 Int) of the entry idx of an integer tensor"""
    if t.ival is None:
        raise OutOfSubset('integer values of tensor %s are not tracked' % (t.name or t.tid))
    return t.ival([t._norm_ix(a, i) for a, i in zip(t.axes, idx)])


def _iv(t, srcmap):
    """integer-value function of a tensor obtained from t by an index map"""
    if t.ival is None:
        return None
    f = t.ival        # the values at this moment (a later in-place write to t replaces t.ival)
    return lambda idx: f([t._norm_ix(a, i) for a, i in zip(t.axes, srcmap(idx))])


# ------------------------------------------------------------------------------------------------
# fresh inputs
# ------------------------------------------------------------------------------------------------

def atom_tensor(name, shape, dtype='float64', owner=None, lib='torch'):
    """a tensor whose entries are uninterpreted atoms name(i0,...,ik)"""
    n = len(shape)
    f = z3.Function(name, *([z3.IntSort()] * max(n, 1) + [z3.RealSort()]))
    axes = [Axis(sz(s)) for s in shape]

    def val(idx):
        args = [to_int(i[0]) for i in idx] if n else [z3.IntVal(0)]
        return Term.of(f(*args))
    t = STensor(axes, dtype, val, Storage(owner or 'fresh'), lib=lib)
    t.name = name
    return t


def to_int(i):
    if isinstance(i, int):
        return z3.IntVal(i)
    return i


def const_tensor(shape, value, dtype, lib='torch'):
    axes = [Axis(sz(s)) for s in shape]
    v = Term.of(value)
    iv = None
    if dtype in INTS and isinstance(value, int) and not isinstance(value, bool):
        iv = lambda idx: z3.IntVal(value)
    return STensor(axes, dtype, lambda idx: v, lib=lib, ival=iv)


# ------------------------------------------------------------------------------------------------
# helpers for symbolic decisions
# ------------------------------------------------------------------------------------------------

def known_eq(a, b):
    if not is_sym(a) and not is_sym(b):
        return a == b
    return ex().pc.implied(to_int(a) == to_int(b))


def decide_eq(a, b):
    if not is_sym(a) and not is_sym(b):
        return a == b
    return ex().decide(to_int(a) == to_int(b))


def require(cond, cls='RuntimeError', msg=''):
    """torch-level precondition: raise inside the interpreted program when it can fail"""
    if cond is True:
        return
    if cond is False or not ex().decide(cond):
        raise PyRaise(cls, msg, origin='torch')


def require_for_all(cond, bounds, cls, msg):
    """torch/numpy-level precondition over every entry of an index tensor (cond mentions fresh position variables constrained by
    `bounds`): proved -> nothing happens; refuted by the solver -> one path on which a violating entry exists (its witness stays in
    the path condition, so that the model of the failing obligation shows it) raises, the other continues; unknown -> out of subset"""
    pc = ex().pc
    r = pc._check(z3.Not(cond), *bounds)
    if r == z3.unsat:
        return
    if r == z3.unknown:
        raise OutOfSubset('cannot decide an index-range precondition: %s' % msg)
    if ex().decide(terms.fresh_bool('violating_entry')):
        for b in bounds:
            pc.add(b)
        pc.add(z3.Not(cond))
        raise PyRaise(cls, msg, origin='torch')


def norm_dim(d, n):
    if not isinstance(d, int):
        raise OutOfSubset('symbolic axis number')
    if d < -n or d >= n:
        raise PyRaise('IndexError', 'Dimension out of range', origin='torch')
    return d % n if n else 0


def derive(out, *ins, differentiable=True, view_of=None):
    """propagate autograd tags and storage"""
    deps = frozenset()
    cut = False
    prov = out.prov
    cost = 1
    for t in ins:
        if isinstance(t, STensor):
            prov = prov | t.prov
            cost += t.cost
    out.prov = prov
    out.cost = cost
    anc = frozenset()
    for t in ins:
        if isinstance(t, STensor):
            d = t.deps
            if t.requires_grad and t.is_leaf:
                d = d | frozenset([t.tid])
            deps = deps | d
            cut = cut or t.grad_cut
            if t.deps:
                # intermediate (non-leaf) ancestors of the autograd graph: needed for retain_grad() on non-leaf tensors
                anc = anc | getattr(t, 'anc', frozenset()) | frozenset([t.tid])
    if differentiable:
        out.deps = deps
        out.anc = anc
        out.grad_cut = cut
    else:
        out.deps = frozenset()
        out.grad_cut = cut or bool(deps)
        if deps and EX is not None:
            EX.grad_cuts.append(('non-differentiable step', getattr(EX, 'cur_where', lambda: '?')()))
    out.is_leaf = not out.deps
    if view_of is not None:
        out.storage.members.remove(out)
        out.storage = view_of.storage
        out.storage.members.append(out)
        out.stale = view_of.stale
        if getattr(view_of, 'conj_bit', False):
            out.conj_bit = True          # views of a lazily conjugated tensor keep the conjugate bit
    return out


# ------------------------------------------------------------------------------------------------
# creation
# ------------------------------------------------------------------------------------------------

def _shape_arg(args):
    if len(args) == 1 and isinstance(args[0], (list, tuple)):
        return list(args[0])
    if len(args) == 1 and isinstance(args[0], STensor):
        raise OutOfSubset('tensor as size')
    return list(args)


def _check_sizes(shape):
    for s in shape:
        if is_sym(s):
            require(s >= 0, 'RuntimeError', 'negative dimension')
        elif not isinstance(s, int) or isinstance(s, bool):
            raise PyRaise('TypeError', 'size must be int')
        elif s < 0:
            raise PyRaise('RuntimeError', 'negative dimension', origin='torch')


def full_like_shape(shape, value, dtype):
    _check_sizes(shape)
    return const_tensor(shape, value, dtype or DEFAULT_FLOAT)


def eye(n, m=None, dtype=None):
    if m is None:
        m = n
    _check_sizes([n, m])
    axes = [Axis(sz(n)), Axis(sz(m))]

    def val(idx):
        i, j = idx[0][0], idx[1][0]
        c = (i == j)
        if isinstance(c, bool):
            return Term.of(1 if c else 0)
        return ite(c, 1, 0)
    return STensor(axes, dtype or DEFAULT_FLOAT, val)


def arange_tensor(n, dtype=None):
    axes = [Axis(sz(n))]
    return STensor(axes, dtype or 'int64', lambda idx: Term.of(to_real(to_int(idx[0][0]))),
                   ival=lambda idx: to_int(idx[0][0]))


def opaque_tensor(shape, dtype, name='rnd', lib='torch'):
    return atom_tensor('%s!%d' % (name, next(_ids)), shape, dtype, lib=lib)


def opaque_with_axes(axes, dtype, name='opq', lib='torch'):
    """opaque atoms over given axes (factor structure of the axes is kept; atoms are indexed by the flat index)"""
    n = len(axes)
    f = z3.Function('%s!%d' % (name, next(_ids)), *([z3.IntSort()] * max(n, 1) + [z3.RealSort()]))

    def val(idx):
        args = [to_int(flatten_ix(i, ax.factors)) if len(ax.factors) > 1 else to_int(i[0]) for i, ax in zip(idx, axes)] if n else [z3.IntVal(0)]
        return Term.of(f(*args))
    t = STensor(list(axes), dtype, val, lib=lib)
    t.name = name
    return t


def from_data(data, dtype=None):
    """tn.tensor(python data)"""
    if isinstance(data, STensor):
        lossy = dtype is not None and _category(dtype) < _category(data.dtype) and _category(data.dtype) >= 2
        out = STensor(list(data.axes), dtype or data.dtype, None if lossy else data._val, ival=None if lossy else data.ival)
        return derive(out, data, differentiable=False)

    def shape_of(d):
        if isinstance(d, (list, tuple)):
            if not d:
                return [0]
            return [len(d)] + shape_of(d[0])
        return []
    shp = shape_of(data)

    def check_rect(d, k):
        if k == len(shp):
            if isinstance(d, (list, tuple)):
                raise PyRaise('ValueError', 'too many dimensions', origin='torch')
            return
        if not isinstance(d, (list, tuple)) or len(d) != shp[k]:
            raise PyRaise('ValueError', 'expected sequence of length %d at dim %d' % (shp[k], k), origin='torch')
        for x in d:
            check_rect(x, k + 1)
    check_rect(data, 0)

    def get(d, idx):
        for i in idx:
            d = d[i]
        return d
    flat = []
    for idx in itertools.product(*[range(s) for s in shp]):
        flat.append((idx, get(data, idx)))
    kinds = set()
    for _, v in flat:
        if isinstance(v, bool):
            kinds.add('bool')
        elif isinstance(v, int) or (is_sym(v) and v.sort() == z3.IntSort()):
            kinds.add('int')
        elif isinstance(v, SymScalar):
            kinds.add(v.kind)
        elif isinstance(v, complex):
            kinds.add('complex')
        elif isinstance(v, STensor):
            kinds.add('float' if v.dtype in FLOATS else 'int' if v.dtype in INTS else 'complex')
        else:
            kinds.add('float')
    if dtype is None:
        dtype = 'complex64' if 'complex' in kinds else DEFAULT_FLOAT if 'float' in kinds else 'int64' if 'int' in kinds \
            else 'bool' if 'bool' in kinds else DEFAULT_FLOAT          # torch.tensor([]) is float32
    elif dtype in INTS + ('bool',) and ('float' in kinds or 'complex' in kinds):
        raise OutOfSubset('non-integer data with an integer dtype (torch truncates)')
    elif dtype not in COMPLEX and 'complex' in kinds:
        raise OutOfSubset('complex data with a real dtype')
    axes = [Axis(s) for s in shp]

    narrow = TRACK_NARROWING and dtype in ('float32', 'complex64')

    def sv(v):
        if narrow and not isinstance(v, STensor):
            # a double precision python / numpy scalar stored in a single precision tensor is rounded
            if isinstance(v, float):
                import struct
                if struct.unpack('f', struct.pack('f', v))[0] != v:
                    return terms.R32(to_real(v))
            elif (isinstance(v, SymScalar) and v.kind == 'float' and getattr(v, 'pytype', None) in (None, 'float', 'np.float64')) or \
                    (is_sym(v) and v.sort() == z3.RealSort()):
                return terms.R32(v.real() if isinstance(v, SymScalar) else v)
        if isinstance(v, SymScalar):
            return v.real()
        if isinstance(v, STensor):
            return v.at([]).simple_expr() if v.at([]).is_simple() else None
        return to_real(v)

    def val(idx):
        r = Term.zero()
        if not flat:
            return r
        # concrete indices are the common case
        cidx = [i[0] for i in idx]
        if all(isinstance(i, int) for i in cidx):
            v = get(data, cidx)
            if isinstance(v, STensor):
                return v.at([])
            return Term.of(sv(v))
        e = None
        for pos, v in reversed(flat):
            cond = z3.And(*[to_int(i) == p for i, p in zip(cidx, pos)]) if pos else z3.BoolVal(True)
            x = sv(v)
            e = x if e is None else z3.If(cond, x, e)
        return Term.of(e)
    out = STensor(axes, dtype, val)
    if dtype in INTS and kinds <= {'int', 'bool'} and not any(isinstance(v, (STensor, SymScalar)) for _, v in flat):
        # integer data: usable as an index tensor
        def ival(idx):
            cidx = [i[0] for i in idx]
            e = None
            for pos, v in reversed(flat):
                x = to_int(int(v) if isinstance(v, bool) else v)
                cond = z3.And(*[to_int(i) == p for i, p in zip(cidx, pos)]) if pos else z3.BoolVal(True)
                e = x if e is None else z3.If(cond, x, e)
            return z3.simplify(e) if e is not None else z3.IntVal(0)
        out.ival = ival
    ins = [v for _, v in flat if isinstance(v, STensor)]
    return derive(out, *ins, differentiable=False)


# ------------------------------------------------------------------------------------------------
# views and shape ops
# ------------------------------------------------------------------------------------------------

def clone(t):
    out = STensor(list(t.axes), t.dtype, t._val, ival=t.ival, lib=t.lib, contiguous=t.contiguous)    # preserve_format
    out.ghost = dict(t.ghost)
    return derive(out, t)


def detach(t):
    out = STensor(list(t.axes), t.dtype, t._val, ival=t.ival, lib=t.lib, contiguous=t.contiguous)
    out.ghost = dict(t.ghost)
    derive(out, t, differentiable=False, view_of=t)
    out.grad_cut = False
    out.deps = frozenset()
    out.is_leaf = True
    return out


def to_dtype(t, dtype):
    if dtype is None or dtype == t.dtype:
        return t           # torch returns self when nothing changes
    if t.dtype in COMPLEX and dtype not in COMPLEX:
        # torch discards the imaginary part (with a warning): the values are not modelled, the dtype is
        ex().notes.append(('lossy_cast', 'complex -> %s cast discards the imaginary part' % dtype))
        out = STensor(list(t.axes), dtype, None, lib=t.lib, contiguous=t.contiguous)
        out.ghost['lossy_cast'] = True
        return derive(out, t)
    trunc = t.dtype in FLOATS and dtype in INTS + ('bool',) and t.ival is None
    out = STensor(list(t.axes), dtype, None if trunc else t._val, ival=t.ival, lib=t.lib, contiguous=t.contiguous)
    out.ghost = dict(t.ghost)
    return derive(out, t)


def permute(t, dims):
    dims = list(dims)
    n = t.ndim
    if len(dims) != n:
        raise PyRaise('RuntimeError', 'permute: number of dims does not match', origin='torch')
    nd = [norm_dim(d, n) for d in dims]
    if sorted(nd) != list(range(n)):
        raise PyRaise('RuntimeError', 'permute: repeated dim', origin='torch')
    axes = [t.axes[d] for d in nd]

    def srcmap(idx):
        src = [None] * n
        for k, d in enumerate(nd):
            src[d] = idx[k]
        return src

    def val(idx):
        return t.at(srcmap(idx))
    out = STensor(axes, t.dtype, val if t._val else None, lib=t.lib, contiguous=(nd == list(range(n))) and t.contiguous, ival=_iv(t, srcmap))
    out.ghost = _permute_ghost(t, nd)
    return derive(out, t, view_of=t)


def _permute_ghost(t, nd):
    g = {}
    if 'fro2' in t.ghost:
        g['fro2'] = t.ghost['fro2']
    if len(nd) == 2 and nd == [1, 0]:
        if t.ghost.get('perm'):
            g['perm'] = True
        for a, b in (('orth_cols', 'orth_rows'), ('orth_rows', 'orth_cols')):
            if t.ghost.get(a):
                g[b] = True
        if 'mat' in t.ghost:
            g['mat'] = ('T', t.ghost['mat'])
        from . import gauge

        class _O(object):
            ghost = g
        gauge.on_transpose(t, _O)
    return g


def transpose2(t):
    if t.ndim > 2:
        raise PyRaise('RuntimeError', 't() expects a tensor with <= 2 dimensions', origin='torch')
    if t.ndim < 2:
        return permute(t, list(range(t.ndim)))     # a new tensor object viewing the same storage (x.t() is not x)
    return permute(t, [1, 0])


def unsqueeze(t, dim):
    n = t.ndim
    if not isinstance(dim, int):
        raise OutOfSubset('symbolic dim')
    if dim < -(n + 1) or dim > n:
        raise PyRaise('IndexError', 'Dimension out of range', origin='torch')
    if dim < 0:
        dim += n + 1
    axes = list(t.axes)
    axes.insert(dim, Axis(1))

    def val(idx):
        return t.at(idx[:dim] + idx[dim + 1:])
    out = STensor(axes, t.dtype, val if t._val else None, lib=t.lib, contiguous=t.contiguous, ival=_iv(t, lambda idx: idx[:dim] + idx[dim + 1:]))
    if 'fro2' in t.ghost:
        out.ghost['fro2'] = t.ghost['fro2']
    return derive(out, t, view_of=t)


def squeeze(t, dim=None):
    n = t.ndim
    if dim is None:
        drop = [k for k in range(n) if decide_eq(t.axes[k].size, 1)]
    else:
        dims = dim if isinstance(dim, (list, tuple)) else [dim]
        drop = []
        seen_dims = []
        for d in dims:
            if n == 0:
                if d not in (0, -1):
                    raise PyRaise('IndexError', 'Dimension out of range', origin='torch')
                continue
            d = norm_dim(d, n)
            if d in seen_dims:
                raise PyRaise('RuntimeError', 'dim %d appears multiple times in the list of dims' % d, origin='torch')
            seen_dims.append(d)
            if decide_eq(t.axes[d].size, 1):
                drop.append(d)
    keep = [k for k in range(n) if k not in drop]
    axes = [t.axes[k] for k in keep]

    def srcmap(idx):
        src = [(0,) * len(t.axes[k].factors) for k in range(n)]
        for j, k in enumerate(keep):
            src[k] = idx[j]
        return src

    def val(idx):
        return t.at(srcmap(idx))
    out = STensor(axes, t.dtype, val if t._val else None, lib=t.lib, contiguous=t.contiguous, ival=_iv(t, srcmap))
    if 'fro2' in t.ghost:
        out.ghost['fro2'] = t.ghost['fro2']
    return derive(out, t, view_of=t)


def numel(t):
    return sz(prod(t.shape)) if t.shape else 1


def reshape(t, shape):
    """two-pointer regrouping of atomic factors (merge) / splitting of factors (split)"""
    shape = list(shape)
    n_unknown = [k for k, s in enumerate(shape) if isinstance(s, int) and s == -1]
    if len(n_unknown) > 1:
        raise PyRaise('RuntimeError', 'only one dimension can be inferred', origin='torch')
    for s in shape:
        if isinstance(s, (STensor, float)) or s is None:
            raise PyRaise('TypeError', 'reshape(): argument shape must be tuple of ints', origin='torch')
        if isinstance(s, SymScalar):
            if s.kind != 'int':
                raise PyRaise('TypeError', 'reshape(): argument shape must be tuple of ints', origin='torch')
    shape = [s.expr if isinstance(s, SymScalar) else s for s in shape]
    src = [f for a in t.axes for f in a.factors]
    pc = ex().pc
    total = prod([a.size for a in t.axes]) if t.axes else 1
    if n_unknown:
        k = n_unknown[0]
        known = prod([s for j, s in enumerate(shape) if j != k]) if len(shape) > 1 else 1
        # the inferred size q satisfies known*q == total
        q = _infer_quotient(src, shape, k, total, known)
        shape[k] = q
    else:
        tgt_total = prod(shape) if shape else 1
        if not known_eq(total, tgt_total):
            require(to_int(total) == to_int(tgt_total), 'RuntimeError', 'shape is invalid for input size')
    for s in shape:
        if is_sym(s):
            require(s >= 0, 'RuntimeError', 'invalid shape dimension')
        elif s < 0:
            raise PyRaise('RuntimeError', 'invalid shape dimension', origin='torch')
    # grouping
    try:
        new_axes, mapping = _regroup(src, [sz(s) for s in shape])
    except OutOfSubset:
        # the target sizes do not regroup the atomic factors (a reshape that reinterprets the flat index): exact semantics
        # through the flat C-order index (div / mod -- hard for the solver, fine for exact evaluation at concrete sizes)
        new_axes = [Axis(sz(s)) for s in shape]
        srcq = [f for f in src]

        def mapping(idx):
            flat = 0
            for k, s_ in enumerate(shape):
                flat = flat * s_ + idx[k][0]
            tup = unflatten(flat, srcq) if srcq else ()
            return list(tup)

    def srcmap(idx):
        # keyed by POSITION in the flattened factor list: the same Factor object may sit in two axes (Phi[L,S,R] with L and R
        # both taken from one QR factor), so the factor identity does not determine the axis
        fmap = iter(mapping(idx))
        return [tuple(next(fmap) for f in a.factors) for a in t.axes]

    def val(idx):
        return t.at(srcmap(idx))
    # a strided input is either copied or (compatible strides) viewed: contiguity of the result is then unknown
    out = STensor(new_axes, t.dtype, val if t._val else None, lib=t.lib, contiguous=bool(t.contiguous), ival=_iv(t, srcmap))
    from . import gauge
    gauge.on_reshape(t, out)
    if t.contiguous:
        return derive(out, t, view_of=t)
    out.maybe_view_of = t
    return derive(out, t)


def _infer_quotient(src, shape, k, total, known):
    """size of the -1 dimension"""
    if not is_sym(total) and not is_sym(known):
        if known == 0 or total % known != 0:
            raise PyRaise('RuntimeError', 'shape is invalid for input size', origin='torch')
        return total // known
    # try factor matching: targets left of k consume from the left, right of k from the right
    pc = ex().pc
    lo, hi = 0, len(src)
    ok = True
    for s in shape[:k]:
        p = 1
        if known_eq(s, 1):
            continue
        matched = False
        while lo < hi:
            p = p * src[lo].size
            lo += 1
            if known_eq(p, s):
                matched = True
                break
        if not matched:
            ok = False
            break
    if ok:
        for s in reversed(shape[k + 1:]):
            p = 1
            if known_eq(s, 1):
                continue
            matched = False
            while hi > lo:
                hi -= 1
                p = p * src[hi].size
                if known_eq(p, s):
                    matched = True
                    break
            if not matched:
                ok = False
                break
    if ok:
        return sz(prod([f.size for f in src[lo:hi]])) if hi > lo else 1
    q0 = exact_div(total, known)
    if q0 is not None:
        return sz(q0) if is_sym(q0) else q0
    # general case: fresh quotient
    q = fresh_int('q')
    require(z3.And(to_int(known) > 0, to_int(total) % to_int(known) == 0), 'RuntimeError', 'shape is invalid for input size')
    ex().pc.add(q * to_int(known) == to_int(total))
    ex().pc.add(q >= 0)
    return q


def exact_div(a, b):
    """a / b when b divides a (decided by equality under the path condition or syntactically on products); else None"""
    if not is_sym(a) and not is_sym(b):
        return a // b if b != 0 and a % b == 0 else None
    if known_eq(a, b):
        return 1
    from . import optable
    fd = optable.factor_divide(ex(), a, b)
    if fd is not None and not is_sym(fd[1]) and fd[1] == 0:
        return fd[0]
    return None


def _regroup(src, shape):
    """two-pointer regrouping with partial consumption of source factors.
    returns (axes, mapping) where mapping(idx) -> {source factor id: index expr}"""
    def unit(x):
        return known_eq(x, 1)
    srcq = [(p, f) for p, f in enumerate(src) if not unit(f.size)]
    pieces_of = {p: [] for p, f in srcq}     # source factor POSITION -> list of (piece factor, target axis k, position in the index tuple)
    axes = []
    i = 0
    rem = None
    cur = None
    for k, Tsize in enumerate(shape):
        if unit(Tsize):
            axes.append(Axis(1))
            continue
        need = Tsize
        run = []
        guard = 0
        while not unit(need):
            guard += 1
            if guard > 64:
                raise OutOfSubset('reshape: regrouping does not terminate')
            if rem is None:
                if i >= len(srcq):
                    raise OutOfSubset('reshape: target sizes %s do not align with factors %s' % (shape, src))
                curp, cur = srcq[i]
                i += 1
                rem = cur.size
                whole = True
            q = exact_div(need, rem)
            if q is not None:
                pf = cur if whole else Factor(sz(rem))
                pieces_of[curp].append((pf, k, len(run)))
                run.append(pf)
                need = q
                rem = None
                continue
            q2 = exact_div(rem, need)
            if q2 is not None:
                pf = Factor(sz(need))
                pieces_of[curp].append((pf, k, len(run)))
                run.append(pf)
                rem = q2
                whole = False
                need = 1
                if unit(rem):
                    rem = None
                continue
            raise OutOfSubset('reshape: target sizes %s do not align with factors %s' % (shape, src))
        axes.append(Axis(Tsize, run) if run else Axis(1))
    if rem is not None and not unit(rem):
        raise OutOfSubset('reshape: leftover source factor')
    if i < len(srcq):
        raise OutOfSubset('reshape: leftover source factors')

    def mapping(idx):
        fmap = [0] * len(src)
        for p, f in srcq:
            r = None
            for pf, k, pos in pieces_of[p]:
                ix = idx[k][pos]
                r = ix if r is None else r * pf.size + ix
            fmap[p] = r if r is not None else 0
        return fmap
    return axes, mapping


# ------------------------------------------------------------------------------------------------
# indexing
# ------------------------------------------------------------------------------------------------

def slice_params(s, n):
    """python/torch slice semantics on an axis of size n: returns (start, length, step) with symbolic clamping"""
    step = s.step
    if step is None:
        step = 1
    if isinstance(step, SymScalar):
        step = step.expr
    if is_sym(step):
        require(step > 0, 'ValueError', 'slice step must be positive')
    elif step <= 0:
        raise PyRaise('ValueError', 'step must be greater than zero', origin='torch')

    def norm(v, default):
        if v is None:
            return default
        if isinstance(v, SymScalar):
            v = v.expr
        if isinstance(v, STensor):
            raise OutOfSubset('tensor as slice bound')
        if not is_sym(v) and not is_sym(n):
            if v < 0:
                v += n
            return min(max(v, 0), n)
        v = to_int(v)
        nn = to_int(n)
        pc = ex().pc
        if pc.implied(z3.And(v >= 0, v <= nn)):
            return sz(v)
        if pc.implied(v >= nn):
            return n
        w = z3.If(v < 0, v + nn, v)
        return z3.If(w < 0, 0, z3.If(w > nn, nn, w))
    start = norm(s.start, 0)
    stop = norm(s.stop, n)
    if not is_sym(start) and not is_sym(stop) and not is_sym(step):
        length = max(0, (stop - start + step - 1) // step)
        return start, length, step
    if not is_sym(step) and step == 1:
        d = to_int(stop) - to_int(start)
        length = z3.If(d > 0, d, 0)
        # try to simplify under the path condition
        pc = ex().pc
        if pc.implied(d >= 0):
            length = d
        return start, sz(z3.simplify(length)) if is_sym(length) else length, 1
    d = to_int(stop) - to_int(start)
    length = z3.If(d > 0, (d + to_int(step) - 1) / to_int(step), 0)
    return start, length, step


def getitem(t, index):
    if not isinstance(index, tuple):
        index = (index,)
    n = t.ndim
    # expand ellipsis
    if any(i is False for i in index):
        raise OutOfSubset('python False as an index (selects nothing: a size-0 axis)')
    n_consuming = sum(1 for i in index if i is not None and i is not Ellipsis and i is not True)
    if n_consuming > n:
        raise PyRaise('IndexError', 'too many indices for tensor of dimension %d' % n, origin='torch')
    full = []
    seen_ellipsis = False
    for i in index:
        if i is Ellipsis:
            # torch (unlike numpy) accepts several ellipses: the first one expands, the others select nothing
            if not seen_ellipsis:
                full.extend([slice(None)] * (n - n_consuming))
            seen_ellipsis = True
        else:
            full.append(i)
    if not any(i is Ellipsis for i in index):
        full.extend([slice(None)] * (n - n_consuming))
    axes = []
    plan = []      # per source axis: how to compute its index from the result index
    src_k = 0
    out_k = 0
    adv = None
    n_true = sum(1 for i in full if i is True)
    if n_true and any(isinstance(i, STensor) and i.ndim > 0 for i in full):
        raise OutOfSubset('python bool index combined with an index tensor (they broadcast together)')
    if n_true > 1:
        raise OutOfSubset('several python bool indices (they broadcast into one axis)')
    for i in full:
        if i is None or i is True:
            axes.append(Axis(1))       # torch: a python True index inserts a new axis of size 1 (like None), but COPIES
            out_k += 1
            continue
        ax = t.axes[src_k]
        if isinstance(i, slice):
            if i.start is None and i.stop is None and i.step is None:
                axes.append(ax)
                plan.append(('keep', out_k))
            else:
                start, length, step = slice_params(i, ax.size)
                axes.append(Axis(sz(length) if is_sym(length) else length))
                plan.append(('slice', out_k, start, step))
            out_k += 1
        elif isinstance(i, STensor):
            if i.dtype not in INTS:
                raise OutOfSubset('boolean / float tensor index')
            if i.ndim == 0:
                plan.append(('int', _int_index(i.ival([]), ax.size)))
            else:
                if adv is not None:
                    raise OutOfSubset('more than one advanced index')
                adv = i
                # range check: this is the torch-level precondition (index out of range raises IndexError)
                pos = [tuple(fresh_int('j') for _ in a.factors) for a in i.axes]
                chk = i.ival(pos)
                rng = getattr(i, 'int_range', None)
                ok = rng is not None and _range_fits(rng, ax.size)
                if not ok:
                    jv = [x for tup in pos for x in tup]
                    bounds = [z3.And(x >= 0, x < to_int(f.size)) for a, tup in zip(i.axes, pos) for x, f in zip(tup, a.factors)]
                    cond = z3.And(chk >= -to_int(ax.size), chk < to_int(ax.size))
                    require_for_all(cond, bounds, 'IndexError', 'index out of range for dimension with size %s' % (ax.size,))
                for a in i.axes:
                    axes.append(a)
                plan.append(('adv', out_k, i))
                out_k += i.ndim
        else:
            if isinstance(i, SymScalar):
                if i.kind != 'int':
                    raise PyRaise('IndexError', 'only integers, slices ... are valid indices', origin='torch')
                i = i.expr
            if isinstance(i, bool) or isinstance(i, float):
                raise OutOfSubset('bool/float index')
            plan.append(('int', _int_index(i, ax.size)))
        src_k += 1

    def val_gen(getter):
        def val(idx):
            src = []
            for p in plan:
                if p[0] == 'keep':
                    src.append(idx[p[1]])
                elif p[0] == 'slice':
                    src.append(p[2] + idx[p[1]][0] * p[3])
                elif p[0] == 'int':
                    src.append(p[1])
                else:
                    it = p[2]
                    v = it.ival(idx[p[1]:p[1] + it.ndim])
                    axn = t.axes[len(src)].size
                    src.append(z3.If(v < 0, v + to_int(axn), v) if not getattr(it, 'nonneg', False) else v)
            return getter(src)
        return val
    out = STensor(axes, t.dtype, val_gen(t.at) if t._val else None, lib=t.lib, contiguous=False,
                  ival=val_gen(lambda src, f=t.ival: f([t._norm_ix(a, i) for a, i in zip(t.axes, src)])) if t.ival else None)
    if hasattr(t, 'int_range'):
        out.int_range = t.int_range
    if adv is None and len(full) == n:
        from . import gauge
        gauge.on_getitem(t, out, full)
    if adv is not None or n_true:
        return derive(out, t)          # advanced indexing (index tensors, python bools) copies
    return derive(out, t, view_of=t)


def fresh_opaque_bool(name):
    return terms.fresh_bool(name)


def _range_fits(rng, n):
    lo, hi = rng
    pc = ex().pc
    return pc.implied(z3.And(to_int(lo) >= 0, to_int(hi) <= to_int(n)))


def _int_index(i, n):
    if not is_sym(i) and not is_sym(n):
        if i < -n or i >= n:
            raise PyRaise('IndexError', 'index %d is out of bounds for dimension with size %d' % (i, n), origin='torch')
        return i % n
    i = to_int(i)
    nn = to_int(n)
    require(z3.And(i >= -nn, i < nn), 'IndexError', 'index out of bounds')
    if ex().pc.implied(i >= 0):
        return i
    if ex().pc.implied(i < 0):
        return z3.simplify(i + nn)
    return z3.If(i < 0, i + nn, i)


def _check_setitem_broadcast(vs, view_shape):
    if len(vs) > len(view_shape):
        for e in vs[:len(vs) - len(view_shape)]:
            require(to_int(e) == 1 if is_sym(e) else e == 1, 'RuntimeError', 'shape mismatch in setitem')
    off = len(view_shape) - len(vs)
    for k, L in enumerate(view_shape):
        if k - off < 0:
            continue
        s_ = vs[k - off]
        if not known_eq(s_, L) and not decide_eq(s_, L):
            require(to_int(s_) == 1 if is_sym(s_) else s_ == 1, 'RuntimeError', 'shape mismatch: value tensor cannot be broadcast to indexing result')


def setitem(t, index, value):
    """t[index] = value  (in place)"""
    if (isinstance(value, complex) or (isinstance(value, SymScalar) and value.kind == 'complex')) and _category(t.dtype) < 3:
        # torch converts the python scalar first: a complex scalar cannot be stored into a real tensor (only complex TENSORS are cast)
        raise PyRaise('RuntimeError', 'value cannot be converted to type %s without overflow' % t.dtype, origin='torch')
    ex().record_write(t, 'setitem')
    if not isinstance(index, tuple):
        index = (index,)
    # build the view selected by index and compare indices
    n = t.ndim
    if sum(1 for i in index if i is Ellipsis) == 1:
        k_ = [j for j, i in enumerate(index) if i is Ellipsis][0]
        index = tuple(index[:k_]) + (slice(None),) * (n - (len(index) - 1)) + tuple(index[k_ + 1:])
    if any(i is None or i is Ellipsis or isinstance(i, STensor) for i in index):
        raise OutOfSubset('setitem with None/Ellipsis/tensor index')
    index = list(index) + [slice(None)] * (n - len(index))
    if len(index) > n:
        raise PyRaise('IndexError', 'too many indices', origin='torch')
    sel = []     # per axis: ('int', i) | ('slice', start, length, step)
    view_shape = []
    for ax, i in zip(t.axes, index):
        if isinstance(i, slice):
            start, length, step = slice_params(i, ax.size)
            sel.append(('slice', start, length, step))
            view_shape.append(length)
        else:
            if isinstance(i, SymScalar):
                i = i.expr
            sel.append(('int', _int_index(i, ax.size)))
    # value broadcasting against view_shape
    vcat = _category(value.dtype) if isinstance(value, STensor) else \
        3 if isinstance(value, complex) or (isinstance(value, SymScalar) and value.kind == 'complex') else \
        2 if isinstance(value, float) or (isinstance(value, SymScalar) and value.kind == 'float') else 0
    if vcat == 3 and _category(t.dtype) < 3 and not isinstance(value, STensor):
        # a python complex scalar cannot be stored into a real tensor (only complex TENSORS are cast silently)
        raise PyRaise('RuntimeError', 'value cannot be converted to type %s without overflow' % t.dtype, origin='torch')
    if vcat > _category(t.dtype) and vcat >= 2:
        if isinstance(value, STensor):
            _check_setitem_broadcast(value.shape, view_shape)
        # torch casts the value to the dtype of the destination (imaginary / fractional part silently discarded, a warning at most):
        # the written entries are not modelled -- the destination becomes opaque, its dtype stays what it was
        ex().notes.append(('lossy_cast', 'setitem casts a value of a higher dtype category into a %s tensor' % t.dtype))
        for m in t.storage.members:
            m._val = None
            m.ival = None
        t.ghost['lossy_cast'] = True
        return
    if isinstance(value, STensor):
        vs = value.shape
        if len(vs) > len(view_shape):
            # leading unit dims are allowed
            extra = vs[:len(vs) - len(view_shape)]
            for e in extra:
                require(to_int(e) == 1 if is_sym(e) else e == 1, 'RuntimeError', 'shape mismatch in setitem')
        bcast = []
        off = len(view_shape) - len(vs)
        for k, L in enumerate(view_shape):
            if k - off < 0:
                bcast.append(None)
                continue
            s = vs[k - off]
            if known_eq(s, L):
                bcast.append('eq')
            elif decide_eq(s, L):
                bcast.append('eq')
            else:
                require(to_int(s) == 1 if is_sym(s) else s == 1, 'RuntimeError', 'shape mismatch: value tensor cannot be broadcast to indexing result')
                bcast.append('one')

        def rhs(vidx):
            src = []
            lead = len(vs) - len(view_shape)
            for _ in range(max(lead, 0)):
                src.append(0)
            for k, b in enumerate(bcast):
                if b is None:
                    continue
                src.append(vidx[k] if b == 'eq' else 0)
            return value.at(src)
    else:
        sv = Term.of(value.real() if isinstance(value, SymScalar) else value)

        def rhs(vidx):
            return sv
    if t.ival is not None:
        # integer tensors: only `t[i0, i1, ...] = integer` keeps the integer values tracked
        vi = value.expr if isinstance(value, SymScalar) else value
        if isinstance(vi, STensor) and vi.ndim == 0 and vi.ival is not None:
            vi = vi.ival([])
        if all(s_[0] == 'int' for s_ in sel) and ((isinstance(vi, int) and not isinstance(vi, bool)) or (is_sym(vi) and vi.is_int())):
            old_iv = t.ival
            pos = [to_int(s_[1]) for s_ in sel]
            t.ival = lambda idx: z3.If(z3.And(*[to_int(flatten_ix(i, a.factors) if len(i) > 1 else i[0]) == p_ for i, a, p_ in zip(idx, t.axes, pos)]), to_int(vi), old_iv(idx))
            for m in t.storage.members:
                if m is not t and m.ival is not None:
                    m.ival = None        # aliases: integer values no longer tracked
        else:
            for m in t.storage.members:
                m.ival = None
    old = t._val
    if old is None:
        return

    def val(idx):
        conds = []
        vidx = []
        for (s, ix) in zip(sel, idx):
            if len(ix) != 1:
                raise OutOfSubset('setitem on a factored axis')
            j = ix[0]
            if s[0] == 'int':
                conds.append(to_int(j) == to_int(s[1]))
            else:
                _, start, length, step = s
                if not is_sym(step) and step == 1:
                    conds.append(z3.And(to_int(j) >= to_int(start), to_int(j) < to_int(start) + to_int(length)))
                    vidx.append(j - start)
                else:
                    q = (to_int(j) - to_int(start))
                    conds.append(z3.And(q >= 0, q % to_int(step) == 0, q / to_int(step) < to_int(length)))
                    vidx.append(q / to_int(step))
        conds = [c for c in conds if not z3.is_true(z3.simplify(c))]
        c = z3.And(*conds) if conds else True
        if c is not True:
            c = z3.simplify(c)
            if z3.is_true(c):
                c = True
            elif z3.is_false(c):
                c = False
        return ite(c, rhs(vidx), old(idx))
    t._val = val
    if isinstance(value, STensor):
        t.deps = t.deps | value.deps | (frozenset([value.tid]) if value.requires_grad and value.is_leaf else frozenset())
        t.is_leaf = not t.deps


# ------------------------------------------------------------------------------------------------
# element-wise arithmetic with broadcasting
# ------------------------------------------------------------------------------------------------

def _as_operand(x):
    """returns ('t', STensor) or ('s', Term, dtype-hint)"""
    if isinstance(x, STensor):
        return x
    return None


SINGLE = ('float16', 'float32', 'complex64')


def _trivial_scalar(op, s):
    """x op s is exact in every precision"""
    v = s.expr if isinstance(s, SymScalar) else s
    if isinstance(v, bool) or is_sym(v):
        return False
    if op in ('mul', 'div'):
        return v in (1, -1, 1.0, -1.0)
    if op in ('add', 'sub'):
        return v == 0
    return False


def _round_single(out, trivial):
    """double-precision scenario instances: an arithmetic result of single precision is rounded (uninterpreted rounding
    `round32_`), unless the operation is exact in every precision.  Only scalar-valued (sum free) entries are wrapped."""
    if not TRACK_NARROWING or out.dtype not in SINGLE or out._val is None or trivial:
        return out
    f = out._val

    def val(idx):
        t = f(idx)
        if t.is_simple():
            e = t.simple_expr()
            if z3.is_rational_value(e) or z3.is_int_value(e):
                return t
            return Term.of(terms.R32(e))
        return t
    out._val = val
    return out


def scalar_term(x):
    if isinstance(x, SymScalar):
        return Term.of(x.real())
    if isinstance(x, complex):
        raise OutOfSubset('concrete complex constant')
    if isinstance(x, (int, float)) or is_sym(x):
        return Term.of(x)
    raise OutOfSubset('scalar of type %s' % type(x).__name__)


def broadcast_axes(a, b):
    """returns (axes, mapa, mapb): map functions from result idx to operand idx"""
    na, nb = a.ndim, b.ndim
    n = max(na, nb)
    axes = []
    ma = []
    mb = []
    for k in range(n):
        ka = k - (n - na)
        kb = k - (n - nb)
        xa = a.axes[ka] if ka >= 0 else None
        xb = b.axes[kb] if kb >= 0 else None
        if xa is None:
            axes.append(xb); ma.append(None); mb.append('id')
        elif xb is None:
            axes.append(xa); ma.append('id'); mb.append(None)
        else:
            if known_eq(xa.size, xb.size) or decide_eq(xa.size, xb.size):
                if _same_factors(xa, xb):
                    axes.append(xa); ma.append('id'); mb.append('id')
                else:
                    axes.append(xa); ma.append('id'); mb.append(('reflat', xa, xb))
            elif known_eq(xa.size, 1) or decide_eq(xa.size, 1):
                axes.append(xb); ma.append('zero'); mb.append('id')
            elif known_eq(xb.size, 1) or decide_eq(xb.size, 1):
                axes.append(xa); ma.append('id'); mb.append('zero')
            else:
                raise PyRaise('RuntimeError', 'The size of tensor a must match the size of tensor b at non-singleton dimension %d' % k, origin='torch')

    def mk(t, m, nt):
        def f(idx):
            out = []
            for k in range(n):
                kk = k - (n - nt)
                if kk < 0:
                    continue
                mm = m[k]
                if mm == 'id':
                    out.append(idx[k])
                elif mm == 'zero':
                    out.append((0,) * len(t.axes[kk].factors))
                else:
                    _, xa, xb = mm
                    out.append(unflatten(flatten_ix(idx[k], xa.factors), xb.factors))
            return out
        return f
    return axes, mk(a, ma, na), mk(b, mb, nb)


def _same_factors(xa, xb):
    if xa is xb or xa.factors == xb.factors:
        return True
    fa = [f for f in xa.factors]
    fb = [f for f in xb.factors]
    if len(fa) != len(fb):
        return False
    return all(known_eq(p.size, q.size) for p, q in zip(fa, fb))


_OPS = {
    'add': lambda x, y: x + y,
    'sub': lambda x, y: x - y,
    'mul': lambda x, y: x * y,
    'div': lambda x, y: x / y,
}


def binary(op, a, b):
    f = _OPS[op]
    if isinstance(a, STensor) and isinstance(b, STensor):
        axes, ma, mb = broadcast_axes(a, b)
        if a.ndim == 0 and b.ndim > 0:
            dt = _zero_dim_result(b.dtype, a.dtype)
        elif b.ndim == 0 and a.ndim > 0:
            dt = _zero_dim_result(a.dtype, b.dtype)
        else:
            dt = promote(a.dtype, b.dtype)
        if op == 'div' and dt in INTS + ('bool',):
            dt = DEFAULT_FLOAT
        val = None
        if a._val is not None and b._val is not None:
            def val(idx):
                return f(a.at(ma(idx)), b.at(mb(idx)))
        out = STensor(axes, dt, val, lib=a.lib)
        if dt in INTS and a.ival is not None and b.ival is not None and op in ('add', 'sub', 'mul'):
            fi = {'add': lambda x, y: x + y, 'sub': lambda x, y: x - y, 'mul': lambda x, y: x * y}[op]
            out.ival = lambda idx: fi(int_entry(a, ma(idx)), int_entry(b, mb(idx)))
        _round_single(out, False)
        return derive(out, a, b)
    if isinstance(a, STensor):
        t, s, left = a, b, True
    else:
        t, s, left = b, a, False
    st = scalar_term(s)
    dt = scalar_dtype_promote(t.dtype, s)
    if op == 'div' and dt in INTS + ('bool',):
        dt = DEFAULT_FLOAT
    val = None
    if t._val is not None:
        if left:
            def val(idx):
                return f(t.at(idx), st)
        else:
            def val(idx):
                return f(st, t.at(idx))
    out = STensor(list(t.axes), dt, val, lib=t.lib, contiguous=t.contiguous)
    if dt in INTS and t.ival is not None and op in ('add', 'sub', 'mul'):
        si = s.expr if isinstance(s, SymScalar) else s
        if (isinstance(si, int) and not isinstance(si, bool)) or (is_sym(si) and si.is_int()):
            fi = {'add': lambda x, y: x + y, 'sub': lambda x, y: x - y, 'mul': lambda x, y: x * y}[op]
            out.ival = (lambda idx: fi(t.ival(idx), to_int(si))) if left else (lambda idx: fi(to_int(si), t.ival(idx)))
    _round_single(out, _trivial_scalar(op, s) and (left or op != 'div'))
    # multiplying by a scalar scales fro2 ; keep only what is certainly right
    return derive(out, t)


def _category(dt):
    return 3 if dt in COMPLEX else 2 if dt in FLOATS else 1 if dt in INTS else 0


def _zero_dim_result(dim_dt, zero_dt):
    """result dtype of (tensor with dim > 0) op (0-d tensor): c10 combine_categories"""
    cd, cz = _category(dim_dt), _category(zero_dt)
    if cd >= cz:
        return dim_dt
    if cd == 2 and cz == 3:
        # a float tensor with a complex 0-d tensor keeps its own width
        if dim_dt == 'float16':
            raise OutOfSubset('float16 tensor with a complex 0-d tensor (complex32)')
        return 'complex128' if dim_dt == 'float64' else 'complex64'
    return promote(dim_dt, zero_dt)


def inplace(op, t, other):
    """t op= other"""
    if t.requires_grad and t.is_leaf:
        raise PyRaise('RuntimeError', 'a leaf Variable that requires grad is being used in an in-place operation', origin='torch')
    ex().record_write(t, 'inplace_' + op)
    old = STensor(list(t.axes), t.dtype, t._val, lib=t.lib, ival=t.ival)
    old.deps, old.requires_grad, old.is_leaf = t.deps, t.requires_grad, t.is_leaf
    if other is t:
        other = old
    r = binary(op, old, other)
    # result shape must equal t's shape
    if len(r.axes) != len(t.axes):
        raise PyRaise('RuntimeError', 'output with shape doesn\'t match the broadcast shape', origin='torch')
    for x, y in zip(r.axes, t.axes):
        if not known_eq(x.size, y.size):
            require(to_int(x.size) == to_int(y.size), 'RuntimeError', 'output with shape doesn\'t match the broadcast shape')
    if _category(r.dtype) > _category(t.dtype):
        raise PyRaise('RuntimeError', 'result type can\'t be cast to the desired output type', origin='torch')
    t._val = r._val
    # the integer payload follows the write (aliases lose theirs, as in setitem)
    t.ival = r.ival if r.dtype == t.dtype else None
    for m in t.storage.members:
        if m is not t:
            m.ival = None
    t.deps = r.deps
    t.is_leaf = not t.deps
    t.ghost = {}
    return t


def neg(t):
    val = None
    if t._val is not None:
        def val(idx):
            return -t.at(idx)
    out = STensor(list(t.axes), t.dtype, val, lib=t.lib, contiguous=t.contiguous)
    for k in ('fro2', 'orth_cols', 'orth_rows'):
        if k in t.ghost:
            out.ghost[k] = t.ghost[k]
    return derive(out, t)


def conj(t):
    if t.dtype not in COMPLEX:
        return t           # torch.conj of a real tensor returns the tensor itself
    val = None
    if t._val is not None:
        def val(idx):
            return t.at(idx).conj()
    out = STensor(list(t.axes), t.dtype, val, lib=t.lib, contiguous=t.contiguous)
    for k in ('fro2', 'orth_cols', 'orth_rows'):
        if k in t.ghost:
            out.ghost[k] = t.ghost[k]
    derive(out, t, view_of=t)
    # torch.conj is lazy: the result is a view with the conjugate bit set (a second conj clears it)
    out.conj_bit = not getattr(t, 'conj_bit', False)
    return out


def unary_fn(t, fn):
    val = None
    if t._val is not None:
        def val(idx):
            return t.at(idx).wrapped(fn)
    dt = t.dtype
    if fn == 'abs' and dt in COMPLEX:
        dt = 'float64' if dt == 'complex128' else 'float32'
    if fn == 'sqrt' and dt in INTS + ('bool',):
        dt = DEFAULT_FLOAT          # torch.sqrt of an integer tensor is float32
    out = STensor(list(t.axes), dt, val, lib=t.lib)
    return derive(out, t)


def power(t, p):
    if isinstance(p, int) and not isinstance(p, bool) and p == 2:
        if t.ndim == 0 and 'norm_sq_val' in t.ghost:
            # (sqrt of a non-negative sum) ** 2
            out = STensor([], t.dtype, t.ghost['norm_sq_val'], lib=t.lib)
            if 'norm_fro2' in t.ghost:
                out.ghost['scalar'] = t.ghost['norm_fro2']
            out.ghost['norm_of'] = t.ghost.get('norm_of')
            out.ghost['squared_norm'] = True
            return derive(out, t)
        return binary('mul', t, t)
    if isinstance(p, (int, float)):
        # value-abstract result (only shape / dtype / autograd tags are tracked)
        dt = t.dtype if t.dtype in FLOATS + COMPLEX or (isinstance(p, int) and p >= 0 and t.dtype in INTS) else DEFAULT_FLOAT
        out = STensor(list(t.axes), dt, None, lib=t.lib)
        return derive(out, t)
    raise OutOfSubset('tensor ** %r' % (p,))


# ------------------------------------------------------------------------------------------------
# pad / cat / tile / diag / diagonal
# ------------------------------------------------------------------------------------------------

def pad(t, pads, value=0):
    pads = list(pads)
    if len(pads) % 2 != 0:
        raise PyRaise('RuntimeError', 'Padding length must be divisible by 2', origin='torch')
    if len(pads) // 2 > t.ndim:
        raise PyRaise('RuntimeError', 'Padding length too large', origin='torch')
    n = t.ndim
    lo = [0] * n
    hi = [0] * n
    for k in range(len(pads) // 2):
        ax = n - 1 - k
        a, b = pads[2 * k], pads[2 * k + 1]
        if isinstance(a, SymScalar):
            a = a.expr
        if isinstance(b, SymScalar):
            b = b.expr
        for q in (a, b):
            if isinstance(q, (float, STensor)):
                raise PyRaise('TypeError', 'pad should be a sequence of ints', origin='torch')
            if is_sym(q):
                if not ex().pc.implied(q >= 0):
                    raise OutOfSubset('possibly negative padding')
            elif q < 0:
                raise OutOfSubset('negative padding')
        lo[ax], hi[ax] = a, b
    axes = []
    padded = []
    for k in range(n):
        if not is_sym(lo[k]) and not is_sym(hi[k]) and lo[k] == 0 and hi[k] == 0:
            axes.append(t.axes[k])
            padded.append(False)
        else:
            axes.append(Axis(sz(lo[k] + t.axes[k].size + hi[k])))
            padded.append(True)
    if t.dtype in INTS + ('bool',) and (isinstance(value, float) or (isinstance(value, SymScalar) and value.kind != 'int')
                                        or (isinstance(value, STensor) and value.dtype not in INTS + ('bool',))):
        raise OutOfSubset('pad of an integer tensor with a non-integer value (torch truncates)')
    vt = scalar_term(value) if not isinstance(value, STensor) else value.at([])

    def val(idx):
        conds = []
        src = []
        for k in range(n):
            if not padded[k]:
                src.append(idx[k])
                continue
            j = to_int(idx[k][0])
            l = to_int(lo[k])
            conds.append(z3.And(j >= l, j < l + to_int(t.axes[k].size)))
            src.append(z3.simplify(j - l))
        c = z3.And(*conds) if conds else True
        return ite(c, t.at(src), vt)
    out = STensor(axes, t.dtype, val if t._val else None, lib=t.lib)
    if 'fro2' in t.ghost and not padded.count(True):
        out.ghost['fro2'] = t.ghost['fro2']
    return derive(out, t)


def cat(tensors, dim=0):
    tensors = list(tensors)
    if not tensors:
        raise PyRaise('ValueError', 'torch.cat(): expected a non-empty list of Tensors', origin='torch')
    for t in tensors:
        if not isinstance(t, STensor):
            raise PyRaise('TypeError', 'expected Tensor as element of sequence', origin='torch')
    for t in tensors:
        if t.ndim == 0:
            raise PyRaise('RuntimeError', 'zero-dimensional tensor cannot be concatenated', origin='torch')
    if len(set(t.ndim for t in tensors)) > 1:
        for t in tensors:
            s0 = t.axes[0].size
            if t.ndim == 1 and (known_eq(s0, 0) or (is_sym(s0) and not ex().pc.implied(to_int(s0) > 0))):
                raise OutOfSubset('cat with a possibly empty 1-D tensor (legacy behaviour: torch skips it)')
    n = tensors[0].ndim
    d = norm_dim(dim, n)
    for t in tensors[1:]:
        if t.ndim != n:
            raise PyRaise('RuntimeError', 'Tensors must have same number of dimensions', origin='torch')
        for k in range(n):
            if k != d and not known_eq(t.axes[k].size, tensors[0].axes[k].size):
                require(to_int(t.axes[k].size) == to_int(tensors[0].axes[k].size), 'RuntimeError',
                        'Sizes of tensors must match except in dimension %d' % d)
    offs = [0]
    for t in tensors:
        offs.append(offs[-1] + t.axes[d].size)
    axes = list(tensors[0].axes)
    for a in range(n):
        # the other axes: keep the finest factor structure among the inputs (their sizes agree)
        if a != d:
            axes[a] = max([t.axes[a] for t in tensors], key=lambda x: len([f for f in x.factors if not known_eq(f.size, 1)]))
    axes[d] = Axis(sz(offs[-1]))
    dt = tensors[0].dtype
    for t in tensors[1:]:
        dt = promote(dt, t.dtype)
    opaque = any(t._val is None for t in tensors)

    def conv(k, idx):
        """index of tensor k for the result index idx (the other axes may be factored differently: same factor sizes -> positional)"""
        src = list(idx)
        for a in range(n):
            if a == d or tensors[k].axes[a] is axes[a]:
                continue
            f0, fk = axes[a].factors, tensors[k].axes[a].factors
            if len(f0) == len(fk) and all(known_eq(x.size, y.size) for x, y in zip(f0, fk)):
                continue
            al = align_factors(idx[a], f0, fk)
            src[a] = al if al is not None else (flatten_ix(idx[a], f0) if len(f0) > 1 else idx[a][0])
        src[d] = z3.simplify(to_int(idx[d][0]) - to_int(offs[k]))
        return src

    def val(idx):
        j = to_int(idx[d][0])
        r = None
        for k in range(len(tensors) - 1, -1, -1):
            if known_eq(tensors[k].axes[d].size, 0):
                continue
            v = tensors[k].at(conv(k, idx))
            if r is None:
                r = v
            else:
                r = ite(j < to_int(offs[k + 1]), v, r)
        return r if r is not None else Term.zero()
    iv = None
    if all(t.ival is not None for t in tensors):
        def iv(idx):
            j = to_int(idx[d][0])
            r = None
            for k in range(len(tensors) - 1, -1, -1):
                if known_eq(tensors[k].axes[d].size, 0):
                    continue
                if not is_sym(idx[d][0]):
                    # concrete position: pick the block directly when the offsets are concrete too
                    lo_, hi_ = offs[k], offs[k + 1]
                    if not is_sym(lo_) and not is_sym(hi_):
                        if lo_ <= idx[d][0] < hi_:
                            return int_entry(tensors[k], conv(k, idx))
                        continue
                v = int_entry(tensors[k], conv(k, idx))
                r = v if r is None else z3.If(j < to_int(offs[k + 1]), v, r)
            return r if r is not None else z3.IntVal(0)
    out = STensor(axes, dt, None if opaque else val, lib=tensors[0].lib, ival=iv)
    return derive(out, *tensors)


def tile(t, reps):
    reps = list(reps)
    if len(reps) < t.ndim:
        reps = [1] * (t.ndim - len(reps)) + reps
    if len(reps) > t.ndim:
        for _ in range(len(reps) - t.ndim):
            t = unsqueeze(t, 0)
    axes = []
    how = []
    for ax, r in zip(t.axes, reps):
        if isinstance(r, SymScalar):
            r = r.expr
        if is_sym(r):
            require(r >= 0, 'RuntimeError', 'Trying to create tensor with negative dimension')
        elif r < 0:
            raise PyRaise('RuntimeError', 'Trying to create tensor with negative dimension', origin='torch')
        if not is_sym(r) and r == 1:
            axes.append(ax); how.append('id')
        elif known_eq(ax.size, 1):
            axes.append(Axis(sz(r))); how.append('zero')
        else:
            axes.append(Axis(sz(ax.size * r))); how.append(('mod', ax.size))

    def val(idx):
        src = []
        for k, h in enumerate(how):
            if h == 'id':
                src.append(idx[k])
            elif h == 'zero':
                src.append((0,) * len(t.axes[k].factors))
            else:
                src.append(to_int(idx[k][0]) % to_int(h[1]))
        return t.at(src)
    out = STensor(axes, t.dtype, val if t._val else None, lib=t.lib)
    return derive(out, t)


def diag(t):
    if t.ndim == 1:
        ax = t.axes[0]
        axes = [Axis(ax.size), Axis(ax.size)]

        def val(idx):
            i, j = idx[0][0], idx[1][0]
            c = to_int(i) == to_int(j)
            return ite(z3.simplify(c) if is_sym(c) else c, t.at([i]), 0)
        out = STensor(axes, t.dtype, val if t._val else None, lib=t.lib)
        if 'svals' in t.ghost:
            out.ghost['diag_of'] = t
        from . import gauge
        gauge.on_diag(t, out)
        return derive(out, t)
    if t.ndim == 2:
        n0, n1 = t.axes[0].size, t.axes[1].size
        if known_eq(n0, n1):
            m = n0
        else:
            m = sz(z3.If(to_int(n0) < to_int(n1), to_int(n0), to_int(n1)))
        out = STensor([Axis(m)], t.dtype, (lambda idx: t.at([idx[0][0], idx[0][0]])) if t._val else None, lib=t.lib)
        return derive(out, t)          # torch.diag of a matrix copies (diagonal_copy); torch.diagonal is the view
    raise PyRaise('RuntimeError', 'diag(): Supports 1D or 2D tensors', origin='torch')


def diagonal(t, offset=0, dim1=0, dim2=1):
    if offset != 0:
        raise OutOfSubset('diagonal offset')
    n = t.ndim
    d1, d2 = norm_dim(dim1, n), norm_dim(dim2, n)
    if d1 == d2:
        raise PyRaise('RuntimeError', 'diagonal dimensions cannot be identical', origin='torch')
    n1, n2 = t.axes[d1].size, t.axes[d2].size
    if known_eq(n1, n2):
        m = n1
    else:
        m = sz(z3.If(to_int(n1) < to_int(n2), to_int(n1), to_int(n2)))
        if is_sym(m):
            if ex().pc.implied(to_int(n1) <= to_int(n2)):
                m = n1
            elif ex().pc.implied(to_int(n2) <= to_int(n1)):
                m = n2
    rest = [k for k in range(n) if k not in (d1, d2)]
    axes = [t.axes[k] for k in rest] + [Axis(m)]

    def val(idx):
        src = [None] * n
        for j, k in enumerate(rest):
            src[k] = idx[j]
        src[d1] = idx[-1][0]
        src[d2] = idx[-1][0]
        return t.at(src)
    out = STensor(axes, t.dtype, val if t._val else None, lib=t.lib, contiguous=False)
    return derive(out, t, view_of=t)


# ------------------------------------------------------------------------------------------------
# contractions
# ------------------------------------------------------------------------------------------------

def _letter_axis(cands):
    """choose the axis describing a letter among operands: first one not known to be of size 1"""
    for ax in cands:
        if not known_eq(ax.size, 1):
            return ax
    return cands[0]


def contract(operands, subs, out_sub, errcls='RuntimeError', contiguous=False):
    """generic einsum core: operands: list of STensor ; subs: list of list of labels ; out_sub: list of labels.
    labels are hashable (letters or ('e', k) for ellipsis dims).
    errcls: class of the equation / size errors (RuntimeError for ATen, ValueError when opt_einsum validates)"""
    label_axes = {}
    for t, sub in zip(operands, subs):
        if len(sub) != t.ndim:
            raise PyRaise(errcls, 'einsum(): the number of subscripts does not match the number of dimensions', origin='torch')
        for lab, ax in zip(sub, t.axes):
            label_axes.setdefault(lab, []).append(ax)
    chosen = {}
    for lab, cands in label_axes.items():
        ax = _letter_axis(cands)
        for c in cands:
            if c is ax:
                continue
            if known_eq(c.size, ax.size):
                continue
            if known_eq(c.size, 1):
                continue
            # symbolic: equal, or one of them is 1 (einsum broadcasts size-1 dims), else raise
            if decide_eq(c.size, ax.size):
                continue
            if decide_eq(c.size, 1):
                continue
            if decide_eq(ax.size, 1):
                ax = c
                continue
            raise PyRaise(errcls, 'einsum(): operands do not broadcast with remapped shapes', origin='torch')
        chosen[lab] = ax
    for lab in out_sub:
        if lab not in chosen:
            raise PyRaise(errcls, 'einsum(): output subscript does not appear in any input', origin='torch')
    if len(set(out_sub)) != len(out_sub):
        raise PyRaise(errcls, 'einsum(): output subscript appears more than once', origin='torch')
    summed = [lab for lab in chosen if lab not in out_sub]
    axes = [chosen[lab] for lab in out_sub]
    dt = operands[0].dtype
    for t in operands[1:]:
        dt = promote(dt, t.dtype)
    if any(t.dtype != operands[0].dtype for t in operands):
        # a contraction over a label shared by two operands is a bmm / tensordot, which requires equal dtypes;
        # outer / element-wise products and sums over size-1 dims are multiplications and promote
        shared = [lab for lab in summed if len(label_axes[lab]) > 1]

        def participants(lab):
            return [t for t, sub in zip(operands, subs) if lab in sub and not known_eq(t.axes[sub.index(lab)].size, 1)]
        if shared and len(operands) > 2:
            # pairwise evaluation: intermediate products are promoted, so whether a bmm sees two dtypes depends on the path
            raise OutOfSubset('mixed dtypes in a multi-operand contraction: depends on the contraction path')
        if any(len(participants(lab)) > 1 for lab in shared):
            raise PyRaise('RuntimeError', 'einsum(): operands of a contraction must have the same dtype', origin='torch')
        if shared and errcls == 'ValueError':
            raise OutOfSubset('mixed dtypes in opt_einsum.contract over size-1 dims: depends on the backend call chosen')
    opaque = any(t._val is None for t in operands)

    def operand_index(t, sub, env):
        idx = []
        for lab, ax in zip(sub, t.axes):
            ref = chosen[lab]
            tup = env[lab]
            if ax is ref or ax.factors == ref.factors:
                idx.append(tup)
            elif known_eq(ax.size, 1) and not known_eq(ref.size, 1):
                idx.append((0,) * len(ax.factors))
            elif len(ax.factors) == len(ref.factors) and all(known_eq(p.size, q.size) for p, q in zip(ax.factors, ref.factors)):
                idx.append(tup)
            else:
                ex().note_unproved('factor_order', 'contraction over axes with different factor structure %s vs %s' % (ax.factors, ref.factors))
                idx.append(unflatten(flatten_ix(tup, ref.factors), ax.factors))
        return idx

    def val(idx):
        env = {}
        for lab, tup in zip(out_sub, idx):
            env[lab] = tup
        bound = []
        for lab in summed:
            ax = chosen[lab]
            vs = tuple(fresh_int('s') for _ in ax.factors)
            env[lab] = vs
            for v, f in zip(vs, ax.factors):
                bound.append((v, f.size))
        r = None
        for t, sub in zip(operands, subs):
            x = t.at(operand_index(t, sub, env))
            r = x if r is None else r * x
        for v, b in bound:
            r = r.summed(v, b)
        return r
    # the result of einsum / tensordot is in general a permuted view of a bmm result: not known to be contiguous
    out = STensor(axes, dt, None if opaque else val, lib=operands[0].lib, contiguous=contiguous)
    return derive(out, *operands)


def einsum(eq, *operands, validated_by_opt_einsum=False):
    if len(operands) == 1 and isinstance(operands[0], (list, tuple)):
        operands = tuple(operands[0])
    if not isinstance(eq, str):
        raise OutOfSubset('einsum sublist format')
    for t in operands:
        if not isinstance(t, STensor):
            raise PyRaise('TypeError', 'einsum(): operands must be tensors', origin='torch')
    eq = eq.replace(' ', '')
    if '->' in eq:
        lhs, rhs = eq.split('->')
    else:
        lhs, rhs = eq, None
    parts = lhs.split(',')
    # opt_einsum.contract always, and torch.einsum for three or more operands (torch.backends.opt_einsum enabled),
    # validate the equation in python (opt_einsum): ValueError instead of ATen's RuntimeError
    errcls = 'ValueError' if validated_by_opt_einsum or len(operands) >= 3 else 'RuntimeError'
    if len(parts) != len(operands):
        raise PyRaise(errcls, 'einsum(): more operands were provided than specified in the equation', origin='torch')
    subs = []
    ell_n = 0
    for p, t in zip(parts, operands):
        if '...' in p:
            a, b = p.split('...')
            k = t.ndim - len(a) - len(b)
            if k < 0:
                raise PyRaise(errcls, 'einsum(): the number of subscripts is more than the dimensions', origin='torch')
            ell_n = max(ell_n, k)
            subs.append((list(a), k, list(b)))
        else:
            subs.append((list(p), None, []))
    fsubs = []
    for (a, k, b) in subs:
        if k is None:
            fsubs.append(a)
        else:
            fsubs.append(a + [('e', ell_n - k + j) for j in range(k)] + b)
    if rhs is None:
        cnt = {}
        for s in fsubs:
            for l in s:
                cnt[l] = cnt.get(l, 0) + 1
        out_sub = [('e', j) for j in range(ell_n)] + sorted([l for l in cnt if isinstance(l, str) and cnt[l] == 1])
    else:
        if '...' in rhs:
            a, b = rhs.split('...')
            out_sub = list(a) + [('e', j) for j in range(ell_n)] + list(b)
        else:
            out_sub = list(rhs)
            if ell_n:
                raise PyRaise(errcls, 'einsum(): ellipsis dims must appear in the output', origin='torch')
    for s in fsubs:
        if len(set(s)) != len(s):
            raise OutOfSubset('einsum with repeated subscript in one operand')
    if len(operands) == 1 and sorted(map(repr, out_sub)) == sorted(map(repr, fsubs[0])):
        # a pure permutation of one operand is returned as a view
        return permute(operands[0], [fsubs[0].index(l) for l in out_sub])
    return contract(list(operands), fsubs, out_sub, errcls)


def tensordot(a, b, dims):
    if isinstance(dims, int):
        da = list(range(a.ndim - dims, a.ndim))
        db = list(range(dims))
    else:
        da, db = list(dims[0]), list(dims[1])
    if len(da) != len(db):
        raise PyRaise('RuntimeError', 'both dimension lists should have same length', origin='torch')
    da = [norm_dim(d, a.ndim) for d in da]
    db = [norm_dim(d, b.ndim) for d in db]
    if len(set(da)) != len(da) or len(set(db)) != len(db):
        raise PyRaise('RuntimeError', 'dim appears multiple times in the list of dims', origin='torch')
    if a.dtype != b.dtype:
        raise PyRaise('RuntimeError', 'both inputs should have same dtype', origin='torch')
    suba = [('a', k) for k in range(a.ndim)]
    subb = [('b', k) for k in range(b.ndim)]
    for k, (x, y) in enumerate(zip(da, db)):
        # sizes must match, except that a contracted dimension of size 1 is broadcast (torch sums the other operand
        # over its dimension): exactly the size-1 rule of contract()
        sa_, sb_ = a.axes[x].size, b.axes[y].size
        if not known_eq(sa_, sb_) and not known_eq(sa_, 1) and not known_eq(sb_, 1):
            require(z3.Or(to_int(sa_) == to_int(sb_), to_int(sa_) == 1, to_int(sb_) == 1), 'RuntimeError',
                    'contracted dimensions need to match')
        suba[x] = ('c', k)
        subb[y] = ('c', k)
    out = [s for s in suba if s[0] == 'a'] + [s for s in subb if s[0] == 'b']
    return contract([a, b], [suba, subb], out, contiguous=True)


def matmul(a, b):
    if a.dtype != b.dtype and a.ndim in (1, 2) and b.ndim in (1, 2):
        raise PyRaise('RuntimeError', 'matmul: expected both operands to have the same dtype', origin='torch')
    if a.ndim == 2 and b.ndim == 2:
        if not known_eq(a.axes[1].size, b.axes[0].size):
            require(to_int(a.axes[1].size) == to_int(b.axes[0].size), 'RuntimeError', 'mat1 and mat2 shapes cannot be multiplied')
        if a.ghost.get('perm') and b.ival is not None:
            # (permutation matrix) @ B: the rows of the product are the rows of B in some order
            sigma = opaque_int_tensor([a.axes[0]], 0, b.axes[0].size, 'sigma')
            out = opaque_with_axes([a.axes[0], b.axes[1]], promote(a.dtype, b.dtype), 'permuted')
            out._val = None
            out.ival = lambda idx: b.ival([b._norm_ix(b.axes[0], sigma.ival([idx[0]])), idx[1]])
            return derive(out, a, b)
        out = contract([a, b], [['i', 'k'], ['k', 'j']], ['i', 'j'], contiguous=True)
        _matmul_ghost(a, b, out)
        return out
    if a.ndim == 2 and b.ndim == 1:
        if not known_eq(a.axes[1].size, b.axes[0].size):
            require(to_int(a.axes[1].size) == to_int(b.axes[0].size), 'RuntimeError', 'size mismatch')
        return contract([a, b], [['i', 'k'], ['k']], ['i'], contiguous=True)
    if a.ndim == 1 and b.ndim == 2:
        if not known_eq(a.axes[0].size, b.axes[0].size):
            require(to_int(a.axes[0].size) == to_int(b.axes[0].size), 'RuntimeError', 'size mismatch')
        return contract([a, b], [['k'], ['k', 'j']], ['j'], contiguous=True)
    if a.ndim == 1 and b.ndim == 1:
        if not known_eq(a.axes[0].size, b.axes[0].size):
            require(to_int(a.axes[0].size) == to_int(b.axes[0].size), 'RuntimeError', 'size mismatch')
        return contract([a, b], [['k'], ['k']], [], contiguous=True)
    raise OutOfSubset('batched matmul')


def _matmul_ghost(a, b, out):
    """gauge-domain bookkeeping: products with matrices having orthonormal columns / rows keep fro2"""
    ga, gb = a.ghost, b.ghost
    if ga.get('orth_cols') and 'fro2' in gb:
        out.ghost['fro2'] = gb['fro2']          # ||Q B||_F = ||B||_F when Q has orthonormal columns
    if gb.get('orth_rows') and 'fro2' in ga:
        out.ghost['fro2'] = ga['fro2']          # ||A Q^H||... rows orthonormal: ||A V||_F = ||A||_F
    out.ghost['prod'] = (a, b)
    from . import gauge
    gauge.on_matmul(ex(), a, b, out)


def sum_(t, dim=None, keepdim=False):
    n = t.ndim
    if dim is None and keepdim:
        raise PyRaise('TypeError', 'sum() received an invalid combination of arguments (keepdim without dim)', origin='torch')
    if isinstance(dim, (list, tuple)) and len(dim) == 0:
        dim = None            # an empty list of dims means all dims
        if keepdim:
            raise OutOfSubset('sum(dim=[], keepdim=True)')
    if dim is None:
        dims = list(range(n))
    elif n == 0:
        for d in (dim if isinstance(dim, (list, tuple)) else [dim]):
            if d not in (0, -1):
                raise PyRaise('IndexError', 'Dimension out of range', origin='torch')
        dims = []             # a 0-d tensor accepts dim 0 / -1
    else:
        dims = dim if isinstance(dim, (list, tuple)) else [dim]
        dims = [norm_dim(d, n) for d in dims]
        if len(set(dims)) != len(dims):
            raise PyRaise('RuntimeError', 'dim appears multiple times in the list of dims', origin='torch')
    keep = [k for k in range(n) if k not in dims]
    if keepdim:
        axes = [Axis(1) if k in dims else t.axes[k] for k in range(n)]
    else:
        axes = [t.axes[k] for k in keep]

    def val(idx):
        src = [None] * n
        bound = []
        if keepdim:
            for k in keep:
                src[k] = idx[k]
        else:
            for j, k in enumerate(keep):
                src[k] = idx[j]
        for k in dims:
            vs = tuple(fresh_int('s') for _ in t.axes[k].factors)
            src[k] = vs
            for v, f in zip(vs, t.axes[k].factors):
                bound.append((v, f.size))
        r = t.at(src)
        for v, b in bound:
            r = r.summed(v, b)
        return r
    dt = t.dtype if t.dtype not in ('bool', 'int32') else 'int64'
    out = STensor(axes, dt, val if t._val else None, lib=t.lib)
    return derive(out, t)


def fro_norm(t):
    """tn.linalg.norm(t): 0-d tensor sqrt(sum |t|^2)"""
    if t.dtype not in FLOATS + COMPLEX:
        raise PyRaise('RuntimeError', 'linalg.vector_norm: Expected a floating point or complex tensor as input', origin='torch')
    val = None
    if t._val is not None:
        def val(idx):
            bound = []
            src = []
            for ax in t.axes:
                vs = tuple(fresh_int('s') for _ in ax.factors)
                src.append(vs)
                for v, f in zip(vs, ax.factors):
                    bound.append((v, f.size))
            x = t.at(src)
            r = x * x.conj()
            for v, b in bound:
                r = r.summed(v, b)
            return r.wrapped('sqrt')
    dt = t.dtype
    if dt in COMPLEX:
        dt = 'float64' if dt == 'complex128' else 'float32'
    out = STensor([], dt, val, lib=t.lib)
    from . import gauge
    gauge.norm_scalar(ex(), t, out)
    out.ghost['norm_of'] = t
    if t._val is not None:
        def sq(idx, _val=val):
            w = _val(idx)
            return Term(w.monos, w.wrap[:-1]) if w.wrap and w.wrap[-1] == 'sqrt' else w * w
        out.ghost['norm_sq_val'] = sq
    return derive(out, t)


def kron2(a, b):
    if a.ndim != b.ndim:
        raise OutOfSubset('kron of different ndim')
    axes = []
    for xa, xb in zip(a.axes, b.axes):
        axes.append(Axis(sz(xa.size * xb.size), list(xa.factors) + list(xb.factors)))

    def val(idx):
        ia = [tuple(t[:len(xa.factors)]) for t, xa in zip(idx, a.axes)]
        ib = [tuple(t[len(xa.factors):]) for t, xa in zip(idx, a.axes)]
        return a.at(ia) * b.at(ib)
    iv = None
    if a.ival is not None and b.ival is not None:
        def iv(idx):
            ia = [tuple(t[:len(xa.factors)]) for t, xa in zip(idx, a.axes)]
            ib = [tuple(t[len(xa.factors):]) for t, xa in zip(idx, a.axes)]
            return a.ival(ia) * b.ival(ib)
    out = STensor(axes, promote(a.dtype, b.dtype), val if (a._val and b._val) else None, ival=iv)
    return derive(out, a, b)
