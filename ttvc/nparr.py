"""
Array-quantified domain for 1-D numpy vectors of symbolic length (used for _decomposition.rank_chop):
a vector is a pair (n, f) with f : Int -> Real given as a python callable producing z3 terms.
The numpy functions used by rank_chop get contracts with quantified axioms (assumed, op table):
  s[::-1], np.abs, **2, np.cumsum (prefix sums, recursively axiomatised), comparison with a scalar,
  np.argmax on booleans (first True, else 0), s.size, s[-1], np.linalg.norm(s) == 0  <=>  all entries are 0.
"""
import itertools
import z3
from .terms import fresh_int, fresh_real, OutOfSubset
from .tensors import PyRaise, SymScalar, is_sym, to_int

_cnt = itertools.count()


class NPArr(object):
    def __init__(self, n, f, kind='real', name=None):
        self.n = n
        self.f = f
        self.kind = kind      # 'real' | 'bool'
        self.name = name
        self.ghost = {}

    def at(self, j):
        return self.f(to_int(j))


def sym_vector(ex, name, nonneg=True):
    n = z3.Int(name + '_n')
    ex.assume(n >= 1)
    F = z3.Function(name, z3.IntSort(), z3.RealSort())
    if nonneg:
        j = z3.Int('j!nn')
        ex.assume(z3.ForAll([j], F(j) >= 0, patterns=[F(j)]))
    a = NPArr(n, lambda j: F(j), name=name)
    a.ghost['decl'] = F
    return a


def reverse(a):
    n = a.n
    return NPArr(n, lambda j: a.f(to_int(n) - 1 - j), a.kind)


def elementwise(a, g, kind=None):
    return NPArr(a.n, lambda j: g(a.f(j)), kind or a.kind)


def np_abs(a):
    return elementwise(a, lambda x: z3.If(x < 0, -x, x))


SQ = z3.Function('sq', z3.RealSort(), z3.RealSort())


def sq_axioms(ex):
    """the real square, abstracted by an uninterpreted function with the only facts the proofs use (sound: x*x satisfies them)"""
    if getattr(ex, '_sq_axioms', False):
        return
    ex._sq_axioms = True
    x = z3.Real('x!sq')
    ex.assume(z3.ForAll([x], z3.And(SQ(x) >= 0, (SQ(x) == 0) == (x == 0), SQ(-x) == SQ(x)), patterns=[SQ(x)]))


def square(a):
    return elementwise(a, lambda x: SQ(x))


def cumsum(ex, a):
    C = z3.Function('cumsum!%d' % next(_cnt), z3.IntSort(), z3.RealSort())
    j = z3.Int('j!cs')
    n = to_int(a.n)
    ex.assume(z3.ForAll([j], z3.Implies(z3.And(j >= 0, j < n), C(j) == z3.If(j == 0, a.f(z3.IntVal(0)), C(j - 1) + a.f(j))), patterns=[C(j)]))
    out = NPArr(a.n, lambda k: C(k))
    out.ghost['cumsum_of'] = a
    out.ghost['decl'] = C
    ex.events.append(('cumsum', a, out))
    return out


def compare(a, opn, x):
    f = {'Lt': lambda v: v < x, 'LtE': lambda v: v <= x, 'Gt': lambda v: v > x, 'GtE': lambda v: v >= x}[opn]
    return NPArr(a.n, lambda j: f(a.f(j)), 'bool')


def argmax_bool(ex, b):
    """np.argmax of a boolean vector: index of the first True, 0 when there is none"""
    if b.kind != 'bool':
        raise OutOfSubset('argmax of a real vector')
    R = fresh_int('argmax')
    n = to_int(b.n)
    j = z3.Int('j!am')
    ex.assume(R >= 0)
    ex.assume(R < n)
    ex.assume(z3.ForAll([j], z3.Implies(z3.And(j >= 0, j < R), z3.Not(b.f(j)))))
    none = z3.ForAll([j], z3.Implies(z3.And(j >= 0, j < n), z3.Not(b.f(j))))
    # ground instances of the universally quantified disjunct at the two ends (the index arithmetic of reversed
    # vectors leaves the solver without usable triggers)
    ex.assume(z3.Or(b.f(R), z3.And(R == 0, none, z3.Not(b.f(z3.IntVal(0))), z3.Not(b.f(n - 1)))))
    return R


def norm_is_zero_facts(ex, a):
    """np.linalg.norm(s): a real nrm >= 0 with nrm == 0 <=> all entries are zero"""
    nrm = fresh_real('norm')
    j = z3.Int('j!nz')
    n = to_int(a.n)
    ex.assume(nrm >= 0)
    allz = z3.ForAll([j], z3.Implies(z3.And(j >= 0, j < n), a.f(j) == 0))
    ex.assume((nrm == 0) == allz)
    return SymScalar(nrm, 'float', 'np.float64')


def getitem(ex, a, idx):
    if isinstance(idx, slice):
        if idx.start is None and idx.stop is None and idx.step == -1:
            return reverse(a)
        if idx.start is None and idx.stop is None and idx.step in (None, 1):
            return a
        raise OutOfSubset('slice of a symbolic numpy vector')
    i = idx.expr if isinstance(idx, SymScalar) else idx
    n = to_int(a.n)
    if isinstance(i, int):
        j = n + i if i < 0 else z3.IntVal(i)
    else:
        j = z3.If(i < 0, i + n, i)
    if not ex.pc.implied(z3.And(j >= 0, j < n)):
        if not ex.decide(z3.And(j >= 0, j < n)):
            raise PyRaise('IndexError', 'index out of bounds', origin='numpy')
    v = a.f(j)
    if a.kind == 'bool':
        return v
    return SymScalar(v, 'float', 'np.float64')
