"""
Gauge-domain ghost state (DESIGN.md 2.4 item 2): tensors produced by QR / SVD are opaque matrices that carry ghost
attributes; the op contracts below say how the attributes propagate.  The attributes are what the lemma L10
(TT-SVD / rounding error) and the isometry lemma need as hypotheses; the contracts of to_tt / round_tt check that
the data flow of the real code matches the lemma pattern and advance the error ledger.

ghost keys
  fro2        z3 Real: squared Frobenius norm
  svd, role   the SVD record and the role ('U' | 'S' | 'Vh') of an SVD factor
  trunc       (rec, role, r): the factor restricted to the leading r singular triplets
  diag_trunc  (rec, r): diag(S[:r])
  remainder   (rec, r): diag(S[:r]) @ Vh[:r, :]     (what TT-SVD carries to the next step)
  US          (rec, r): U[:, :r] @ diag(S[:r])
  qr, qrole   QR record and role ('Q' | 'R')
  transpose_of  the tensor this one is the matrix transpose of
  unfold      (src tensor, 'left' | 'right'): this matrix is the left / right unfolding of a core
"""
import z3
from .terms import fresh_real, fresh_int

KEEP_ON_RESHAPE = ('fro2', 'trunc', 'remainder', 'US', 'svd', 'role', 'qr', 'qrole', 'absorb', 'carry', 'diag_trunc', 'carrier_mat')


def new_svd_record(ex, A, U, S, V, k):
    fro2 = A.ghost.get('fro2')
    if fro2 is None:
        fro2 = fresh_real('fro2')
        ex.assume_ghost(fro2 >= 0)
    tail = z3.Function('tail!%d' % S.tid, z3.IntSort(), z3.RealSort())
    rec = {'A': A, 'U': U, 'S': S, 'V': V, 'k': k, 'fro2': fro2, 'tail': tail, 'id': S.tid, 'chop': None}
    kk = k if isinstance(k, z3.ExprRef) else z3.IntVal(k)
    j = z3.Int('j!tl')
    # tail(j) = SUM_{i >= j} s_i^2 : non-negative, non-increasing, tail(0) = ||A||^2, tail(k) = 0
    ex.assume_ghost(tail(z3.IntVal(0)) == fro2)
    ex.assume_ghost(tail(kk) == 0)
    ex.assume_ghost(z3.ForAll([j], z3.Implies(z3.And(j >= 0, j < kk), z3.And(tail(j) >= tail(j + 1), tail(j + 1) >= 0)), patterns=[tail(j)]))
    return rec


def _same_axis(a, b):
    if a is b or a.factors == b.factors:
        return True
    if len(a.factors) != len(b.factors):
        return False
    from .tensors import known_eq
    return all(p is q or known_eq(p.size, q.size) for p, q in zip(a.factors, b.factors))


def _flat_factors(axes):
    return [f for a in axes for f in a.factors]


def _same_factor_run(xs, ys):
    from .tensors import known_eq
    xs = [f for f in xs if not known_eq(f.size, 1)]
    ys = [f for f in ys if not known_eq(f.size, 1)]
    return len(xs) == len(ys) and all(p is q for p, q in zip(xs, ys))


def on_reshape(t, out):
    for k in KEEP_ON_RESHAPE:
        if k in t.ghost:
            out.ghost[k] = t.ghost[k]
    out.ghost['reshape_of'] = t.ghost.get('reshape_of', t)
    # unfoldings of a core (N-d -> 2-d) and foldings back (2-d -> N-d), by identity of the atomic factors
    if t.ndim >= 3 and out.ndim == 2:
        if _same_factor_run(out.axes[1].factors, t.axes[-1].factors) and _same_factor_run(out.axes[0].factors, _flat_factors(t.axes[:-1])):
            out.ghost['unfold_left_of'] = t
            if t.ghost.get('left_orth_core'):
                out.ghost['orth_cols'] = True
        if _same_factor_run(out.axes[0].factors, t.axes[0].factors) and _same_factor_run(out.axes[1].factors, _flat_factors(t.axes[1:])):
            out.ghost['unfold_right_of'] = t
            if t.ghost.get('right_orth_core'):
                out.ghost['orth_rows'] = True
    if t.ndim == 2 and out.ndim == 2 and _same_factor_run(_flat_factors(out.axes), _flat_factors(t.axes)):
        # a matrix regrouped into another matrix over the same atomic factors: another unfolding of the same (virtual) core
        out.ghost['reunfold_of'] = t.ghost.get('reunfold_of', t)
    if t.ndim == 2 and out.ndim >= 3:
        if _same_factor_run(out.axes[-1].factors, t.axes[1].factors) and _same_factor_run(_flat_factors(out.axes[:-1]), t.axes[0].factors):
            out.ghost['fold_left_of'] = t           # rows -> leading axes
            if t.ghost.get('orth_cols'):
                out.ghost['left_orth_core'] = True
        if _same_factor_run(out.axes[0].factors, t.axes[0].factors) and _same_factor_run(_flat_factors(out.axes[1:]), t.axes[1].factors):
            out.ghost['fold_right_of'] = t          # columns -> trailing axes
            if t.ghost.get('orth_rows'):
                out.ghost['right_orth_core'] = True


def on_transpose(t, out):
    out.ghost['transpose_of'] = t
    g = t.ghost
    if 'svd' in g:
        rec = g['svd']
        role = {'U': 'Vh', 'Vh': 'U', 'S': 'S'}[g['role']]
        out.ghost['svd'] = transposed_record(rec)
        out.ghost['role'] = role
    if 'trunc' in g:
        rec, role, r = g['trunc']
        out.ghost['trunc'] = (transposed_record(rec), {'U': 'Vh', 'Vh': 'U', 'S': 'S'}[role], r)
    if 'qr' in g:
        out.ghost['qr_T'] = (g['qr'], g['qrole'])


def transposed_record(rec):
    """SVD of A^T: roles of U and Vh swap; singular values, norm and tails are shared"""
    if 'T' not in rec:
        t = dict(rec)
        t['A'] = rec['A'].ghost.get('transpose_of')
        t['T'] = rec
        t['transposed'] = not rec.get('transposed', False)
        rec['T'] = t
    return rec['T']


def base_record(rec):
    return rec['T'] if rec.get('transposed') else rec


def _is_full(s):
    return isinstance(s, slice) and s.start is None and s.stop is None and s.step in (None, 1)


def _lead(s):
    """slice(None, r, None) -> r"""
    if isinstance(s, slice) and s.start is None and s.step in (None, 1) and s.stop is not None:
        return s.stop
    return None


def on_getitem(t, out, full):
    g = t.ghost
    if 'svd' not in g or any(not isinstance(i, slice) for i in full):
        return
    role = g['role']
    rec = g['svd']
    r = None
    if role == 'U' and len(full) == 2 and _is_full(full[0]):
        r = _lead(full[1])
    elif role == 'Vh' and len(full) == 2 and _is_full(full[1]):
        r = _lead(full[0])
    elif role == 'S' and len(full) == 1:
        r = _lead(full[0])
    if r is None:
        return
    if hasattr(r, 'expr'):
        r = r.expr
    out.ghost['trunc'] = (rec, role, r)
    if role == 'U':
        out.ghost['orth_cols'] = True
    if role == 'Vh':
        out.ghost['orth_rows'] = True
    if role == 'S':
        out.ghost['svals'] = True


def on_diag(t, out):
    if 'trunc' in t.ghost and t.ghost['trunc'][1] == 'S':
        rec, _, r = t.ghost['trunc']
        out.ghost['diag_trunc'] = (rec, r)
    elif t.ghost.get('role') == 'S' and 'svd' in t.ghost:
        rec = t.ghost['svd']
        out.ghost['diag_trunc'] = (rec, rec['k'])


def same_rank(ex, a, b):
    if isinstance(a, int) and isinstance(b, int):
        return a == b
    a = a if isinstance(a, z3.ExprRef) else z3.IntVal(a)
    b = b if isinstance(b, z3.ExprRef) else z3.IntVal(b)
    return ex.pc.implied(a == b)


def on_matmul(ex, a, b, out):
    ga, gb = a.ghost, b.ghost
    # diag(S[:r]) @ Vh[:r, :]  : the TT-SVD remainder ; ||.||^2 = ||A||^2 - tail(r)
    if 'diag_trunc' in ga and 'trunc' in gb and gb['trunc'][1] == 'Vh':
        rec, r = ga['diag_trunc']
        rec2, _, r2 = gb['trunc']
        # the singular values are shared by A and A^T: the orientation is that of the Vh factor
        if base_record(rec) is base_record(rec2) and same_rank(ex, r, r2):
            rec = rec2
            out.ghost['remainder'] = (rec, r)
            rr = r if isinstance(r, z3.ExprRef) else z3.IntVal(r)
            out.ghost['fro2'] = _named(ex, rec['fro2'] - rec['tail'](rr))
    # U[:, :r] @ diag(S[:r])
    if 'trunc' in ga and ga['trunc'][1] == 'U' and 'diag_trunc' in gb:
        rec, _, r = ga['trunc']
        rec2, r2 = gb['diag_trunc']
        if base_record(rec) is base_record(rec2) and same_rank(ex, r, r2):
            out.ghost['US'] = (rec, r)
            rr = r if isinstance(r, z3.ExprRef) else z3.IntVal(r)
            out.ghost['fro2'] = _named(ex, rec['fro2'] - rec['tail'](rr))
    # M @ (U S): absorbing the left factor of a truncated SVD into the neighbouring core (rounding sweep)
    if 'US' in gb:
        out.ghost['absorb'] = (a, gb['US'][0], gb['US'][1])
    # R @ G : absorbing the triangular factor of a QR into the next core (orthogonalisation sweep)
    if ga.get('qrole') == 'R':
        out.ghost['carry'] = (ga['qr'], b)
        if 'unfold_right_of' in gb:
            out.ghost['carrier_mat'] = {'qr': ga['qr'], 'next_core': gb['unfold_right_of']}
    if gb.get('qr_T') and gb['qr_T'][1] == 'R':
        out.ghost['carry_T'] = (gb['qr_T'][0], a)
    if ga.get('orth_cols') and 'fro2' in gb:
        out.ghost.setdefault('fro2', gb['fro2'])
    if gb.get('orth_rows') and 'fro2' in ga:
        out.ghost.setdefault('fro2', ga['fro2'])


def _named(ex, expr):
    """a fresh ghost real equal to expr: keeps the later (nonlinear) ledger obligations over few symbols"""
    f = fresh_real('fro2')
    ex.assume_ghost(f == expr)
    ex.assume_ghost(f >= 0)        # it is a squared norm (ground instance of tail(j) <= tail(0) = fro2)
    return f


def norm_scalar(ex, t, out):
    """tn.linalg.norm: a scalar n >= 0 with n^2 == fro2"""
    if 'fro2' in t.ghost:
        n = fresh_real('nrm')
        ex.assume_ghost(n >= 0)
        ex.assume_ghost(n * n == t.ghost['fro2'])
        out.ghost['scalar'] = n
        out.ghost['norm_fro2'] = t.ghost['fro2']


def rank_chop_contract(ex, f, args, kwargs):
    """use of the contract of _decomposition.rank_chop (proved separately, C01 scenario rank_chop):
         1 <= R <= n ;  eps > 0 ==> tail(R) <= eps^2 ;  eps <= 0 ==> R = n or s = 0 ;  eps > 0, rho >= 1, s_j = 0 (j >= rho) ==> R <= rho"""
    from .tensors import STensor, SymScalar, to_int
    s = args[0]
    eps = args[1] if len(args) > 1 else kwargs.get('eps')
    if not isinstance(s, STensor) or s.ndim != 1:
        return NotImplemented
    n = s.shape[0]
    r = fresh_int('rk')
    ex.assume(r >= 1)
    ex.assume(r <= to_int(n))
    rec = s.ghost.get('svd') if s.ghost.get('role') == 'S' else None
    e = None
    if isinstance(eps, SymScalar):
        e = eps.real()
    elif isinstance(eps, (int, float)):
        from .terms import to_real
        e = to_real(eps)
    elif isinstance(eps, STensor) and eps.ndim == 0:
        from . import optable
        e = optable._scalar_of(eps)
    if rec is not None and e is not None:
        ex.assume_ghost(z3.Implies(e > 0, rec['tail'](r) <= e * e))
        ex.assume_ghost(rec['tail'](r) >= 0)          # ground instances of the quantified tail axioms
        ex.assume_ghost(rec['tail'](r) <= rec['fro2'])
        ex.assume_ghost(z3.Implies(e <= 0, z3.Or(r == to_int(n), rec['fro2'] == 0)))
        ex.assume_ghost(z3.Implies(rec['fro2'] == 0, r == 1))
        if 'rho' not in rec:
            rho = fresh_int('rho')          # exact rank of the factorised matrix (number of non-zero singular values)
            ex.assume(rho >= 0)
            ex.assume(rho <= to_int(n))
            ex.assume_ghost((rho == 0) == (rec['fro2'] == 0))
            rec['rho'] = rho
        ex.assume_ghost(z3.Implies(z3.And(e > 0, rec['rho'] >= 1), r <= rec['rho']))
        ex.assume_ghost(z3.Implies(z3.And(e > 0, rec['rho'] == 0), r == 1))
        rec['chop'] = r
        rec['chop_eps'] = e
    ex.events.append(('rank_chop', s, eps, r, rec))
    return r
