"""
Helpers shared by the sidecar contracts: symbolic well-formed inputs, spec functions (val, wf), obligations.
"""
import z3
from . import tensors as T
from .tensors import STensor, SymScalar, PyRaise, is_sym, sz, to_int
from .terms import Term, fresh_int, fresh_real, OutOfSubset
from . import interp as I


def sym_sizes(ex, prefix, n, lo=1):
    out = []
    for k in range(n):
        v = z3.Int('%s%d' % (prefix, k))
        ex.assume(v >= lo)
        out.append(v)
    return out


def tt_class(ex):
    return ex.module('torchtt._tt_base').env['TT']


def mk_cores(ex, name, N, R, M=None, dtype='float64'):
    cores = []
    d = len(N)
    for k in range(d):
        shp = [R[k], N[k], R[k + 1]] if M is None else [R[k], M[k], N[k], R[k + 1]]
        cores.append(T.atom_tensor('%s%d' % (name, k), shp, dtype))
    return cores


def mk_tt(ex, name, d, ttm=False, dtype='float64', N=None, M=None, R=None, register=True):
    """a fresh symbolic well-formed TT object built through the real constructor (list-of-cores branch)"""
    if N is None:
        N = sym_sizes(ex, name + '_N', d)
    if ttm and M is None:
        M = sym_sizes(ex, name + '_M', d)
    if R is None:
        R = [1] + sym_sizes(ex, name + '_R', d - 1)[0:d - 1] + [1]
        # rename so that interior ranks are R1..R_{d-1}
    cores = mk_cores(ex, name, N, R, M if ttm else None, dtype)
    obj = ex.instantiate(tt_class(ex), [cores], {})
    obj._spec = dict(N=list(N), M=list(M) if ttm else None, R=list(R), d=d, ttm=ttm, name=name, dtype=dtype)
    if register:
        ex.register_arg(obj, name)
    return obj


def get_attr(ex, obj, name):
    return ex.getattr(obj, name)


def tt_fields(ex, obj):
    """reads the object's fields through the real accessors"""
    cores = obj.attrs.get('cores')
    is_ttm = ex.getattr(obj, 'is_ttm')
    N = ex.getattr(obj, 'N')
    R = ex.getattr(obj, 'R')
    M = ex.getattr(obj, 'M') if is_ttm else None
    return dict(cores=cores, is_ttm=is_ttm, N=N, M=M, R=R, shape=obj.attrs.get('shape'))


def fresh_index(ex, sizes, prefix='i'):
    idx = []
    for s in sizes:
        v = fresh_int(prefix)
        ex.assume(v >= 0)
        ex.assume(v < to_int(s))
        idx.append(v)
    return idx


def fresh_axis_index(ex, t, prefix='i'):
    """index tuples for every axis of a symbolic tensor (one variable per factor)"""
    idx = []
    for ax in t.axes:
        tup = []
        for f in ax.factors:
            v = fresh_int(prefix)
            ex.assume(v >= 0)
            ex.assume(v < to_int(f.size))
            tup.append(v)
        idx.append(tuple(tup))
    return idx


def chain_value(cores, mode_index, ttm=False):
    """spec function val: SUM over rank indices of PROD_k cores[k](a_{k-1}, i_k, a_k).
    mode_index: list of per-core index entries; for ttm each entry is a pair (m, n).
    rank axes may be factored: one bound variable per factor; factor structures of neighbouring cores
    must agree (same number of factors and provably equal sizes), otherwise the bond is summed over a flat
    index (div/mod) and the engine notes 'factor_order'."""
    d = len(cores)
    bound = []
    left = tuple(0 for _ in cores[0].axes[0].factors)
    r = None
    for k in range(d):
        c = cores[k]
        rax = c.axes[-1]
        if k == d - 1:
            right = tuple(0 for _ in rax.factors)
        else:
            nxt = cores[k + 1].axes[0]
            right = tuple(fresh_int('a') for _ in rax.factors)
            for v, f in zip(right, rax.factors):
                bound.append((v, f.size))
        if ttm:
            m, n = mode_index[k]
            x = c.at([left, m, n, right])
        else:
            x = c.at([left, mode_index[k], right])
        r = x if r is None else r * x
        if k < d - 1:
            nxt = cores[k + 1].axes[0]
            if len(nxt.factors) == len(rax.factors) and all(T.known_eq(p.size, q.size) for p, q in zip(nxt.factors, rax.factors)):
                left = right
            else:
                T.ex().note_unproved('factor_order', 'bond %d: factor structures differ: %s vs %s' % (k + 1, rax.factors, nxt.factors))
                left = T.unflatten(T.flatten_ix(right, rax.factors), nxt.factors)
    for v, b in bound:
        r = r.summed(v, b)
    return r


def tt_val(ex, obj, idx):
    f = tt_fields(ex, obj)
    if f['is_ttm']:
        return chain_value(f['cores'], idx, ttm=True)
    return chain_value(f['cores'], idx)


def check_wf(ex, obj):
    """the data-structure invariant wf of DESIGN.md C05; returns list of (name, z3 Bool / bool) facts to prove"""
    facts = []
    a = obj.attrs
    cores = a.get('cores')
    if not isinstance(cores, list) or len(cores) == 0:
        return [('cores_nonempty_list', False)]
    cn = obj.cls.name
    N = a.get('_%s__N' % cn)
    R = a.get('_%s__R' % cn)
    M = a.get('_%s__M' % cn)
    ttm = a.get('_%s__is_ttm' % cn)
    d = len(cores)
    facts.append(('len_N', isinstance(N, list) and len(N) == d))
    facts.append(('len_R', isinstance(R, list) and len(R) == d + 1))
    facts.append(('is_ttm_bool', isinstance(ttm, bool)))
    if not all(f[1] is True for f in facts):
        return facts
    if ttm:
        facts.append(('len_M', isinstance(M, list) and len(M) == d))
        if not (isinstance(M, list) and len(M) == d):
            return facts
    for k, c in enumerate(cores):
        if not isinstance(c, STensor):
            facts.append(('core%d_is_tensor' % k, False))
            continue
        nd = 4 if ttm else 3
        facts.append(('core%d_ndim' % k, c.ndim == nd))
        if c.ndim != nd:
            continue
        shp = c.shape
        facts.append(('core%d_rank_left' % k, _eq(shp[0], R[k])))
        facts.append(('core%d_rank_right' % k, _eq(shp[-1], R[k + 1])))
        if ttm:
            facts.append(('core%d_M' % k, _eq(shp[1], M[k])))
            facts.append(('core%d_N' % k, _eq(shp[2], N[k])))
        else:
            facts.append(('core%d_N' % k, _eq(shp[1], N[k])))
        for j, s in enumerate(shp):
            facts.append(('core%d_size%d_pos' % (k, j), _ge1(s)))
    facts.append(('R0_is_1', _eq(R[0], 1)))
    facts.append(('Rd_is_1', _eq(R[d], 1)))
    shape = a.get('shape')
    if ttm:
        ok = isinstance(shape, list) and len(shape) == d and all(isinstance(s, tuple) and len(s) == 2 for s in shape)
        facts.append(('shape_kind', ok))
        if ok:
            for k in range(d):
                facts.append(('shape%d' % k, _and(_eq(shape[k][0], M[k]), _eq(shape[k][1], N[k]))))
    else:
        ok = isinstance(shape, list) and len(shape) == d
        facts.append(('shape_kind', ok))
        if ok:
            for k in range(d):
                facts.append(('shape%d' % k, _eq(shape[k], N[k])))
    return facts


def _eq(a, b):
    if isinstance(a, SymScalar):
        a = a.expr
    if isinstance(b, SymScalar):
        b = b.expr
    if not is_sym(a) and not is_sym(b):
        return a == b
    return to_int(a) == to_int(b)


def _ge1(a):
    if not is_sym(a):
        return a >= 1
    return a >= 1


def _and(a, b):
    if a is True:
        return b
    if b is True:
        return a
    if a is False or b is False:
        return False
    return z3.And(a, b)
