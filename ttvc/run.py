"""
check driver:  python3-vt -m ttvc.run <PROPERTY> --tier quick|thorough [--repo PATH] [--jobs N] [--only SUBSTR]

exit 0  every expected obligation discharged (or covered by a listed known finding) and bounded stand-ins passed
exit 1  VIOLATION property=<id> replay=<path>[ no-failing-input-found]
exit 2  UNDECIDED (solver unknown, out of subset, path limit)
exit 3  checker problem (zero obligations, canary not refuted, crash)
"""
import argparse
import importlib
import json
import multiprocessing as mp
import os
import re
import subprocess
import sys
import time
import traceback

HERE = os.path.dirname(os.path.dirname(os.path.abspath(__file__)))
VENV_PY = '/venv/bin/python'


def _work(item):
    prop, sname, params, repo = item
    os.environ['TTVC_REPO'] = repo
    from . import oblig, interp
    interp.REPO = repo
    importlib.import_module('contracts.%s' % prop.lower())
    scen = [s for s in oblig.SCENARIOS[prop] if s.name == sname][0]
    # wall-clock budget per instance: a runaway instance (path / term explosion, typically on a changed tree) becomes UNDECIDED
    # instead of blocking the check; solver queries have their own timeout, so the alarm is delivered between two queries
    import signal
    budget = int(os.environ.get('TTVC_INSTANCE_BUDGET_S', '900'))

    class _Budget(BaseException):
        pass

    def _alarm(signum, frame):
        raise _Budget()
    try:
        signal.signal(signal.SIGALRM, _alarm)
        signal.alarm(budget)
    except Exception:
        pass
    try:
        r = oblig.run_instance(scen, params, repo=repo)
        r['hashes'] = dict(interp.SOURCE_HASHES)
        return r
    except _Budget:
        return {'scenario': sname, 'prop': prop, 'func': scen.func, 'params': params, 'paths': 0, 'wall_s': budget, 'queries': 0, 'solver_s': 0, 'notes': [],
                'obligations': [{'name': 'instance_budget', 'kind': 'subset', 'status': 'undecided', 'paths': 0,
                                 'detail': {'reason': 'instance exceeded its wall-clock budget of %d s (path / term explosion)' % budget}}],
                'hashes': dict(interp.SOURCE_HASHES)}
    except Exception as e:
        return {'scenario': sname, 'prop': prop, 'func': scen.func, 'params': params, 'crash': traceback.format_exc(), 'obligations': [],
                'paths': 0, 'wall_s': 0, 'queries': 0, 'solver_s': 0, 'notes': []}
    finally:
        try:
            signal.alarm(0)
        except Exception:
            pass


def _child(item, conn):
    try:
        conn.send(_work(item))
    except BaseException:
        try:
            conn.send({'scenario': item[1], 'prop': item[0], 'func': '?', 'params': item[2], 'crash': traceback.format_exc(), 'obligations': [],
                       'paths': 0, 'wall_s': 0, 'queries': 0, 'solver_s': 0, 'notes': []})
        except Exception:
            pass
    finally:
        conn.close()


def run_items(items, jobs):
    """one forked process per instance with a HARD wall-clock limit (the in-process alarm cannot interrupt a solver call that
    ignores its timeout): an instance that is still running `grace` seconds after its budget is killed and reported UNDECIDED"""
    import time as _t
    ctx = mp.get_context('fork')
    budget = int(os.environ.get('TTVC_INSTANCE_BUDGET_S', '900'))
    hard = budget + 90
    pending = list(items)
    running = []          # (process, conn, item, t0)
    try:
        yield from _run_items_loop(ctx, pending, running, jobs, hard, _t)
    finally:
        # the consumer stopped early (self-test: the seeded change is already detected) or an error occurred: no orphans
        for pr, conn, it, t0 in running:
            try:
                if pr.is_alive():
                    pr.terminate()
                    pr.join(2)
                    if pr.is_alive():
                        pr.kill()
                conn.close()
            except Exception:
                pass


def _run_items_loop(ctx, pending, running, jobs, hard, _t):
    while pending or running:
        while pending and len(running) < max(1, jobs):
            it = pending.pop(0)
            a, b = ctx.Pipe(duplex=False)
            pr = ctx.Process(target=_child, args=(it, b), daemon=True)
            pr.start()
            b.close()
            running.append((pr, a, it, _t.time()))
        still = []
        progressed = False
        for pr, conn, it, t0 in running:
            got = None
            try:
                if conn.poll(0):
                    got = conn.recv()
            except (EOFError, OSError):
                got = {'scenario': it[1], 'prop': it[0], 'func': '?', 'params': it[2], 'crash': 'worker died without a result (exit code %s)' % pr.exitcode,
                       'obligations': [], 'paths': 0, 'wall_s': 0, 'queries': 0, 'solver_s': 0, 'notes': []}
            if got is not None:
                pr.join(5)
                conn.close()
                progressed = True
                yield got
            elif _t.time() - t0 > hard:
                pr.terminate()
                pr.join(5)
                if pr.is_alive():
                    pr.kill()
                conn.close()
                progressed = True
                yield {'scenario': it[1], 'prop': it[0], 'func': '?', 'params': it[2], 'paths': 0, 'wall_s': hard, 'queries': 0, 'solver_s': 0, 'notes': [],
                       'obligations': [{'name': 'instance_budget', 'kind': 'subset', 'status': 'undecided', 'paths': 0,
                                        'detail': {'reason': 'instance killed after %d s (a solver call did not return within its timeout)' % hard}}]}
            elif not pr.is_alive() and not conn.poll(0.2):
                conn.close()
                progressed = True
                yield {'scenario': it[1], 'prop': it[0], 'func': '?', 'params': it[2], 'crash': 'worker died without a result (exit code %s)' % pr.exitcode,
                       'obligations': [], 'paths': 0, 'wall_s': 0, 'queries': 0, 'solver_s': 0, 'notes': []}
            else:
                still.append((pr, conn, it, t0))
        running[:] = still
        if not progressed:
            _t.sleep(0.02)


def pstr(params):
    return ','.join('%s=%s' % (k, _pv(v)) for k, v in sorted(params.items()))


def _pv(v):
    if isinstance(v, (list, tuple)):
        return '(' + ' '.join(_pv(x) for x in v) + ')'
    return str(v)


def load_known(prop):
    p = os.path.join(HERE, 'known_findings.json')
    if not os.path.exists(p):
        return []
    data = json.load(open(p))
    return [f for f in data.get('findings', []) if f.get('property') == prop]


def match_known(known, oname):
    for f in known:
        if f.get('status') != 'open':
            continue
        if re.search(f['obligation'], oname):
            return f
    return None


def run_replay(path, repo):
    env = dict(os.environ)
    env['PYTHONPATH'] = repo
    env['PYTHONWARNINGS'] = 'ignore'
    try:
        p = subprocess.run([VENV_PY, os.path.join(HERE, 'replay.py'), path], env=env, capture_output=True, text=True, timeout=600)
    except subprocess.TimeoutExpired:
        return {'status': 'error', 'message': 'replay timed out'}
    out = [l for l in p.stdout.splitlines() if l.startswith('REPLAY-RESULT ')]
    if not out:
        return {'status': 'error', 'message': (p.stdout + p.stderr)[-800:]}
    return json.loads(out[-1][len('REPLAY-RESULT '):])


def main(argv=None):
    ap = argparse.ArgumentParser()
    ap.add_argument('prop')
    ap.add_argument('--tier', default=os.environ.get('VERIF_TIER', 'quick'))
    ap.add_argument('--repo', default=os.environ.get('TTVC_REPO', '/repo'))
    ap.add_argument('--jobs', type=int, default=min(16, os.cpu_count() or 4))
    ap.add_argument('--only', default=None)
    ap.add_argument('--replay', default=None)
    ap.add_argument('--no-evidence', action='store_true')
    ap.add_argument('--verbose', '-v', action='store_true')
    args = ap.parse_args(argv)
    prop = args.prop.upper()
    repo = os.path.abspath(args.repo)
    sys.path.insert(0, HERE)
    if args.replay:
        r = run_replay(args.replay, repo)
        print(json.dumps(r, indent=1))
        return 1 if r.get('status') == 'reproduced' else 0
    seed = int(os.environ.get('VERIF_SEED', '0') or 0)
    t0 = time.time()
    os.environ['TTVC_REPO'] = repo
    from . import oblig
    try:
        mod = importlib.import_module('contracts.%s' % prop.lower())
    except Exception:
        traceback.print_exc()
        print('CHECKER-ERROR property=%s cannot load contracts' % prop)
        return 3
    scens = oblig.SCENARIOS.get(prop, [])
    items = []
    for s in scens:
        for params in s.grid(args.tier):
            if args.only and args.only not in s.name and args.only not in pstr(params):
                continue
            items.append((prop, s.name, params, repo))
    results = []
    # per-instance wall budget: generous in the thorough tier so that a verdict does not flip to UNDECIDED when all cores are busy
    # (the largest thorough instance needs ~12 min on an idle machine); the self-test on seeded changes keeps the short budget
    user_budget = os.environ.get('TTVC_INSTANCE_BUDGET_S')
    if user_budget is None:
        os.environ['TTVC_INSTANCE_BUDGET_S'] = '900' if args.tier == 'quick' else '3600'
    if items:
        if args.jobs > 1 and len(items) > 1:
            for r in run_items(items, min(args.jobs, len(items))):
                results.append(r)
        else:
            for it in items:
                results.append(_work(it))
    # bounded stand-ins (R-mode) declared by the contract module
    bounded = []
    if hasattr(mod, 'bounded_checks'):
        bounded = mod.bounded_checks(args.tier, seed, repo)
    known = load_known(prop)
    canaries = {s.name for s in scens if getattr(s.fn, 'canary', False)}
    cvc5_q = 0
    n_obl = n_dis = n_undec = 0
    failures = []
    undecided = []
    crashes = []
    known_hits = {}
    canary_ok = {}
    funcs = set()
    hashes = {}
    solver_s = 0.0
    queries = 0
    samples = []
    by_kind = {}
    for r in sorted(results, key=lambda r: (r['scenario'], pstr(r['params']))):
        funcs.update(r['func'] if isinstance(r['func'], (list, tuple)) else [r['func']])
        hashes.update(r.get('hashes', {}))
        solver_s += r.get('solver_s', 0)
        queries += r.get('queries', 0)
        cvc5_q += r.get('cvc5_queries', 0)
        if r.get('crash'):
            crashes.append((r['scenario'], pstr(r['params']), r['crash']))
            continue
        for o in r['obligations']:
            oname = '%s[%s].%s' % (r['scenario'], pstr(r['params']), o['name'])
            if r['scenario'] in canaries:
                canary_ok[oname] = canary_ok.get(oname, False) or o['status'] == 'failed'
                continue
            n_obl += 1
            by_kind.setdefault(o['kind'], [0, 0])
            by_kind[o['kind']][0] += 1
            if o['status'] == 'discharged':
                n_dis += 1
                by_kind[o['kind']][1] += 1
                if len(samples) < 6 and o['kind'] in ('value', 'post', 'wf', 'frame', 'must_raise'):
                    samples.append({'obligation': oname, 'status': 'discharged', 'paths': o['paths']})
            elif o['status'] == 'undecided':
                n_undec += 1
                undecided.append((oname, o.get('detail', {})))
            else:
                kf = match_known(known, oname)
                if kf is not None:
                    known_hits.setdefault(kf['id'], []).append(oname)
                else:
                    failures.append((oname, r, o))
    # canaries: every canary scenario must have at least one refuted obligation
    bad_canaries = []
    for cn in canaries:
        hit = [k for k, v in canary_ok.items() if k.startswith(cn + '[') and v]
        ran = [k for k in canary_ok if k.startswith(cn + '[')]
        if ran and not hit:
            bad_canaries.append(cn)
    rc = 0
    lines = []
    viol = 0
    replay_dir = os.path.join(HERE, 'replays', prop)
    # group failures by (scenario, obligation name) to keep the report readable; replay each distinct one
    reported = 0
    for oname, r, o in failures:
        os.makedirs(replay_dir, exist_ok=True)
        import hashlib
        fn = re.sub(r'[^A-Za-z0-9_.=-]+', '_', oname)[:150] + '.' + hashlib.sha1(oname.encode()).hexdigest()[:6] + '.json'
        path = os.path.join(replay_dir, fn)
        scen = [s for s in scens if s.name == r['scenario']][0]
        det = o.get('detail', {})
        doc = {'property': prop, 'obligation': oname, 'kind': o['kind'], 'function': r['func'], 'scenario': r['scenario'],
               'params': r['params'], 'verifier_output': det, 'driver': scen.replay,
               'instance': det.get('instance'), 'replay_args': det.get('replay_args'), 'repo': repo}
        json.dump(doc, open(path, 'w'), indent=1, default=str)
        rr = {'status': 'no-driver'}
        if scen.replay and reported < 40:
            rr = run_replay(path, repo)
        doc['replay_result'] = rr
        json.dump(doc, open(path, 'w'), indent=1, default=str)
        if det.get('unconfirmed_model') and rr.get('status') != 'reproduced':
            # counter-model of the second solver on the quantifier-free part of the query that z3 could not confirm and that the
            # real code does not reproduce: not a verdict
            n_undec += 1
            undecided.append((oname, {'reason': 'z3 unknown; cvc5 counter-model on the quantifier-free facts neither confirmed by z3 nor reproduced on the real code', 'cond': det.get('cond')}))
            continue
        reported += 1
        viol += 1
        tail = '' if rr.get('status') == 'reproduced' else ' no-failing-input-found'
        print('FAILED-OBLIGATION %s kind=%s :: %s' % (oname, o['kind'], json.dumps({k: v for k, v in det.items() if k in ('cond', 'writes', 'lhs', 'rhs', 'concrete', 'matcher')}, default=str)[:500]))
        if rr.get('status') == 'reproduced':
            print('  replayed on the real code: %s' % str(rr.get('message'))[:300])
        else:
            print('  replay: %s %s' % (rr.get('status'), str(rr.get('message'))[:300]))
        print('VIOLATION property=%s replay=%s%s' % (prop, path, tail))
        rc = 1
    for kid, names in known_hits.items():
        kf = [f for f in known if f['id'] == kid][0]
        print('KNOWN-FINDING: property=%s %s (%d obligation instances: %s ...)' % (prop, kf['what'], len(names), names[0]))
    # bounded stand-ins
    b_eval = b_fail = 0
    for b in bounded:
        b_eval += b.get('evaluations', 0)
        for f in b.get('failures', []):
            kf = match_known(known, 'bounded:' + f.get('name', ''))
            if kf is not None:
                known_hits.setdefault(kf['id'], []).append('bounded:' + f.get('name', ''))
                print('KNOWN-FINDING: property=%s %s (bounded: %s)' % (prop, kf['what'], f.get('name')))
                continue
            b_fail += 1
            os.makedirs(replay_dir, exist_ok=True)
            path = os.path.join(replay_dir, 'bounded_' + re.sub(r'[^A-Za-z0-9_.=-]+', '_', f.get('name', 'x'))[:120] + '.json')
            json.dump(dict(f, property=prop, driver=f.get('driver', 'bounded')), open(path, 'w'), indent=1, default=str)
            print('BOUNDED-FAILURE %s :: %s' % (f.get('name'), str(f.get('message'))[:300]))
            print('VIOLATION property=%s replay=%s' % (prop, path))
            viol += 1
            rc = 1
        if b.get('error'):
            crashes.append(('bounded', b.get('name', ''), b['error']))
    if rc == 0 and undecided:
        rc = 2
        for oname, det in undecided[:30]:
            print('UNDECIDED property=%s obligation=%s reason=%s' % (prop, oname, json.dumps(det, default=str)[:400]))
    if crashes:
        for c in crashes[:10]:
            print('CHECKER-CRASH %s[%s]\n%s' % c)
        if rc == 0:
            rc = 3
    if n_obl == 0 and not bounded:
        print('CHECKER-ERROR property=%s zero obligations generated' % prop)
        rc = 3 if rc == 0 else rc
    if bad_canaries:
        print('CHECKER-ERROR property=%s canaries not refuted: %s' % (prop, bad_canaries))
        rc = 3 if rc == 0 else rc
    # ---- self-test (thorough tier): every seeded change kept under seeded/<prop>_*/ is applied to a scratch copy of the
    # tree and the quick-tier obligations are re-run against it; reported as MUTANT-DETECTED / MUTANT-MISSED, never as VIOLATION
    selftest = None
    if args.tier == 'thorough' and not os.environ.get('TTVC_NO_SELFTEST'):
        selftest = run_selftest(prop, scens, repo, args.jobs, mod, seed)
    optab = optable_evidence(args.tier, seed) if not os.environ.get('TTVC_NO_OPTABLE') else {'skipped': True}
    if optab.get('n_disagreements'):
        print('OPTABLE-WARNING %d disagreements between the assumed torch contracts and real torch: %s' % (optab['n_disagreements'], optab.get('disagreements')))
    wall = time.time() - t0
    level = getattr(mod, 'LEVEL', 'proof')
    ev = {
        'property_id': prop, 'tier': args.tier, 'seed': seed, 'level': level, 'wall_s': round(wall, 2), 'violations': viol,
        'coverage': {
            'obligations': n_obl, 'discharged': n_dis, 'undecided': n_undec, 'failed': len(failures),
            'known_finding_instances': sum(len(v) for v in known_hits.values()),
            'checker_cmd': 'python3-vt -m ttvc.run %s --tier %s  (VC generation: ttvc symbolic interpreter over the AST of %s/torchtt; back end: z3 %s)' % (prop, args.tier, repo, _z3v()),
            'trusted_base': getattr(mod, 'TRUSTED', []),
            'functions_under_contract': sorted(funcs),
            'source_sha256': {os.path.relpath(k, repo): v[:16] for k, v in sorted(hashes.items())},
            'scenario_instances': len(results), 'paths': sum(r.get('paths', 0) for r in results),
            'obligations_by_kind': {k: {'generated': v[0], 'discharged': v[1]} for k, v in sorted(by_kind.items())},
            'solver_s': round(solver_s, 2), 'solver_queries': queries, 'back_end': 'z3 ' + _z3v() + ('; cvc5 1.0.3 for %d queries z3 left unknown' % cvc5_q if cvc5_q else '; cvc5 1.0.3 stands by for queries z3 leaves unknown (0 in this run)'),
            'canaries_refuted': sorted(cn for cn in canaries if cn not in bad_canaries),
            'samples': samples + [{'bounded_case': x} for b in bounded for x in (b.get('samples') or [])[:3]],
            'bounded_standins': [{k: v for k, v in b.items() if k != 'failures'} for b in bounded],
            'bounded_evaluations_not_counted_as_proved': b_eval,
            'explanation': getattr(mod, 'EXPLANATION', ''),
            'selftest_seeded_changes': selftest,
            'op_table_validated': optab,
            'evaluations': max(1, len(results) + b_eval),
            'distinct_nontrivial': max(2, len(results) + sum(int(b.get('distinct_inputs', 0) or 0) for b in bounded)),
            'rule': 'one evaluation = one (contract case, discrete structure) instance explored on all symbolic paths, plus bounded stand-in runs; all distinct by construction',
        },
        'assumptions': getattr(mod, 'ASSUMPTIONS', []),
    }
    if not args.no_evidence:
        os.makedirs(os.path.join(HERE, 'evidence'), exist_ok=True)
        json.dump(ev, open(os.path.join(HERE, 'evidence', '%s.json' % prop), 'w'), indent=1, default=str)
    print('SUMMARY property=%s tier=%s obligations=%d discharged=%d undecided=%d failed=%d known=%d bounded_eval=%d bounded_fail=%d instances=%d wall=%.1fs solver=%.1fs exit=%d'
          % (prop, args.tier, n_obl, n_dis, n_undec, len(failures), sum(len(v) for v in known_hits.values()), b_eval, b_fail, len(results), wall, solver_s, rc))
    return rc


def optable_evidence(tier, seed):
    """differential validation of the op table (assumed contracts of torch / numpy) against real torch; quick tier uses the
    result cached by setup.sh when it is newer than the engine sources"""
    cache = os.path.join(HERE, '.optable_%s.json' % tier)
    srcs = [os.path.join(HERE, 'ttvc', f) for f in ('tensors.py', 'optable.py', 'terms.py', 'prover.py')] + [os.path.join(HERE, 'tools', f) for f in ('optable_cases.py', 'optable_run.py')]
    try:
        fresh = os.path.exists(cache) and all(os.path.getmtime(cache) >= os.path.getmtime(f) for f in srcs)
    except OSError:
        fresh = False
    if not fresh:
        try:
            subprocess.run(['sh', os.path.join(HERE, 'tools', 'optable_validate.sh'), tier, str(seed), cache], capture_output=True, text=True, timeout=1200)
        except Exception as e:
            return {'error': repr(e)}
    try:
        d = json.load(open(cache))
    except Exception as e:
        return {'error': 'no result: %r' % e}
    out = {k: d.get(k) for k in ('entries', 'instances', 'agree', 'out_of_subset', 'n_disagreements', 'error') if k in d}
    out['disagreements'] = [{'id': x.get('id'), 'op': x.get('op')} for x in (d.get('disagreements') or [])[:10]]
    out['cached'] = fresh
    return out


def run_selftest(prop, scens, repo, jobs, mod, seed):
    import glob
    import shutil
    import tempfile
    out = {'detected': [], 'missed': [], 'skipped': []}
    dirs = sorted(glob.glob(os.path.join(HERE, 'seeded', '*')))
    for d in dirs:
        mid = os.path.basename(d)
        try:
            meta = json.load(open(os.path.join(d, 'meta.json')))
        except Exception:
            continue
        if meta.get('obsolete'):
            out['skipped'].append({'id': mid, 'why': 'obsolete: ' + str(meta['obsolete'])[:120]})
            continue
        ev = meta.get('evaluation', {})
        relevant = prop in (ev.get('checks') or {}) and (ev['checks'][prop].get('exit') == 1)
        if meta.get('property') != prop and not relevant:
            continue
        tmp = tempfile.mkdtemp(prefix='ttvc_selftest_', dir='/var/tmp')
        try:
            shutil.copytree(os.path.join(repo, 'torchtt'), os.path.join(tmp, 'torchtt'))
            p = subprocess.run(['patch', '-p1', '-s', '-i', os.path.join(d, 'patch.diff')], cwd=tmp, capture_output=True, text=True)
            if p.returncode != 0:
                out['skipped'].append({'id': mid, 'why': 'patch does not apply to the current tree'})
                continue
            items = []
            for s_ in scens:
                if getattr(s_.fn, 'canary', False):
                    continue
                for params in s_.grid('quick'):
                    items.append((prop, s_.name, params, tmp))
            res = []
            if items:
                saved_budget = os.environ.get('TTVC_INSTANCE_BUDGET_S')
                os.environ['TTVC_INSTANCE_BUDGET_S'] = os.environ.get('TTVC_SELFTEST_BUDGET_S', '600')
                try:
                    for r in run_items(items, min(jobs, len(items))):
                        res.append(r)
                        if any(o['status'] == 'failed' for o in r['obligations']):
                            break          # detected: the remaining instances of this seeded change are not needed
                finally:
                    if saved_budget is None:
                        os.environ.pop('TTVC_INSTANCE_BUDGET_S', None)
                    else:
                        os.environ['TTVC_INSTANCE_BUDGET_S'] = saved_budget
            failed = [('%s[%s].%s' % (r['scenario'], pstr(r['params']), o['name'])) for r in res for o in r['obligations'] if o['status'] == 'failed']
            bfail = 0
            if hasattr(mod, 'bounded_checks'):
                known_ = load_known(prop)
                for b in mod.bounded_checks('quick', seed, tmp):
                    # failures listed as open known findings of the unchanged tree do not count as a detection
                    bfail += len([f for f in b.get('failures', []) if match_known(known_, 'bounded:' + f.get('name', '')) is None])
            if failed or bfail:
                out['detected'].append({'id': mid, 'failed_obligations': len(failed), 'bounded_failures': bfail, 'first': (failed[:1] or ['bounded'])[0]})
                print('MUTANT-DETECTED %s (%d obligations fail, %d bounded failures; e.g. %s)' % (mid, len(failed), bfail, (failed[:1] or ['bounded stand-in'])[0]))
            else:
                others = sorted(k for k, v in (ev.get('checks') or {}).items() if v.get('exit') == 1 and k != prop)
                out['missed'].append({'id': mid, 'caught_by_other_checks': others})
                print('MUTANT-MISSED %s by the %s check%s' % (mid, prop, (' (caught by %s, see seeded/%s/meta.json)' % (', '.join(others), mid)) if others else ''))
        finally:
            shutil.rmtree(tmp, ignore_errors=True)
    out['summary'] = '%d/%d detected' % (len(out['detected']), len(out['detected']) + len(out['missed']))
    return out


def _z3v():
    try:
        import z3
        return z3.get_version_string()
    except Exception:
        return '?'


if __name__ == '__main__':
    sys.exit(main())
