"""
Path conditions, solver access and the equality prover for Sigma-terms (terms.py).

prove_eq is sound and incomplete: it answers 'proved', 'refuted' (with a model of the quantifier-free
part) or 'unknown'.  'unknown' is never turned into a violation by the callers without a concrete
disagreement found by evaluate().
"""
import itertools
import time
from fractions import Fraction
import z3
from .terms import Term, Mono, is_sym, OutOfSubset, CONJ, SQRT, ABS, R32

QUERY_TIMEOUT_MS = 20000
STATS = {'queries': 0, 'solver_s': 0.0, 'unknown': 0}


class Undecided(Exception):
    pass


class PC(object):
    """path condition with an incremental solver"""

    def __init__(self, timeout_ms=None):
        self.facts = []
        self.solver = z3.Solver()
        self.solver.set('timeout', timeout_ms or QUERY_TIMEOUT_MS)
        self.maybe_infeasible = False   # a feasibility query came back unknown on this path
        self._yes = {}      # id(expr) -> expr : facts already shown to be implied (monotone: stays valid when the pc grows)
        self._no = {}       # id(expr) -> (len(facts), expr)

    def add(self, b):
        if b is True:
            return
        if b is False:
            b = z3.BoolVal(False)
        self.facts.append(b)
        self.solver.add(b)

    def _check(self, *extra):
        t = time.time()
        self.solver.push()
        try:
            for e in extra:
                self.solver.add(e)
            r = self.solver.check()
        finally:
            self.solver.pop()
        STATS['queries'] += 1
        STATS['solver_s'] += time.time() - t
        if r == z3.unknown:
            STATS['unknown'] += 1
        return r

    def implied(self, b, extra=()):
        """pc /\\ extra |= b   (unknown counts as not implied)"""
        if b is True:
            return True
        if b is False:
            return self._check(*extra) == z3.unsat
        if z3.is_true(b):
            return True
        if not extra:
            k = b.get_id()
            if k in self._yes:
                return True
            hit = self._no.get(k)
            if hit is not None and hit[0] == len(self.facts):
                return False
            r = self._check(z3.Not(b)) == z3.unsat
            if r:
                self._yes[k] = b
            else:
                self._no[k] = (len(self.facts), b)
            return r
        return self._check(z3.Not(b), *extra) == z3.unsat

    def feasible(self, b=True, extra=(), timeout_ms=None, mark=True):
        if b is False:
            return False
        args = list(extra)
        if b is not True:
            args.append(b)
        if timeout_ms:
            self.solver.set('timeout', timeout_ms)
        try:
            r = self._check(*args)
        finally:
            if timeout_ms:
                self.solver.set('timeout', QUERY_TIMEOUT_MS)
        if r == z3.unknown:
            if mark:
                self.maybe_infeasible = True
            return True
        return r == z3.sat

    def model(self, *extra):
        t = time.time()
        self.solver.push()
        try:
            for e in extra:
                self.solver.add(e)
            r = self.solver.check()
            m = self.solver.model() if r == z3.sat else None
        finally:
            self.solver.pop()
        STATS['queries'] += 1
        STATS['solver_s'] += time.time() - t
        return r, m


def second_opinion(facts, timeout_s=20):
    """z3 answered `unknown`: ask cvc5 (CLI) for the same quantifier-free query.  Returns ('unsat', None), ('sat', {name: int})
    for the integer constants of the query, or ('unknown', None).  Used only to turn `unknown` into a verdict; a `sat` answer is
    re-validated by z3 with the integer constants fixed to cvc5's values before it is believed."""
    import subprocess, tempfile, re as _re, os as _os
    sv = z3.Solver()
    for f in facts:
        sv.add(f)
    smt = sv.to_smt2()
    smt = smt.replace('(check-sat)', '(check-sat)\n(get-model)')
    logic = '(set-logic ALL)\n(set-option :produce-models true)\n'
    fd, path = tempfile.mkstemp(suffix='.smt2', dir='/var/tmp')
    try:
        with _os.fdopen(fd, 'w') as fh:
            fh.write(logic + smt)
        t = time.time()
        try:
            p = subprocess.run(['/usr/bin/cvc5', '--lang=smt2', '--tlimit=%d' % (timeout_s * 1000), path], capture_output=True, text=True, timeout=timeout_s + 10)
        except Exception:
            return 'unknown', None
        finally:
            STATS['queries'] += 1
            STATS['solver_s'] += time.time() - t
            STATS['cvc5'] = STATS.get('cvc5', 0) + 1
        out = p.stdout
        first = out.strip().splitlines()[0] if out.strip() else ''
        if first == 'unsat':
            return 'unsat', None
        if first == 'sat':
            env = {}
            for m in _re.finditer(r'\(define-fun\s+(\|[^|]*\||\S+)\s+\(\)\s+(Int|Real)\s+(.*)\)\s*$', out, _re.M):
                txt = m.group(3).strip()
                nums = _re.findall(r'\d+(?:\.\d+)?', txt)
                try:
                    if txt.startswith('(/') or txt.startswith('(- (/'):
                        val = Fraction(nums[0]) / Fraction(nums[1])
                    else:
                        val = Fraction(nums[0])
                    if txt.startswith('(-'):
                        val = -val
                except Exception:
                    continue
                env[m.group(1).strip('|')] = val
            return 'sat', env
        return 'unknown', None
    finally:
        try:
            _os.unlink(path)
        except OSError:
            pass


def _ranges(vars):
    out = []
    for v, b in vars:
        out.append(v >= 0)
        out.append(v < b)
    return out


def _is_zero(e):
    return z3.is_rational_value(e) and e.numerator_as_long() == 0


def _contains(e, v):
    vid = v.get_id()
    seen = set()
    stack = [e]
    while stack:
        x = stack.pop()
        i = x.get_id()
        if i in seen:
            continue
        seen.add(i)
        if i == vid:
            return True
        stack.extend(x.children())
    return False


def simp_cond(pc, c, ctx):
    """returns True / False / simplified condition under pc /\\ ctx"""
    k = c.decl().kind()
    if k == z3.Z3_OP_AND:
        keep = []
        for x in c.children():
            r = simp_cond(pc, x, ctx)
            if r is False:
                return False
            if r is not True:
                keep.append(r)
        if not keep:
            return True
        return z3.And(*keep) if len(keep) > 1 else keep[0]
    if k == z3.Z3_OP_OR:
        keep = []
        for x in c.children():
            r = simp_cond(pc, x, ctx)
            if r is True:
                return True
            if r is not False:
                keep.append(r)
        if not keep:
            return False
        return z3.Or(*keep) if len(keep) > 1 else keep[0]
    if k == z3.Z3_OP_NOT:
        r = simp_cond(pc, c.children()[0], ctx)
        if r is True:
            return False
        if r is False:
            return True
        return z3.Not(r)
    if z3.is_true(c):
        return True
    if z3.is_false(c):
        return False
    if pc.implied(c, ctx):
        return True
    if pc.implied(z3.Not(c), ctx):
        return False
    return c


def prune(pc, e, ctx):
    """simplify ite nodes whose condition is decided by pc /\\ ctx"""
    if not z3.is_app(e):
        return e
    if e.decl().kind() == z3.Z3_OP_ITE and e.sort() == z3.RealSort():
        c, a, b = e.children()
        c = simp_cond(pc, c, ctx)
        if c is True:
            return prune(pc, a, ctx)
        if c is False:
            return prune(pc, b, ctx)
        return z3.If(c, prune(pc, a, ctx + [c]), prune(pc, b, ctx + [z3.Not(c)]))
    ch = e.children()
    if not ch or e.sort() != z3.RealSort():
        return e
    k = e.decl().kind()
    if k in (z3.Z3_OP_ADD, z3.Z3_OP_MUL, z3.Z3_OP_SUB, z3.Z3_OP_UMINUS, z3.Z3_OP_DIV):
        nch = [prune(pc, c, ctx) for c in ch]
        if k == z3.Z3_OP_MUL and any(_is_zero(c) for c in nch):
            return z3.RealVal(0)
        if k == z3.Z3_OP_ADD:
            nch = [c for c in nch if not _is_zero(c)]
            if not nch:
                return z3.RealVal(0)
            r = nch[0]
            for c in nch[1:]:
                r = r + c
            return r
        if k == z3.Z3_OP_MUL:
            r = nch[0]
            for c in nch[1:]:
                r = r * c
            return r
        if k == z3.Z3_OP_SUB:
            r = nch[0]
            for c in nch[1:]:
                r = r - c
            return r
        if k == z3.Z3_OP_UMINUS:
            return -nch[0] if not _is_zero(nch[0]) else nch[0]
        if k == z3.Z3_OP_DIV:
            return nch[0] / nch[1] if not _is_zero(nch[0]) else nch[0]
    if k == z3.Z3_OP_UNINTERPRETED and ch and all(c.sort() == z3.RealSort() for c in ch):
        return e.decl()(*[prune(pc, c, ctx) for c in ch])
    return e


def _ite_conds(e, acc):
    if not z3.is_app(e):
        return
    if e.decl().kind() == z3.Z3_OP_ITE:
        acc.append(e.children()[0])
    for c in e.children():
        _ite_conds(c, acc)


def _atoms(c, acc):
    k = c.decl().kind()
    if k in (z3.Z3_OP_AND, z3.Z3_OP_OR, z3.Z3_OP_NOT):
        for ch in c.children():
            _atoms(ch, acc)
    elif k in (z3.Z3_OP_LT, z3.Z3_OP_LE, z3.Z3_OP_GT, z3.Z3_OP_GE, z3.Z3_OP_EQ, z3.Z3_OP_DISTINCT):
        ch = c.children()
        if len(ch) == 2 and ch[0].sort() == z3.IntSort():
            acc.append(c)


def _threshold(atom, v):
    """atom is a comparison between Int terms, linear in v with coefficient +-1.
    returns ('cut', t) meaning the truth value of atom is constant on v<t and on v>=t, or ('point', e)
    for v == e, or None"""
    k = atom.decl().kind()
    l, r = atom.children()
    diff = l - r
    zero = z3.IntVal(0)
    rest = z3.simplify(z3.substitute(diff, (v, zero)))
    if _contains(rest, v):
        return None
    coef = z3.simplify(z3.substitute(diff, (v, z3.IntVal(1))) - rest)
    if not z3.is_int_value(coef):
        return None
    c = coef.as_long()
    if c not in (1, -1):
        return None
    # check linearity: diff == c*v + rest at v=2
    chk = z3.simplify(z3.substitute(diff, (v, z3.IntVal(2))) - rest - 2 * coef)
    if not (z3.is_int_value(chk) and chk.as_long() == 0):
        return None
    # c*v + rest  OP 0
    e = z3.simplify(-rest) if c == 1 else z3.simplify(rest)   # v OP' e
    if k in (z3.Z3_OP_EQ, z3.Z3_OP_DISTINCT):
        return ('point', e)
    if c == -1:
        k = {z3.Z3_OP_LT: z3.Z3_OP_GT, z3.Z3_OP_LE: z3.Z3_OP_GE, z3.Z3_OP_GT: z3.Z3_OP_LT, z3.Z3_OP_GE: z3.Z3_OP_LE}[k]
    if k in (z3.Z3_OP_LT, z3.Z3_OP_GE):
        return ('cut', e)
    return ('cut', z3.simplify(e + 1))


def split_mono(pc, m, depth=0):
    """normalise one monomial: eliminate unit ranges, prune ites, split ranges at ite thresholds"""
    vars = list(m.vars)
    body = m.body
    # unit / empty ranges
    keep = []
    for v, b in vars:
        if isinstance(b, int):
            if b <= 0:
                return []
            if b == 1:
                body = z3.substitute(body, (v, z3.IntVal(0)))
                continue
        else:
            if pc.implied(b == 1):
                body = z3.substitute(body, (v, z3.IntVal(0)))
                continue
            if pc.implied(b <= 0):
                return []
        keep.append((v, b))
    vars = keep
    ctx = _ranges(vars)
    body = z3.simplify(prune(pc, body, ctx))
    if _is_zero(body):
        return []
    if pc.implied(body == 0, ctx):
        return []
    if depth > 12:
        return [Mono(vars, body)]
    conds = []
    _ite_conds(body, conds)
    atoms = []
    for c in conds:
        _atoms(c, atoms)
    for v, b in vars:
        for a in atoms:
            if not _contains(a, v):
                continue
            th = _threshold(a, v)
            if th is None:
                continue
            kind, t = th
            others = [(w, bw) for w, bw in vars if w.get_id() != v.get_id()]
            if any(_contains(t, w) for w, _ in others):
                # Kronecker delta between bound variables: SUM_v [v == e] f(v) = f(e) when e is always in range
                if kind == 'point':
                    octx = _ranges(others)
                    if pc.implied(z3.And(t >= 0, t < b), octx) and pc.implied(body == 0, ctx + [v != t]):
                        return split_mono(pc, Mono(others, z3.substitute(body, (v, t))), depth + 1)
                continue
            if kind == 'cut':
                if not (pc.implied(t >= 0) and pc.implied(t <= b)):
                    continue
                lo = Mono(others + [(v, t)], body)
                v2 = z3.Int('%s^' % v)
                hi = Mono(others + [(v2, z3.simplify(b - t) if is_sym(b) or is_sym(t) else b - t)],
                          z3.substitute(body, (v, v2 + t)))
                return split_mono(pc, lo, depth + 1) + split_mono(pc, hi, depth + 1)
            else:
                if not (pc.implied(t >= 0) and pc.implied(t < b)):
                    continue
                lo = Mono(others + [(v, t)], body)
                mid = Mono(others, z3.substitute(body, (v, t)))
                v2 = z3.Int('%s^' % v)
                hi = Mono(others + [(v2, z3.simplify(b - t - 1))], z3.substitute(body, (v, v2 + t + 1)))
                return split_mono(pc, lo, depth + 1) + split_mono(pc, mid, depth + 1) + split_mono(pc, hi, depth + 1)
    return [Mono(vars, body)]


def normalise(pc, t):
    monos = []
    for m in t.monos:
        monos.extend(split_mono(pc, m))
    return Term(monos, t.wrap)._collapse()


def _bounds_equal(pc, b1, b2):
    if isinstance(b1, int) and isinstance(b2, int):
        return b1 == b2
    e1 = b1 if is_sym(b1) else z3.IntVal(b1)
    e2 = b2 if is_sym(b2) else z3.IntVal(b2)
    if z3.simplify(e1 - e2).eq(z3.IntVal(0)):
        return True
    return pc.implied(e1 == e2)


def body_equal(pc, b1, b2, ctx):
    d = z3.simplify(b1 - b2, som=True)
    if _is_zero(d):
        return True
    return pc.implied(b1 == b2, ctx)


def mono_eq(pc, m1, m2, limit=5040):
    """is SUM_vars1 body1 == SUM_vars2 body2 by a bijection of the bound variables?"""
    if len(m1.vars) != len(m2.vars):
        return False
    n = len(m1.vars)
    compat = [[_bounds_equal(pc, m1.vars[i][1], m2.vars[j][1]) for j in range(n)] for i in range(n)]
    if any(not any(row) for row in compat):
        return False
    ctx = _ranges(m1.vars)
    tried = 0

    def rec(i, used, perm):
        nonlocal tried
        if i == n:
            tried += 1
            if tried > limit:
                return False
            subs = [(m2.vars[perm[k]][0], m1.vars[k][0]) for k in range(n)]
            b2 = z3.substitute(m2.body, *subs) if subs else m2.body
            return body_equal(pc, m1.body, b2, ctx)
        for j in range(n):
            if j not in used and compat[i][j]:
                if rec(i + 1, used | {j}, perm + [j]):
                    return True
                if tried > limit:
                    return False
        return False

    return rec(0, frozenset(), [])


def prove_eq(pc, t1, t2):
    """returns (status, info) ; status in 'proved' | 'refuted' | 'unknown'"""
    t1 = Term.of(t1)
    t2 = Term.of(t2)
    if t1.wrap != t2.wrap:
        return 'unknown', {'reason': 'different outer functions %s vs %s' % (t1.wrap, t2.wrap)}
    n1 = normalise(pc, Term(t1.monos))
    n2 = normalise(pc, Term(t2.monos))
    f1 = [m for m in n1.monos if not m.vars]
    f2 = [m for m in n2.monos if not m.vars]
    v1 = [m for m in n1.monos if m.vars]
    v2 = [m for m in n2.monos if m.vars]
    unmatched1 = []
    rest2 = list(v2)
    for m in v1:
        hit = None
        for k, mm in enumerate(rest2):
            if mono_eq(pc, m, mm):
                hit = k
                break
        if hit is None:
            unmatched1.append(m)
        else:
            rest2.pop(hit)
    if unmatched1 or rest2:
        return 'unknown', {'reason': 'sum monomials not matched', 'lhs_only': [repr(m) for m in unmatched1][:4],
                           'rhs_only': [repr(m) for m in rest2][:4]}
    e1 = Term(f1).simple_expr()
    e2 = Term(f2).simple_expr()
    if _is_zero(z3.simplify(e1 - e2, som=True)):
        return 'proved', {}
    r, model = pc.model(e1 != e2)
    if r == z3.unsat:
        return 'proved', {}
    if r == z3.sat:
        return 'refuted', {'model': model, 'lhs': str(e1)[:400], 'rhs': str(e2)[:400]}
    return 'unknown', {'reason': 'solver unknown on the quantifier-free part'}


# --------------------------------------------------------------------------------------------
# concrete evaluation (exact rationals) -- used to find real counterexamples for Sigma-terms
# --------------------------------------------------------------------------------------------

class CFrac(object):
    """Gaussian rational: a model of the abstract field with involution in which conj is not the identity"""
    __slots__ = ('re', 'im')

    def __init__(self, re, im=0):
        self.re = Fraction(re)
        self.im = Fraction(im)

    @staticmethod
    def of(x):
        return x if isinstance(x, CFrac) else CFrac(x)

    def __add__(self, o):
        o = CFrac.of(o)
        return CFrac(self.re + o.re, self.im + o.im)
    __radd__ = __add__

    def __neg__(self):
        return CFrac(-self.re, -self.im)

    def __sub__(self, o):
        return self + (-CFrac.of(o))

    def __rsub__(self, o):
        return CFrac.of(o) - self

    def __mul__(self, o):
        o = CFrac.of(o)
        return CFrac(self.re * o.re - self.im * o.im, self.re * o.im + self.im * o.re)
    __rmul__ = __mul__

    def __truediv__(self, o):
        o = CFrac.of(o)
        n = o.re * o.re + o.im * o.im
        return self * CFrac(o.re / n, -o.im / n)

    def __rtruediv__(self, o):
        return CFrac.of(o) / self

    def conjugate(self):
        return CFrac(self.re, -self.im)

    def __eq__(self, o):
        o = CFrac.of(o)
        return self.re == o.re and self.im == o.im

    def __ne__(self, o):
        return not self == o

    def __hash__(self):
        return hash((self.re, self.im))

    def __repr__(self):
        return '(%s+%sj)' % (self.re, self.im)


class Evaluator(object):
    """evaluates z3 Int/Real/Bool expressions under an assignment of the free constants; uninterpreted
    functions are interpreted by a deterministic pseudo-random rational table (seeded)."""

    def __init__(self, env, seed=0, complex_mode=False):
        self.env = dict(env)       # name -> python int / Fraction / bool
        self.seed = seed
        self.uf = {}
        self.complex_mode = complex_mode

    def _uf(self, name, args):
        key = (name,) + tuple(args)
        if key not in self.uf:
            import hashlib
            h = int(hashlib.sha256(repr((self.seed, key)).encode()).hexdigest()[:8], 16)
            v = Fraction((h % 19) - 9, 1 + (h >> 8) % 3)
            if self.complex_mode:
                v = CFrac(v, Fraction((h >> 12) % 11 - 5, 1 + (h >> 20) % 2))
            self.uf[key] = v
        return self.uf[key]

    def ev(self, e):
        if z3.is_int_value(e):
            return e.as_long()
        if z3.is_rational_value(e):
            return Fraction(e.numerator_as_long(), e.denominator_as_long())
        if z3.is_true(e):
            return True
        if z3.is_false(e):
            return False
        k = e.decl().kind()
        ch = e.children()
        if k == z3.Z3_OP_UNINTERPRETED:
            if not ch:
                n = e.decl().name()
                if n not in self.env:
                    # unconstrained constant: pick a value
                    if e.sort() == z3.IntSort():
                        self.env[n] = 1
                    elif e.sort() == z3.BoolSort():
                        self.env[n] = False
                    else:
                        self.env[n] = self._uf('const', (n,))
                return self.env[n]
            args = [self.ev(c) for c in ch]
            if e.decl().eq(CONJ):
                return args[0].conjugate() if isinstance(args[0], CFrac) else args[0]
            if e.decl().eq(ABS):
                return abs(args[0])
            if e.decl().eq(R32):
                import struct
                a0 = args[0]
                try:
                    return Fraction(struct.unpack('f', struct.pack('f', float(a0)))[0])
                except Exception:
                    return a0
            return self._uf(e.decl().name(), args)
        if k == z3.Z3_OP_ADD:
            return sum(self.ev(c) for c in ch)
        if k == z3.Z3_OP_MUL:
            r = 1
            for c in ch:
                r = r * self.ev(c)
                if r == 0:
                    return r
            return r
        if k == z3.Z3_OP_SUB:
            r = self.ev(ch[0])
            for c in ch[1:]:
                r = r - self.ev(c)
            return r
        if k == z3.Z3_OP_UMINUS:
            return -self.ev(ch[0])
        if k == z3.Z3_OP_DIV:
            a, b = self.ev(ch[0]), self.ev(ch[1])
            if isinstance(a, CFrac) or isinstance(b, CFrac):
                return CFrac.of(a) / CFrac.of(b)
            return Fraction(a) / Fraction(b)
        if k == z3.Z3_OP_IDIV:
            return self.ev(ch[0]) // self.ev(ch[1])
        if k == z3.Z3_OP_MOD:
            return self.ev(ch[0]) % self.ev(ch[1])
        if k == z3.Z3_OP_TO_REAL:
            return Fraction(self.ev(ch[0]))
        if k == z3.Z3_OP_TO_INT:
            import math
            return math.floor(self.ev(ch[0]))
        if k == z3.Z3_OP_ITE:
            return self.ev(ch[1]) if self.ev(ch[0]) else self.ev(ch[2])
        if k == z3.Z3_OP_AND:
            return all(self.ev(c) for c in ch)
        if k == z3.Z3_OP_OR:
            return any(self.ev(c) for c in ch)
        if k == z3.Z3_OP_NOT:
            return not self.ev(ch[0])
        if k == z3.Z3_OP_IMPLIES:
            return (not self.ev(ch[0])) or self.ev(ch[1])
        if k == z3.Z3_OP_EQ:
            return self.ev(ch[0]) == self.ev(ch[1])
        if k == z3.Z3_OP_DISTINCT:
            vals = [self.ev(c) for c in ch]
            return len(set(vals)) == len(vals)
        if k == z3.Z3_OP_LT:
            return self.ev(ch[0]) < self.ev(ch[1])
        if k == z3.Z3_OP_LE:
            return self.ev(ch[0]) <= self.ev(ch[1])
        if k == z3.Z3_OP_GT:
            return self.ev(ch[0]) > self.ev(ch[1])
        if k == z3.Z3_OP_GE:
            return self.ev(ch[0]) >= self.ev(ch[1])
        raise OutOfSubset('evaluator: unsupported z3 node %s' % e.decl().name())

    def term(self, t, budget=60000):
        total = Fraction(0)
        for m in t.monos:
            bounds = [self.ev(b) if is_sym(b) else b for _, b in m.vars]
            n = 1
            for b in bounds:
                n *= max(b, 0)
            if n > budget:
                raise OutOfSubset('evaluator: sum too large')
            names = [v.decl().name() for v, _ in m.vars]
            for combo in itertools.product(*[range(max(b, 0)) for b in bounds]):
                for nm, val in zip(names, combo):
                    self.env[nm] = val
                total += self.ev(m.body)
        return total
