#!/usr/bin/env python3-vt
"""
Differential validation of the op table (stage 1, symbolic side; run with python3-vt, no torch here).

usage: python3-vt tools/optable_cases.py <out.json> quick|thorough <seed>

For every op-table entry a list of small concrete instances is generated.  The SYMBOLIC op of ttvc is run on
atom tensors, the atoms are given deterministic pseudo-random rational values (prover.Evaluator) and the
instance (inputs as concrete arrays, the call, the prediction) is written to <out.json>.
Stage 2 (tools/optable_run.py, /venv/bin/python) replays every call with real torch and compares.

JSON encoding of arguments:
  {"t": name, "pre": [[method, [args]], ...]} input tensor (inputs[name] = {shape, dtype, data}); "pre" = view ops
                                              applied before the call (to obtain non-contiguous operands)
  {"itensor": nested ints, "how": ...}       integer index tensor
  {"slice": [a, b, c]}  "None"  "Ellipsis"  {"tuple": [...]}  [...] (list)  {"dtype": name}  {"complex": [re, im]}
  numbers / booleans as JSON numbers / booleans ; {"none": true} = python None passed as an argument value
  {"call": {kind, name, args, kwargs}, "pick": i|null, "star": bool}   nested call evaluated first (its result, or element i of
                                              its result, is the argument; star = the result tuple is spliced into the arguments)
  {"range": n} python range(n) ; {"npdtype": name} numpy.<name> (a numpy scalar type used as a dtype)
call: {"kind": ext|method|attr|binop|neg|getitem|setitem|inplace|truth|builtin|promote|scalar_promote,
       "name": ..., "args": [...], "kwargs": {...}}
prediction: {"raises": cls} | {"out_of_subset": msg} | {"sym_crash": msg} | {"pyvalue": v} |
            {"shape", "dtype", "values", "is_view_of_input", "same_object", "contiguous_claim"} | {"one_of": [...]}
            tensor predictions may also carry "lib" (torch|numpy), "ivalues" (integer payload `ival`: per entry an int, a list of
            the values the path condition allows, or null = unconstrained) and "claims" (["perm_matrix"]);
            {"tuple": [pred, ...]} for tuple results ; {"pyvalue_set": [ints]} for an integer known only up to a set
"""
import sys
import os
import re
import json
import glob
import math
import random
import itertools
import hashlib
from fractions import Fraction

# OPTABLE_TTVC_ROOT: validate another copy of the engine (a directory containing ttvc/), e.g. a patched tree
sys.path.insert(0, os.environ.get('OPTABLE_TTVC_ROOT') or os.path.dirname(os.path.dirname(os.path.abspath(__file__))))

import z3                                                    # noqa: E402
from ttvc import interp, tensors as T, optable as O, prover  # noqa: E402
from ttvc.terms import OutOfSubset, Term, SQRT, ABS, to_real  # noqa: E402
from ttvc.prover import CFrac                                # noqa: E402

COMPLEX = ('complex64', 'complex128')
INTS = ('int32', 'int64')


# ------------------------------------------------------------------------------------------------
# native description of arguments
# ------------------------------------------------------------------------------------------------

class TRef(object):
    def __init__(self, name, pre=()):
        self.name = name
        self.pre = [list(p) for p in pre]


class ITensor(object):
    """integer index tensor ; how = 'manual' (STensor with ival built by hand), 'arange' (torch.arange(n)),
    'tensor' (torch.tensor(list) through the op table)"""

    def __init__(self, data, how='manual'):
        self.data = data
        self.how = how


class DT(object):
    def __init__(self, name):
        self.name = name


class PyNone(object):
    """python None passed as a plain argument (not as an index)"""
    pass


class Sub(object):
    """a nested call: evaluated first, its result (or element `pick` of it) is the argument ; star: splice the result tuple"""

    def __init__(self, kind, name, args, kwargs=None, pick=None, star=False):
        self.call = {'kind': kind, 'name': name, 'args': list(args), 'kwargs': dict(kwargs or {})}
        self.pick = pick
        self.star = star


class Rng(object):
    """python range(n) ; how = 'builtin' (the engine's builtin range) | 'sym' (the engine's SymRange, what a symbolic bound gives)"""

    def __init__(self, n, how='builtin'):
        self.n = n
        self.how = how


class NPDT(object):
    """numpy.<name> used as a dtype argument (numpy.float64, ...)"""

    def __init__(self, name):
        self.name = name


def enc(a):
    if isinstance(a, TRef):
        d = {'t': a.name}
        if a.pre:
            d['pre'] = [[p[0], [enc(x) for x in p[1:]]] for p in a.pre]
        return d
    if isinstance(a, ITensor):
        return {'itensor': a.data, 'how': a.how}
    if isinstance(a, DT):
        return {'dtype': a.name}
    if isinstance(a, PyNone):
        return {'none': True}
    if isinstance(a, Sub):
        return {'call': enc_call(a.call), 'pick': a.pick, 'star': bool(a.star)}
    if isinstance(a, Rng):
        return {'range': a.n}
    if isinstance(a, NPDT):
        return {'npdtype': a.name}
    if a is None:
        return 'None'
    if a is Ellipsis:
        return 'Ellipsis'
    if isinstance(a, slice):
        return {'slice': [a.start, a.stop, a.step]}
    if isinstance(a, tuple):
        return {'tuple': [enc(x) for x in a]}
    if isinstance(a, list):
        return [enc(x) for x in a]
    if isinstance(a, complex):
        return {'complex': [a.real, a.imag]}
    if isinstance(a, (bool, int, float, str)):
        return a
    raise TypeError('cannot encode %r' % (a,))


def enc_call(call):
    return {'kind': call['kind'], 'name': call.get('name'), 'args': [enc(a) for a in call['args']],
            'kwargs': {k: enc(v) for k, v in call['kwargs'].items()}}


# ------------------------------------------------------------------------------------------------
# concrete evaluation
# ------------------------------------------------------------------------------------------------

class Ev(prover.Evaluator):
    """Evaluator with a per-atom value kind: real atoms stay real in complex mode, integer atoms are integers,
    'nonzero' atoms (divisors) avoid 0 ; sqrt_/abs_ are interpreted"""

    def __init__(self, seed, kinds):
        prover.Evaluator.__init__(self, {}, seed, complex_mode=any(k[0] == 'complex' for k in kinds.values()))
        self.kinds = kinds
        self.foreign_consts = set()
        self.foreign = False     # a fresh symbol of the engine (name!id: opaque values, unknown positions) was given a made-up value

    def _uf(self, name, args):
        key = (name,) + tuple(args)
        if key in self.uf:
            return self.uf[key]
        v = prover.Evaluator._uf(self, name, args)
        if '!' in name and name not in self.kinds:
            self.foreign = True
        kind, nonzero = self.kinds.get(name, ('real', False))
        if kind != 'complex' and isinstance(v, CFrac):
            v = v.re
        if kind == 'int':
            v = Fraction(v.numerator)
        if nonzero and v == 0:
            v = Fraction(1) if kind != 'complex' else CFrac(1, 1)
        self.uf[key] = v
        return v

    def ev(self, e):
        if z3.is_app(e) and e.decl().kind() == z3.Z3_OP_UNINTERPRETED and e.num_args() == 1:
            if e.decl().eq(SQRT):
                return _fn('sqrt', self.ev(e.arg(0)))
            if e.decl().eq(ABS):
                return _fn('abs', self.ev(e.arg(0)))
        if z3.is_const(e) and e.decl().kind() == z3.Z3_OP_UNINTERPRETED:
            n = e.decl().name()
            if '!' in n and (n not in self.env or n in self.foreign_consts):
                self.foreign_consts.add(n)
                self.foreign = True
        return prover.Evaluator.ev(self, e)

    def value(self, t):
        t = Term.of(t)
        v = self.term(Term(t.monos))
        for w in t.wrap:
            v = _fn(w, v)
        return v


def _fn(fn, v):
    if fn == 'sqrt':
        if isinstance(v, CFrac):
            if v.im != 0:
                raise OutOfSubset('sqrt of a non-real value')
            v = v.re
        if v < 0:
            raise OutOfSubset('sqrt of a negative value')
        return Fraction(math.sqrt(float(v)))
    if fn == 'abs':
        if isinstance(v, CFrac):
            return Fraction(math.sqrt(float(v.re * v.re + v.im * v.im)))
        return abs(v)
    raise OutOfSubset('function ' + fn)


def num_out(v, cplx):
    if isinstance(v, CFrac):
        if cplx or v.im != 0:
            return [float(v.re), float(v.im)]
        return float(v.re)
    if cplx:
        return [float(v), 0.0]
    return float(v)


def dump_tensor(ev, t, cplx=None):
    if cplx is None:
        cplx = t.dtype in COMPLEX
    shape = list(t.shape)
    for s in shape:
        if not isinstance(s, int):
            raise OutOfSubset('symbolic size in a concrete instance: %r' % (s,))

    def rec(prefix, k):
        if k == len(shape):
            return num_out(ev.value(t.at(list(prefix))), cplx)
        return [rec(prefix + [i], k + 1) for i in range(shape[k])]
    return rec([], 0)


# ------------------------------------------------------------------------------------------------
# symbolic execution of one case
# ------------------------------------------------------------------------------------------------

def manual_itensor(data, dtype='int64'):
    """an int64 (int32) STensor with concrete entries (nested list), ival given by an If-chain"""
    def shape_of(d):
        if isinstance(d, list):
            return [len(d)] + (shape_of(d[0]) if d else [])
        return []
    shp = shape_of(data)
    flat = []
    for idx in itertools.product(*[range(s) for s in shp]):
        v = data
        for i in idx:
            v = v[i]
        flat.append((idx, v))

    def ival(idx):
        cidx = [i[0] for i in idx]
        e = None
        for pos, v in reversed(flat):
            x = z3.IntVal(v)
            if e is None:
                e = x
            else:
                cond = z3.And(*[T.to_int(i) == p for i, p in zip(cidx, pos)]) if pos else z3.BoolVal(True)
                e = z3.If(cond, x, e)
        return z3.simplify(e) if e is not None else z3.IntVal(0)
    return T.STensor([T.Axis(s) for s in shp], dtype, lambda idx: Term.of(to_real(ival(idx))), ival=ival)


class Ctx(object):
    def __init__(self, ex, case):
        self.ex = ex
        self.case = case
        self.tensors = {}
        self.first = None
        for name, spec in case['inputs'].items():
            self.tensors[name] = T.atom_tensor(name, list(spec['shape']), spec['dtype'])

    def dec(self, a):
        ex = self.ex
        if isinstance(a, TRef):
            t = self.tensors[a.name]
            for p in a.pre:
                t = O.call_method(ex, t, p[0], [self.dec(x) for x in p[1:]], {})
            if self.first is None:
                self.first = t
            return t
        if isinstance(a, ITensor):
            if a.how in ('manual', 'manual32'):
                t = manual_itensor(a.data, 'int64' if a.how == 'manual' else 'int32')
                if self.first is None:
                    self.first = t
                return t
            if a.how == 'arange':
                return O.call_ext(ex, 'torch.arange', [a.data], {})
            return O.call_ext(ex, 'torch.tensor', [a.data], {})
        if isinstance(a, Sub):
            r = run_call(self, a.call)
            return r[a.pick] if a.pick is not None else r
        if isinstance(a, Rng):
            if a.how == 'sym':
                return O.SymRange(a.n)
            return O.call_builtin(ex, O.BI('range'), [a.n], {})
        if isinstance(a, NPDT):
            return O.ext_attr(ex, interp.Ext('numpy'), a.name)
        if isinstance(a, DT):
            return interp.DType(a.name)
        if isinstance(a, PyNone):
            return None
        if isinstance(a, tuple):
            return tuple(self.dec(x) for x in a)
        if isinstance(a, list):
            return [self.dec(x) for x in a]
        return a


def run_call(ctx, call):
    ex = ctx.ex
    kind, name = call['kind'], call.get('name')
    args = []
    for a in call.get('args', []):
        v = ctx.dec(a)
        if isinstance(a, Sub) and a.star:
            args.extend(v)
        else:
            args.append(v)
    kwargs = {k: ctx.dec(v) for k, v in call.get('kwargs', {}).items()}
    if kind == 'ext':
        return O.call_ext(ex, name, args, kwargs)
    if kind == 'method':
        return O.call_method(ex, args[0], name, args[1:], kwargs)
    if kind == 'attr':
        return O.value_attr(ex, args[0], name)
    if kind == 'binop':
        return O.binop(ex, name, args[0], args[1])
    if kind == 'neg':
        return O.neg(ex, args[0])
    if kind == 'getitem':
        return O.subscript(ex, args[0], args[1])
    if kind == 'setitem':
        O.store_subscript(ex, args[0], args[1], args[2])
        return args[0]
    if kind == 'inplace':
        return ex.aug(name, args[0], args[1])
    if kind == 'truth':
        return ('truth', O.truth_sym(ex, args[0]))
    if kind == 'builtin':
        return O.call_builtin(ex, O.BI(name), args, kwargs)
    if kind == 'promote':
        return ('py', T.promote(args[0], args[1]))
    if kind == 'scalar_promote':
        return ('py', T.scalar_dtype_promote(args[0], args[1]))
    raise ValueError(kind)


def int_set(ex, e, lo=-8, hi=48, cap=24):
    """the integer values the path condition allows for the z3 Int expression e: [v] when it is determined, a list of the feasible
    values when there are at most `cap`, None when e is (practically) unconstrained"""
    if isinstance(e, bool):
        return [int(e)]
    if isinstance(e, int):
        return [e]
    e = z3.simplify(e)
    if z3.is_int_value(e):
        return [e.as_long()]
    pc = ex.pc
    if pc.feasible(z3.Or(e < lo, e >= hi), mark=False):
        return None
    feas = [c for c in range(lo, hi) if pc.feasible(e == c, mark=False)]
    if not feas or len(feas) > cap:
        return None
    return feas


def dump_ivalues(ex, t):
    """the integer payload of t: nested lists of int | [feasible ints] wrapped as {"in": [...]} | None ; all_exact flag"""
    shape = [int(s) for s in t.shape]
    exact = [True]      # every entry is a numeral by itself (no solver query needed): then the real-valued side is evaluated too

    def rec(prefix, k):
        if k == len(shape):
            e = T.int_entry(t, list(prefix))
            if not isinstance(e, int) and not z3.is_int_value(z3.simplify(e)):
                exact[0] = False
            vs = int_set(ex, e)
            if vs is not None and len(vs) == 1:
                return vs[0]
            return None if vs is None else {'in': vs}
        return [rec(prefix + [i], k + 1) for i in range(shape[k])]
    return rec([], 0), exact[0]


def describe(ctx, ev, res):
    """JSON prediction for a result value of the symbolic engine"""
    ex = ctx.ex
    first = ctx.first
    if isinstance(res, tuple) and len(res) == 2 and res[0] == 'truth':
        b = res[1]
        return {'pyvalue': bool(ev.ev(b)) if isinstance(b, z3.ExprRef) else bool(b)}
    if isinstance(res, tuple) and len(res) == 2 and res[0] == 'py':
        return {'pyvalue': res[1]}
    if isinstance(res, T.STensor):
        view = None
        if first is not None:
            view = res.storage is first.storage
            if not view and getattr(res, 'maybe_view_of', None) is not None:
                view = None
        out = {'shape': [int(s) for s in res.shape], 'dtype': res.dtype}
        exact = True
        if res.ival is not None:
            out['ivalues'], exact = dump_ivalues(ex, res)
        if res._val is None or not exact:
            out['values'] = None       # opaque, or integer entries known only up to a set (compared through ivalues)
        else:
            ev.foreign = False
            out['values'] = dump_tensor(ev, res)
            if ev.foreign:
                out['values'] = None   # the values depend on symbols the engine leaves open (e.g. a gather through unknown positions)
        out['is_view_of_input'] = view
        out['same_object'] = (res is first) if first is not None else None
        out['contiguous_claim'] = bool(res.contiguous)
        out['lib'] = res.lib
        if res.ghost.get('perm'):
            out['claims'] = ['perm_matrix']
        return out
    if isinstance(res, interp.DType):
        return {'pyvalue': 'dtype:' + str(res)}
    if isinstance(res, bool) or res is None:
        return {'pyvalue': res}
    if isinstance(res, (int, float)):
        return {'pyvalue': res}
    if isinstance(res, z3.ExprRef):
        v = ev.ev(res)
        return {'pyvalue': int(v) if isinstance(v, int) else float(v)}
    if isinstance(res, (tuple, list)) and all(isinstance(x, int) for x in res):
        return {'pyvalue': [int(x) for x in res]}
    if isinstance(res, (tuple, list)) and res and all(isinstance(x, (T.STensor, T.SymScalar)) for x in res):
        return {'tuple': [describe(ctx, ev, x) for x in res]}
    if isinstance(res, T.SymScalar):
        if res.kind == 'int':
            vs = int_set(ex, res.expr)
            if vs is None:
                return {'out_of_subset': 'unconstrained symbolic integer result'}
            return {'pyvalue': vs[0]} if len(vs) == 1 else {'pyvalue_set': vs}
        ev.foreign = False
        v = float(ev.ev(res.real()))
        if ev.foreign:
            return {'out_of_subset': 'symbolic scalar result with an open value'}
        return {'pyvalue': v}
    return {'out_of_subset': 'result of unsupported kind %s' % type(res).__name__}


def predict_once(case, seed, prefix):
    ex = interp.Exec(prefix=prefix)
    kinds = {}
    for name, spec in case['inputs'].items():
        dt = spec['dtype']
        kinds[name] = ('complex' if dt in COMPLEX else 'int' if dt in INTS + ('bool',) else 'real', bool(spec.get('nonzero')))
    ev = Ev(seed, kinds)
    try:
        ctx = Ctx(ex, case)
        res = run_call(ctx, case['call'])
        first = ctx.first
        out = describe(ctx, ev, res)
    except T.PyRaise as e:
        out = {'raises': e.cls}
    except OutOfSubset as e:
        out = {'out_of_subset': str(e)[:200]}
    except interp.DeadPath:
        out = None
    except interp.PathLimit as e:
        out = {'out_of_subset': 'path limit: %s' % e}
    except Exception as e:       # a crash of the engine itself
        out = {'sym_crash': '%s: %s' % (type(e).__name__, str(e)[:200])}
    return out, list(ex.new_prefixes)


def dump_inputs(case, seed):
    """concrete arrays of the input atoms (the same numbers the prediction was evaluated with)"""
    interp.Exec()
    kinds = {}
    for name, spec in case['inputs'].items():
        dt = spec['dtype']
        kinds[name] = ('complex' if dt in COMPLEX else 'int' if dt in INTS + ('bool',) else 'real', bool(spec.get('nonzero')))
    ev = Ev(seed, kinds)
    out = {}
    for name, spec in case['inputs'].items():
        t = T.atom_tensor(name, list(spec['shape']), spec['dtype'])
        out[name] = {'shape': list(spec['shape']), 'dtype': spec['dtype'], 'data': dump_tensor(ev, t)}
    return out


def predict(case, seed):
    outcomes = []
    work = [()]
    n = 0
    while work and n < 16:
        prefix = work.pop()
        n += 1
        out, more = predict_once(case, seed, prefix)
        work.extend(more)
        if out is not None and out not in outcomes:
            outcomes.append(out)
    if not outcomes:
        return {'sym_crash': 'no feasible path'}
    if len(outcomes) == 1:
        return outcomes[0]
    return {'one_of': outcomes}


# ------------------------------------------------------------------------------------------------
# case generators
# ------------------------------------------------------------------------------------------------

GENERATORS = []      # (entry, function(rng) -> iterator of cases ; the first cases are the hand-written core)


def gen(entry, quick=16, thorough=40):
    def deco(f):
        GENERATORS.append((entry, f, quick, thorough))
        return f
    return deco


def C(kind, name, args, kwargs=None, **inputs):
    """inputs: name=(shape, dtype) or (shape, dtype, 'nonzero')"""
    ins = {}
    for k, v in inputs.items():
        ins[k] = {'shape': list(v[0]), 'dtype': v[1]}
        if len(v) > 2 and v[2] == 'nonzero':
            ins[k]['nonzero'] = True
    return {'inputs': ins, 'call': {'kind': kind, 'name': name, 'args': list(args), 'kwargs': dict(kwargs or {})}}


A, B, Cc, D, V = TRef('A'), TRef('B'), TRef('C'), TRef('D'), TRef('V')
F64, F32, C128, I64 = 'float64', 'float32', 'complex128', 'int64'


def rdtype(rng, ints=True):
    x = rng.random()
    if x < 0.5:
        return F64
    if x < 0.7:
        return F32
    if x < 0.9 or not ints:
        return C128
    return I64


def rshape(rng, lo=0, hi=4, sizes=(1, 2, 3, 4), p1=0.25):
    nd = rng.randint(lo, hi)
    return [1 if rng.random() < p1 else rng.choice(sizes) for _ in range(nd)]


def prod(xs):
    r = 1
    for x in xs:
        r *= x
    return r


def _factors(n):
    out = []
    p = 2
    while n > 1:
        while n % p == 0:
            out.append(p)
            n //= p
        p += 1
    return out


def _regroup_shape(rng, shape):
    """a random target shape obtained by merging / splitting consecutive factors of `shape`"""
    fs = []
    for s in shape:
        fs.extend(_factors(s))
    out = []
    k = 0
    while k < len(fs):
        n = rng.randint(1, 3)
        out.append(prod(fs[k:k + n]))
        k += n
    for _ in range(rng.randint(0, 2)):
        out.insert(rng.randint(0, len(out)), 1)
    return out


@gen('reshape', 25, 50)
def g_reshape(rng, tier):
    yield C('ext', 'torch.reshape', [A, [6, 4]], A=([2, 3, 4], F64))
    yield C('method', 'reshape', [A, [2, 12]], A=([2, 3, 4], F64))
    yield C('ext', 'torch.reshape', [A, [2, 3, 4]], A=([6, 4], F32))
    yield C('ext', 'torch.reshape', [A, [-1]], A=([2, 3, 4], C128))
    yield C('ext', 'torch.reshape', [A, [5, 5]], A=([2, 3, 4], F64))
    yield C('ext', 'torch.reshape', [A, [3, -1, 1]], A=([1, 3, 1, 4], F64))
    yield C('method', 'reshape', [A, 6, 4], A=([2, 3, 4], F64))
    yield C('ext', 'torch.reshape', [TRef('A', [('permute', [1, 0])]), [6]], A=([2, 3], F64))
    yield C('ext', 'torch.reshape', [A, [-1, -1]], A=([2, 3, 4], F64))
    yield C('ext', 'torch.reshape', [A, [-2, -12]], A=([2, 3, 4], F64))
    yield C('ext', 'torch.reshape', [A, [7, -1]], A=([2, 3, 4], F64))
    yield C('ext', 'torch.reshape', [A, [1]], A=([], F64))
    yield C('ext', 'torch.reshape', [A, []], A=([1, 1], F64))
    yield C('ext', 'torch.reshape', [A, [2, 2, 6]], A=([4, 6], F64))
    yield C('ext', 'torch.reshape', [A, [8, 3]], A=([4, 6], F64))
    yield C('ext', 'torch.reshape', [A, [3, 2]], A=([2, 3], F64))
    yield C('ext', 'torch.reshape', [A, [3, 4, 1]], A=([1, 3, 1, 4], I64))
    yield C('method', 'view', [A, [6, 4]], A=([2, 3, 4], F64))
    yield C('method', 'view', [TRef('A', [('permute', [1, 0])]), [6]], A=([2, 3], F64))
    yield C('method', 'flatten', [A], A=([2, 3, 2], F64))
    yield C('ext', 'torch.reshape', [TRef('A', [('permute', [1, 0])]), [3, 2, 1]], A=([2, 3], F64))
    yield C('ext', 'torch.reshape', [A, [2, 3.0]], A=([2, 3], F64))
    yield C('ext', 'torch.reshape', [TRef('A', [('permute', [1, 0]), ('clone',)]), [6]], A=([2, 3], F64))
    yield C('ext', 'torch.reshape', [TRef('A', [('permute', [1, 0]), ('reshape', [3, 2, 1])]), [6]], A=([2, 3], F64))
    yield C('ext', 'torch.reshape', [A, (3, 2, 2)], A=([3, 4], F64))
    while True:
        shape = rshape(rng, 1, 4)
        tgt = _regroup_shape(rng, shape)
        x = rng.random()
        if x < 0.3 and tgt:
            tgt[rng.randrange(len(tgt))] = -1
        elif x < 0.42 and tgt:
            tgt[rng.randrange(len(tgt))] += 1
        kind = rng.choice([('ext', 'torch.reshape'), ('method', 'reshape'), ('method', 'view')])
        yield C(kind[0], kind[1], [A, tgt], A=(shape, rdtype(rng)))


@gen('permute')
def g_permute(rng, tier):
    yield C('ext', 'torch.permute', [A, [2, 0, 1]], A=([2, 3, 4], F64))
    yield C('method', 'permute', [A, 1, 0], A=([2, 3], F32))
    yield C('method', 'permute', [A, [-1, 0, -2]], A=([2, 1, 4], C128))
    yield C('ext', 'torch.permute', [A, [0, 0, 1]], A=([2, 3, 4], F64))
    yield C('ext', 'torch.permute', [A, [0, 1]], A=([2, 3, 4], F64))
    yield C('ext', 'torch.permute', [A, [0, 1, 3]], A=([2, 3, 4], F64))
    yield C('ext', 'torch.permute', [A, [0, 1, 2]], A=([2, 3, 4], F64))
    yield C('ext', 'torch.permute', [A, []], A=([], F64))
    yield C('ext', 'torch.permute', [A, [0, -3, 1]], A=([2, 3, 4], F64))
    yield C('ext', 'torch.permute', [A, [0, 1, -4]], A=([2, 3, 4], F64))
    while True:
        shape = rshape(rng, 0, 4)
        n = len(shape)
        p = list(range(n))
        rng.shuffle(p)
        p = [d - n if rng.random() < 0.3 else d for d in p]
        x = rng.random()
        if x < 0.1 and n:
            p[rng.randrange(n)] = rng.choice([n, -n - 1, n + 1])
        elif x < 0.2 and n > 1:
            p[0] = p[1]
        elif x < 0.25:
            p = p + [0]
        kind = rng.choice([('ext', 'torch.permute'), ('method', 'permute')])
        yield C(kind[0], kind[1], [A, p], A=(shape, rdtype(rng)))


@gen('t/transpose')
def g_t(rng, tier):
    yield C('method', 't', [A], A=([2, 3], F64))
    yield C('method', 't', [A], A=([3], F64))
    yield C('method', 't', [A], A=([], F64))
    yield C('method', 't', [A], A=([2, 3, 4], F64))
    yield C('attr', 'T', [A], A=([3, 1], C128))
    yield C('method', 'transpose', [A, 0, 2], A=([2, 3, 4], F64))
    yield C('method', 'transpose', [A, -1, 0], A=([2, 3, 4], F32))
    yield C('method', 'transpose', [A, 0, 3], A=([2, 3, 4], F64))
    yield C('method', 'transpose', [A, 1, 1], A=([2, 3, 4], F64))
    yield C('method', 't', [TRef('A', [('permute', [1, 0])])], A=([2, 3], F64))
    while True:
        x = rng.random()
        if x < 0.4:
            yield C('method', 't', [A], A=(rshape(rng, 0, 3), rdtype(rng)))
        elif x < 0.55:
            yield C('attr', 'T', [A], A=(rshape(rng, 2, 2), rdtype(rng)))
        else:
            shape = rshape(rng, 1, 4)
            n = len(shape)
            yield C('method', 'transpose', [A, rng.randint(-n - 1, n), rng.randint(-n, n - 1)], A=(shape, rdtype(rng)))


@gen('unsqueeze')
def g_unsqueeze(rng, tier):
    yield C('ext', 'torch.unsqueeze', [A, 0], A=([2, 3], F64))
    yield C('method', 'unsqueeze', [A, -1], A=([2, 3], F32))
    yield C('ext', 'torch.unsqueeze', [A, 2], A=([2, 3], C128))
    yield C('ext', 'torch.unsqueeze', [A, 3], A=([2, 3], F64))
    yield C('ext', 'torch.unsqueeze', [A, -4], A=([2, 3], F64))
    yield C('ext', 'torch.unsqueeze', [A, -3], A=([2, 3], F64))
    yield C('ext', 'torch.unsqueeze', [A, 0], A=([], F64))
    yield C('ext', 'torch.unsqueeze', [A, -1], A=([], I64))
    yield C('ext', 'torch.unsqueeze', [A, 1], A=([], F64))
    yield C('method', 'unsqueeze', [TRef('A', [('permute', [1, 0])]), 1], A=([2, 3], F64))
    while True:
        shape = rshape(rng, 0, 3)
        n = len(shape)
        kind = rng.choice([('ext', 'torch.unsqueeze'), ('method', 'unsqueeze')])
        yield C(kind[0], kind[1], [A, rng.randint(-n - 2, n + 1)], A=(shape, rdtype(rng)))


@gen('squeeze')
def g_squeeze(rng, tier):
    yield C('ext', 'torch.squeeze', [A], A=([1, 3, 1, 2], F64))
    yield C('method', 'squeeze', [A, 0], A=([1, 3, 1], F32))
    yield C('ext', 'torch.squeeze', [A, 1], A=([1, 3, 1], F64))
    yield C('ext', 'torch.squeeze', [A, -1], A=([1, 3, 1], C128))
    yield C('ext', 'torch.squeeze', [A, 3], A=([1, 3, 1], F64))
    yield C('ext', 'torch.squeeze', [A, -4], A=([1, 3, 1], F64))
    yield C('ext', 'torch.squeeze', [A, (0, 2)], A=([1, 3, 1], F64))
    yield C('ext', 'torch.squeeze', [A], A=([], F64))
    yield C('ext', 'torch.squeeze', [A, 0], A=([], F64))
    yield C('ext', 'torch.squeeze', [A, -1], A=([], F64))
    yield C('ext', 'torch.squeeze', [A, 1], A=([], F64))
    yield C('ext', 'torch.squeeze', [A], A=([1, 1], F64))
    yield C('ext', 'torch.squeeze', [A], A=([2, 3], F64))
    yield C('method', 'squeeze', [A], {'dim': 1}, A=([2, 1], F64))
    yield C('ext', 'torch.squeeze', [A, (0, 0)], A=([1, 3, 1], F64))
    yield C('ext', 'torch.squeeze', [A, [0, -1]], A=([1, 3, 1], F64))
    while True:
        shape = rshape(rng, 0, 4, p1=0.5)
        n = len(shape)
        kind = rng.choice([('ext', 'torch.squeeze'), ('method', 'squeeze')])
        x = rng.random()
        if x < 0.35:
            yield C(kind[0], kind[1], [A], A=(shape, rdtype(rng)))
        elif x < 0.85:
            yield C(kind[0], kind[1], [A, rng.randint(-n - 1, n)], A=(shape, rdtype(rng)))
        else:
            k = rng.randint(1, max(n, 1))
            yield C(kind[0], kind[1], [A, tuple(rng.sample(range(-n, n), min(k, 2 * n)) if n else [0])], A=(shape, rdtype(rng)))


def _rslice(rng, n):
    def b():
        return rng.choice([None, None, 0, 1, 2, n, n + 1, -1, -2, -n, -n - 1, n - 1])
    return slice(b(), b(), rng.choice([None, None, 1, 2, 3]))


def _rindex(rng, shape, allow_adv=True, allow_bad=True):
    n = len(shape)
    items = []
    used_adv = False
    k = 0
    ell = False
    while k < n:
        x = rng.random()
        s = shape[k]
        if x < 0.3:
            if allow_bad and rng.random() < 0.08:
                items.append(rng.choice([s, -s - 1, s + 2]))
            else:
                items.append(rng.randint(-s, s - 1))
            k += 1
        elif x < 0.6:
            items.append(_rslice(rng, s))
            k += 1
        elif x < 0.7:
            items.append(slice(None))
            k += 1
        elif x < 0.8:
            items.append(None)
        elif x < 0.88 and not ell:
            ell = True
            items.append(Ellipsis)
            k += rng.randint(0, n - k)
        elif x < 0.95 and allow_adv and not used_adv:
            used_adv = True
            m = rng.randint(1, 3)
            items.append(ITensor([rng.randint(-s, s - 1) for _ in range(m)]))
            k += 1
        else:
            break
    if allow_bad and rng.random() < 0.04:
        items.append(0)
        items.append(0)
    if len(items) == 1 and rng.random() < 0.5:
        return items[0]
    return tuple(items)


@gen('getitem', 32, 70)
def g_getitem(rng, tier):
    S = slice
    sh = [3, 4, 2]
    yield C('getitem', None, [A, 1], A=(sh, F64))
    yield C('getitem', None, [A, -1], A=(sh, F32))
    yield C('getitem', None, [A, (S(None), S(1, 3), -1)], A=(sh, C128))
    yield C('getitem', None, [A, (S(None, None, 2), None, Ellipsis)], A=(sh, F64))
    yield C('getitem', None, [A, 3], A=(sh, F64))
    yield C('getitem', None, [A, -4], A=(sh, F64))
    yield C('getitem', None, [A, (S(None), ITensor([0, 2, -1]))], A=(sh, F64))
    yield C('getitem', None, [A, (Ellipsis, S(0, 1))], A=(sh, F64))
    yield C('getitem', None, [A, (0, 0, 0, 0)], A=(sh, F64))
    yield C('getitem', None, [A, (S(-3, None, 2), S(None, -1), S(5, 7))], A=(sh, F64))
    yield C('getitem', None, [A, (Ellipsis, Ellipsis)], A=(sh, F64))
    yield C('getitem', None, [A, (Ellipsis, 0, Ellipsis)], A=(sh, F64))
    yield C('getitem', None, [A, S(None, None, 0)], A=(sh, F64))
    yield C('getitem', None, [A, S(None, None, -1)], A=(sh, F64))
    yield C('getitem', None, [A, (S(None), ITensor([0, 4]))], A=(sh, F64))
    yield C('getitem', None, [A, (S(None), ITensor(3, 'arange'))], A=(sh, F64))
    yield C('getitem', None, [A, (S(None), ITensor([1, 0], 'tensor'))], A=(sh, F64))
    yield C('getitem', None, [A, ITensor([[0, 1], [2, 0]])], A=(sh, F64))
    yield C('getitem', None, [A, (None, None)], A=([], F64))
    yield C('getitem', None, [A, Ellipsis], A=([], F64))
    yield C('getitem', None, [A, 0], A=([], F64))
    yield C('getitem', None, [A, (S(2, 1), 0)], A=(sh, F64))
    yield C('getitem', None, [A, (1, ITensor([0, 3]), S(None))], A=(sh, F64))
    yield C('getitem', None, [A, (ITensor([0, 2]), S(None), 1)], A=(sh, F64))
    yield C('getitem', None, [A, (S(None), ITensor([0, 2]), 1)], A=(sh, F64))
    yield C('getitem', None, [A, (0, S(None), ITensor([0, 1]))], A=(sh, F64))
    yield C('getitem', None, [A, (ITensor([0, 2]), ITensor([1, 1]))], A=(sh, F64))
    yield C('getitem', None, [A, True], A=(sh, F64))
    yield C('getitem', None, [A, 1.0], A=(sh, F64))
    yield C('getitem', None, [A, [0, 1]], A=(sh, F64))
    yield C('getitem', None, [TRef('A', [('permute', [2, 0, 1])]), (1, S(1, None))], A=(sh, F64))
    while True:
        shape = rshape(rng, 1, 4, p1=0.15)
        yield C('getitem', None, [A, _rindex(rng, shape)], A=(shape, rdtype(rng)))


@gen('setitem', 18, 45)
def g_setitem(rng, tier):
    S = slice
    yield C('setitem', None, [A, (S(None), S(1, 3)), V], A=([2, 4], F64), V=([2, 2], F64))
    yield C('setitem', None, [A, (S(None), S(1, 3)), V], A=([2, 4], F64), V=([1, 2], F64))
    yield C('setitem', None, [A, (S(None), S(1, 3)), V], A=([2, 4], F64), V=([2, 1], F64))
    yield C('setitem', None, [A, 1, V], A=([2, 4], F64), V=([4], F64))
    yield C('setitem', None, [A, (0, -1), 2.5], A=([2, 4], F64))
    yield C('setitem', None, [A, (S(None), S(1, 3)), V], A=([2, 4], F64), V=([2, 3], F64))
    yield C('setitem', None, [A, (S(None, None, 2),), V], A=([4, 3], F32), V=([3], F64))
    yield C('setitem', None, [A, (S(None), 0), V], A=([2, 4], C128), V=([2], C128))
    yield C('setitem', None, [A, 2, V], A=([2, 4], F64), V=([4], F64))
    yield C('setitem', None, [A, (S(None), S(1, 3)), V], A=([2, 4], F64), V=([1, 1, 2, 2], F64))
    yield C('setitem', None, [A, (S(None), S(1, 3)), V], A=([2, 4], F64), V=([2, 1, 2], F64))
    yield C('setitem', None, [A, (S(None), S(1, 3)), V], A=([2, 4], F64), V=([], F64))
    yield C('setitem', None, [A, (S(None), S(0, 2)), V], A=([2, 4], F64), V=([2, 2], C128))
    yield C('setitem', None, [A, (S(None), S(0, 2)), V], A=([2, 4], I64), V=([2, 2], F64))
    yield C('setitem', None, [A, (S(None), S(0, 2)), 3], A=([2, 4], C128))
    yield C('setitem', None, [A, (0, 0, 0), 1.0], A=([2, 4], F64))
    yield C('setitem', None, [A, (S(1, 1),), V], A=([2, 4], F64), V=([0, 4], F64))
    yield C('setitem', None, [A, (S(0, 4, 3), S(None)), V], A=([4, 2], F64), V=([2, 2], F64))
    while True:
        shape = rshape(rng, 1, 3, p1=0.15)
        idx = _rindex(rng, shape, allow_adv=False, allow_bad=rng.random() < 0.3)
        idx_t = idx if isinstance(idx, tuple) else (idx,)
        if any(i is None or i is Ellipsis for i in idx_t):
            continue
        vs = []
        bad = False
        for k, s in enumerate(shape):
            i = idx_t[k] if k < len(idx_t) else slice(None)
            if isinstance(i, slice):
                vs.append(len(range(*i.indices(s))))
            elif not (-s <= i < s):
                bad = True
        x = rng.random()
        if x < 0.25 or bad:
            yield C('setitem', None, [A, idx, rng.choice([1, 0, -2, 1.5])], A=(shape, rdtype(rng, ints=False)))
            continue
        if x < 0.5:
            vs = [1 if rng.random() < 0.4 else v for v in vs]
        elif x < 0.6:
            vs = vs[rng.randint(0, len(vs)):]
        elif x < 0.7 and vs:
            vs[rng.randrange(len(vs))] += 1
        dt = rdtype(rng, ints=False)
        yield C('setitem', None, [A, idx, V], A=(shape, dt), V=(vs, rng.choice([dt, dt, F64, F32])))


def _bshapes(rng):
    a = rshape(rng, 0, 3)
    b = []
    for s in a:
        x = rng.random()
        b.append(s if x < 0.6 else 1 if x < 0.85 else rng.choice([1, 2, 3, 4]))
    if rng.random() < 0.3:
        b = b[rng.randint(0, len(b)):]
    if rng.random() < 0.3:
        a = [1 if rng.random() < 0.5 else s for s in a]
    if rng.random() < 0.5:
        a, b = b, a
    return a, b


@gen('binary', 24, 80)
def g_binary(rng, tier):
    ops = ['Add', 'Sub', 'Mult', 'Div']
    yield C('binop', 'Add', [A, B], A=([2, 3], F64), B=([2, 3], F64))
    yield C('binop', 'Sub', [A, B], A=([2, 3], F64), B=([1, 3], F32))
    yield C('binop', 'Mult', [A, B], A=([2, 1, 3], F32), B=([4, 1], C128))
    yield C('binop', 'Div', [A, B], A=([2, 3], F64), B=([3], F64, 'nonzero'))
    yield C('binop', 'Add', [A, B], A=([2, 3], F64), B=([2], F64))
    yield C('binop', 'Mult', [A, 2], A=([2, 3], F32))
    yield C('binop', 'Mult', [2.5, A], A=([2, 3], I64))
    yield C('binop', 'Div', [A, 2], A=([2, 3], I64))
    yield C('binop', 'Div', [1, A], A=([2, 3], F64, 'nonzero'))
    yield C('binop', 'Sub', [1.5, A], A=([2, 3], C128))
    yield C('binop', 'Mult', [A, B], A=([3], F32), B=([], F64))
    yield C('binop', 'Mult', [A, B], A=([], F64), B=([3], I64))
    yield C('binop', 'Add', [A, B], A=([], F32), B=([], F64))
    yield C('binop', 'Mult', [A, B], A=([3], F32), B=([], C128))
    yield C('binop', 'Mult', [A, B], A=([3], I64), B=([], F64))
    yield C('binop', 'Div', [A, B], A=([3], I64), B=([3], I64, 'nonzero'))
    yield C('binop', 'Mult', [A, 1 + 2j], A=([3], F32))
    yield C('binop', 'Mult', [A, True], A=([3], F32))
    yield C('binop', 'Add', [A, B], A=([2, 3], F64), B=([3, 2], F64))
    yield C('binop', 'Add', [A, B], A=([1], F64), B=([3, 2], F32))
    yield C('binop', 'Sub', [A, B], A=([3], F32), B=([1], F64))
    yield C('binop', 'Pow', [A, 2], A=([2, 3], F64))
    yield C('binop', 'Add', [A, PyNone()], A=([2], F64))
    yield C('binop', 'Add', [A, [1.0, 2.0]], A=([2], F64))
    while True:
        op = rng.choice(ops)
        x = rng.random()
        if x < 0.6:
            a, b = _bshapes(rng)
            da, db = rdtype(rng), rdtype(rng)
            if op == 'Div':
                yield C('binop', op, [A, B], A=(a, da), B=(b, db, 'nonzero'))
            else:
                yield C('binop', op, [A, B], A=(a, da), B=(b, db))
        else:
            s = rng.choice([2, -1, 3, 0.5, 2.0, -1.5, 1, 1 + 1j])
            shape = rshape(rng, 0, 3)
            dt = rdtype(rng)
            if rng.random() < 0.5:
                yield C('binop', op, [A, s], A=(shape, dt))
            else:
                yield C('binop', op, [s, A], A=(shape, dt, 'nonzero'))


@gen('inplace', 17, 45)
def g_inplace(rng, tier):
    yield C('inplace', 'Mult', [A, 2.0], A=([2, 3], F64))
    yield C('inplace', 'Div', [A, B], A=([2, 3], F64), B=([3], F64, 'nonzero'))
    yield C('inplace', 'Mult', [A, B], A=([2, 3], F64), B=([2, 3], C128))
    yield C('inplace', 'Mult', [A, B], A=([3], F64), B=([2, 3], F64))
    yield C('inplace', 'Mult', [A, B], A=([2, 3], F32), B=([2, 3], F64))
    yield C('inplace', 'Div', [A, 2], A=([2, 3], I64))
    yield C('inplace', 'Mult', [A, 2.5], A=([2, 3], I64))
    yield C('inplace', 'Mult', [A, 2], A=([2, 3], I64))
    yield C('inplace', 'Add', [A, B], A=([2, 3], C128), B=([1, 3], F32))
    yield C('inplace', 'Sub', [A, B], A=([2, 3], F64), B=([], F32))
    yield C('inplace', 'Mult', [A, B], A=([2, 3], F64), B=([], C128))
    yield C('inplace', 'Mult', [A, B], A=([2, 3], I64), B=([], F64))
    yield C('inplace', 'Mult', [A, B], A=([2, 3], F64), B=([2, 2], F64))
    yield C('inplace', 'Mult', [A, B], A=([1, 3], F64), B=([2, 3], F64))
    yield C('inplace', 'Mult', [A, A], A=([2, 3], F64))
    yield C('inplace', 'Div', [A, 1 + 1j], A=([2], F64))
    yield C('inplace', 'Mult', [A, B], A=([], F64), B=([1], F64))
    while True:
        op = rng.choice(['Mult', 'Div', 'Mult', 'Div', 'Add', 'Sub'])
        x = rng.random()
        if x < 0.6:
            a, b = _bshapes(rng)
            da, db = rdtype(rng), rdtype(rng)
            yield C('inplace', op, [A, B], A=(a, da), B=(b, db, 'nonzero'))
        else:
            s = rng.choice([2, -1, 3, 0.5, 2.0, -1.5, 1])
            yield C('inplace', op, [A, s], A=(rshape(rng, 0, 3), rdtype(rng)))


@gen('neg')
def g_neg(rng, tier):
    yield C('neg', None, [A], A=([2, 3], F64))
    yield C('neg', None, [A], A=([], F32))
    yield C('neg', None, [A], A=([2], C128))
    yield C('neg', None, [A], A=([2, 1], I64))
    yield C('neg', None, [TRef('A', [('permute', [1, 0])])], A=([2, 3], F64))
    while True:
        yield C('neg', None, [A], A=(rshape(rng, 0, 4), rdtype(rng)))


@gen('conj')
def g_conj(rng, tier):
    yield C('ext', 'torch.conj', [A], A=([2, 3], F64))
    yield C('ext', 'torch.conj', [A], A=([2, 3], C128))
    yield C('method', 'conj', [A], A=([3], C128))
    yield C('method', 'conj', [A], A=([3], F32))
    yield C('ext', 'torch.conj', [A], A=([], C128))
    yield C('ext', 'torch.conj', [A], A=([2], I64))
    yield C('ext', 'torch.conj', [TRef('A', [('permute', [1, 0])])], A=([2, 3], C128))
    while True:
        kind = rng.choice([('ext', 'torch.conj'), ('method', 'conj')])
        yield C(kind[0], kind[1], [A], A=(rshape(rng, 0, 4), rng.choice([F64, C128, C128, F32, I64])))


PAD = 'torch.nn.functional.pad'


@gen('pad')
def g_pad(rng, tier):
    yield C('ext', PAD, [A, (0, 1)], A=([2, 3], F64))
    yield C('ext', PAD, [A, (1, 2, 0, 1)], {'value': 2.5}, A=([2, 3], F64))
    yield C('ext', PAD, [A, [0, 0, 2, 0]], A=([2, 3], F32))
    yield C('ext', PAD, [A, (0, 0)], A=([2, 3], F64))
    yield C('ext', PAD, [A, (1, 1, 1, 1, 1, 1)], {'value': -1}, A=([2, 1, 3], C128))
    yield C('ext', PAD, [A, (1,)], A=([2, 3], F64))
    yield C('ext', PAD, [A, (1, 1, 1, 1, 1, 1)], A=([2, 3], F64))
    yield C('ext', PAD, [A, (0, 2), 'constant', 1.5], A=([3], F64))
    yield C('ext', PAD, [A, (1, 1)], {'value': 2}, A=([3], I64))
    yield C('ext', PAD, [A, (1, 1)], {'value': 2.5}, A=([3], I64))
    yield C('ext', PAD, [A, (1, 0)], {'value': PyNone()}, A=([3], F64))
    yield C('ext', PAD, [A, (-1, 0)], A=([3], F64))
    yield C('ext', PAD, [A, (1.0, 0)], A=([3], F64))
    yield C('ext', PAD, [A, ()], A=([3], F64))
    yield C('ext', PAD, [A, (1, 1)], A=([], F64))
    yield C('ext', PAD, [A, (0, 0, 0, 0)], A=([2, 3], F64))
    while True:
        shape = rshape(rng, 1, 4)
        k = rng.randint(1, len(shape))
        pads = [rng.choice([0, 0, 1, 2, 3]) for _ in range(2 * k)]
        kw = {}
        if rng.random() < 0.5:
            kw['value'] = rng.choice([1, 2.5, -1.0, 0, 0.0])
        if rng.random() < 0.05:
            pads = pads[:-1]
        yield C('ext', PAD, [A, rng.choice([tuple, list])(pads)], kw, A=(shape, rdtype(rng, ints=False)))


@gen('cat')
def g_cat(rng, tier):
    yield C('ext', 'torch.cat', [[A, B], 0], A=([2, 3], F64), B=([1, 3], F64))
    yield C('ext', 'torch.cat', [[A, B]], {'dim': 1}, A=([2, 3], F64), B=([2, 2], F32))
    yield C('ext', 'torch.cat', [(A, B, Cc), -1], A=([2, 1, 3], C128), B=([2, 1, 1], F64), C=([2, 1, 2], F64))
    yield C('ext', 'torch.cat', [[A, B], 0], A=([2, 3], F64), B=([2, 2], F64))
    yield C('ext', 'torch.cat', [[A, B], 0], A=([2, 3], F64), B=([3], F64))
    yield C('ext', 'torch.cat', [[A, B], 2], A=([2, 3], F64), B=([2, 3], F64))
    yield C('ext', 'torch.cat', [[A], 0], A=([2, 3], F64))
    yield C('ext', 'torch.cat', [[]], A=([2], F64))
    yield C('ext', 'torch.cat', [[A, B], -3], A=([2, 3], F64), B=([2, 3], F64))
    yield C('ext', 'torch.cat', [[A, B], 0], A=([2, 3], I64), B=([1, 3], F32))
    yield C('ext', 'torch.cat', [[A, B], 0], A=([0], F64), B=([2, 3], F64))
    yield C('ext', 'torch.cat', [[A, 1.0], 0], A=([2], F64))
    yield C('ext', 'torch.cat', [[A, B], 0], A=([], F64), B=([], F64))
    yield C('ext', 'torch.concat', [[A, B]], {'axis': 1}, A=([2, 3], F64), B=([2, 1], F64))
    while True:
        shape = rshape(rng, 1, 3)
        n = len(shape)
        d = rng.randrange(n)
        k = rng.randint(1, 3)
        names = ['A', 'B', 'C'][:k]
        ins = {}
        for nm in names:
            s = list(shape)
            s[d] = rng.choice([1, 2, 3])
            if rng.random() < 0.08:
                s[rng.randrange(n)] += 1
            ins[nm] = (s, rdtype(rng))
        dim = d - n if rng.random() < 0.4 else d
        if rng.random() < 0.05:
            dim = n
        yield C('ext', 'torch.cat', [[TRef(nm) for nm in names], dim], **ins)


@gen('tile')
def g_tile(rng, tier):
    yield C('ext', 'torch.tile', [A, (2, 3)], A=([2, 3], F64))
    yield C('ext', 'torch.tile', [A, (2,)], A=([2, 3], F32))
    yield C('ext', 'torch.tile', [A, (2, 1, 2)], A=([2, 3], C128))
    yield C('ext', 'torch.tile', [A, [1, 3]], A=([1, 2], F64))
    yield C('ext', 'torch.tile', [A, (3, 1)], A=([1, 2], F64))
    yield C('ext', 'torch.tile', [A, (2,)], A=([], F64))
    yield C('ext', 'torch.tile', [A, ()], A=([2], F64))
    yield C('ext', 'torch.tile', [A, (0, 2)], A=([2, 2], F64))
    yield C('ext', 'torch.tile', [A, (1, 1)], A=([2, 2], F64))
    yield C('ext', 'torch.tile', [A, (-1, 1)], A=([2, 2], F64))
    while True:
        shape = rshape(rng, 0, 3)
        reps = [rng.choice([1, 1, 2, 3]) for _ in range(rng.randint(0, 4))]
        yield C('ext', 'torch.tile', [A, rng.choice([tuple, list])(reps)], A=(shape, rdtype(rng)))


@gen('diag')
def g_diag(rng, tier):
    yield C('ext', 'torch.diag', [A], A=([3], F64))
    yield C('ext', 'torch.diag', [A], A=([3, 3], F64))
    yield C('ext', 'torch.diag', [A], A=([2, 4], F32))
    yield C('ext', 'torch.diag', [A], A=([4, 2], C128))
    yield C('ext', 'torch.diag', [A], A=([2, 2, 2], F64))
    yield C('ext', 'torch.diag', [A], A=([], F64))
    yield C('ext', 'torch.diag', [A], A=([1], I64))
    yield C('ext', 'torch.diag', [A], A=([1, 3], F64))
    yield C('ext', 'torch.diag', [A], A=([0], F64))
    while True:
        yield C('ext', 'torch.diag', [A], A=(rshape(rng, 1, 2, sizes=(1, 2, 3, 4, 5)), rdtype(rng)))


@gen('diagonal')
def g_diagonal(rng, tier):
    yield C('ext', 'torch.diagonal', [A], A=([3, 3], F64))
    yield C('ext', 'torch.diagonal', [A], {'dim1': 0, 'dim2': 2}, A=([2, 3, 4], F64))
    yield C('ext', 'torch.diagonal', [A, 0, 1, 2], A=([2, 3, 3], F32))
    yield C('ext', 'torch.diagonal', [A, 0, -1, 0], A=([2, 3, 4], C128))
    yield C('ext', 'torch.diagonal', [A, 0, 1, 1], A=([2, 3, 4], F64))
    yield C('ext', 'torch.diagonal', [A, 0, 1, -2], A=([2, 3, 4], F64))
    yield C('ext', 'torch.diagonal', [A, 0, 0, 3], A=([2, 3, 4], F64))
    yield C('ext', 'torch.diagonal', [A], A=([3], F64))
    yield C('ext', 'torch.diagonal', [A, 1], A=([3, 3], F64))
    yield C('ext', 'torch.diagonal', [A], {'dim1': 2, 'dim2': 0}, A=([2, 3, 4], F64))
    yield C('ext', 'torch.diagonal', [A], {'dim1': 1, 'dim2': 3}, A=([2, 3, 1, 2], F64))
    while True:
        shape = rshape(rng, 2, 4)
        n = len(shape)
        d1, d2 = rng.randint(-n, n - 1), rng.randint(-n, n - 1)
        if rng.random() < 0.05:
            d2 = n
        if rng.random() < 0.5:
            yield C('ext', 'torch.diagonal', [A, 0, d1, d2], A=(shape, rdtype(rng)))
        else:
            yield C('ext', 'torch.diagonal', [A], {'dim1': d1, 'dim2': d2}, A=(shape, rdtype(rng)))


def repo_equations(which=None):
    """equation strings of every torch.einsum / oe.contract call of the repository (which = 'einsum' | 'contract' | None)"""
    repo = interp.REPO
    eqs = []
    first = ['_tt_base.py', '_extras.py', '_aux_ops.py', 'manifold.py', '_dmrg.py']
    files = [os.path.join(repo, 'torchtt', f) for f in first]
    files += [f for f in sorted(glob.glob(os.path.join(repo, 'torchtt', '*.py'))) if f not in files]
    for f in files:
        if not os.path.exists(f):
            continue
        src = open(f).read()
        for m in re.finditer(r'''(einsum|contract)\(\s*(['"])([A-Za-z,.\-> ]+)\2''', src):
            e = m.group(3)
            if which is not None and m.group(1) != which:
                continue
            if e not in eqs:
                eqs.append(e)
    return eqs


def _einsum_case(rng, eq, variant, fn='torch.einsum'):
    """variant: 'plain' | 'bcast' (one occurrence of a shared letter has size 1) | 'mixed' (mixed dtypes) | 'bad'"""
    lhs = eq.replace(' ', '').split('->')[0]
    parts = lhs.split(',')
    letters = sorted(set(c for c in lhs if c.isalpha()))
    nl = len(letters)
    sizes_pool = (1, 2, 3) if nl <= 7 else (1, 2, 2)
    size = {c: rng.choice(sizes_pool) if rng.random() > 0.15 else 1 for c in letters}
    if variant in ('bcast', 'bad'):
        shared = [c for c in letters if sum(p.count(c) for p in parts) > 1]
        c = rng.choice(shared) if shared else letters[0]
        size[c] = rng.choice([2, 3])
    ell = [rng.choice([1, 2]) for _ in range(rng.randint(0, 2))]
    shapes = []
    for p in parts:
        if '...' in p:
            a, b = p.split('...')
            shapes.append([size[x] for x in a] + ell + [size[x] for x in b])
        else:
            shapes.append([size[x] for x in p])
    if variant in ('bcast', 'bad'):
        occ = [(i, j) for i, p in enumerate(parts) for j, x in enumerate(p.replace('...', '')) if x == c]
        i, j = rng.choice(occ)
        p = parts[i]
        pos = j if '...' not in p or j < p.index('...') else j + len(ell)
        shapes[i][pos] = 1 if variant == 'bcast' else size[c] + 1
    if variant == 'mixed':
        dts = [rng.choice([F64, F32, C128]) for _ in parts]
    else:
        dt = rng.choice([F64, F64, F64, C128, F32])
        dts = [dt] * len(parts)
    names = ['A', 'B', 'C', 'D'][:len(parts)]
    ins = {nm: (sh, d) for nm, sh, d in zip(names, shapes, dts)}
    return C('ext', fn, [eq] + [TRef(nm) for nm in names], **ins)


@gen('einsum')
def g_einsum(rng, tier):
    eqs = repo_equations()
    for eq in eqs:
        yield _einsum_case(rng, eq, 'plain')
    yield C('ext', 'torch.einsum', ['ij,jk->ik', A, B], A=([2, 1], F64), B=([3, 2], F64))
    yield C('ext', 'torch.einsum', ['ij,jk->ik', A, B], A=([2, 3], F64), B=([1, 2], F64))
    yield C('ext', 'torch.einsum', ['ij,jk->ik', A, B], A=([2, 3], F64), B=([2, 2], F64))
    yield C('ext', 'torch.einsum', ['ij,ij->ij', A, B], A=([2, 1], F64), B=([1, 3], F64))
    yield C('ext', 'torch.einsum', ['ij,jk->ik', A, B], A=([2, 3], F32), B=([3, 2], F64))
    yield C('ext', 'torch.einsum', ['ij,jk->ik', A, B], A=([2, 3], F64), B=([3, 2], C128))
    yield C('ext', 'torch.einsum', ['ij,jk', A, B], A=([2, 3], F64), B=([3, 2], F64))
    yield C('ext', 'torch.einsum', ['ij,jk->ikz', A, B], A=([2, 3], F64), B=([3, 2], F64))
    yield C('ext', 'torch.einsum', ['ij,jk->ik', A], A=([2, 3], F64))
    yield C('ext', 'torch.einsum', ['ijk,jk->ik', A, B], A=([2, 3], F64), B=([3, 2], F64))
    yield C('ext', 'torch.einsum', ['ij->ji', A], A=([2, 3], F64))
    yield C('ext', 'torch.einsum', ['ii->i', A], A=([3, 3], F64))
    yield C('ext', 'torch.einsum', ['...i,ij->...j', A, B], A=([2], F64), B=([2, 3], F64))
    yield C('ext', 'torch.einsum', ['ij,jk->ik', [A, B]], A=([2, 3], F64), B=([3, 2], F64))
    yield C('ext', 'torch.einsum', ['ij,jk,kl->il', A, B, Cc], A=([2, 3], F64), B=([2, 2], F64), C=([2, 2], F64))
    yield C('ext', 'torch.einsum', ['ij,jk,kl->il', A, B, Cc], A=([2, 1], F64), B=([3, 2], F64), C=([2, 2], F64))
    yield C('ext', 'torch.einsum', ['ik,j->ijk', A, B], A=([2, 3], F32), B=([2], F64))
    yield C('ext', 'torch.einsum', ['ij,jk->ik', A, B], A=([2, 1], F32), B=([1, 2], F64))
    for eq in eqs:
        yield _einsum_case(rng, eq, 'bcast')
    if tier != 'quick':
        for eq in eqs:
            yield _einsum_case(rng, eq, rng.choice(['plain', 'mixed', 'bad', 'plain']))


g_einsum.all_cases = True


@gen('oe.contract')
def g_oe(rng, tier):
    OE = 'opt_einsum.contract'
    eqs = repo_equations('contract')
    for eq in eqs:
        yield _einsum_case(rng, eq, 'plain', OE)
    yield C('ext', OE, ['ij,jk->ik', A, B], A=([2, 1], F64), B=([3, 2], F64))
    yield C('ext', OE, ['ij,jk->ik', A, B], A=([2, 3], F64), B=([2, 2], F64))
    yield C('ext', OE, ['ij,jk,kl->il', A, B, Cc], A=([2, 3], F64), B=([2, 2], F64), C=([2, 2], F64))
    yield C('ext', OE, ['ij,jk->ik', A, B], A=([2, 3], F32), B=([3, 2], F64))
    yield C('ext', OE, ['ij,jk->ikz', A, B], A=([2, 3], F64), B=([3, 2], F64))
    yield C('ext', OE, ['ij,jk->ik', A], A=([2, 3], F64))
    yield C('ext', OE, ['ijk,jk->ik', A, B], A=([2, 3], F64), B=([3, 2], F64))
    yield C('ext', OE, ['ij->ji', A], A=([2, 3], F64))
    for eq in eqs:
        yield _einsum_case(rng, eq, 'bcast', OE)
    if tier != 'quick':
        for eq in eqs:
            yield _einsum_case(rng, eq, rng.choice(['plain', 'mixed', 'bad']), OE)


g_oe.all_cases = True


@gen('tensordot')
def g_tensordot(rng, tier):
    TD = 'torch.tensordot'
    yield C('ext', TD, [A, B], {'dims': ([1, 2], [0, 1])}, A=([2, 3, 4], F64), B=([3, 4, 2], F64))
    yield C('ext', TD, [A, B], {'dims': ([0, 2], [2, 0])}, A=([2, 3, 4], F64), B=([4, 1, 2], F64))
    yield C('ext', TD, [A, B], {'dims': ([1], [0])}, A=([2, 3], F64), B=([2, 4], F64))
    yield C('ext', TD, [A, B], {'dims': ([1], [0])}, A=([2, 3], F64), B=([1, 4], F64))
    yield C('ext', TD, [A, B], {'dims': ([1], [0])}, A=([2, 1], F64), B=([3, 4], F64))
    yield C('ext', TD, [A, B, ([-1], [0])], A=([2, 3], C128), B=([3, 4], C128))
    yield C('ext', TD, [A, B], {'dims': 2}, A=([2, 3, 4], F32), B=([3, 4, 2], F32))
    yield C('ext', TD, [A, B], {'dims': ([1, 2], [0])}, A=([2, 3, 4], F64), B=([3, 4, 2], F64))
    yield C('ext', TD, [A, B], {'dims': ([1], [3])}, A=([2, 3], F64), B=([3, 4], F64))
    yield C('ext', TD, [A, B], {'dims': ([1], [0])}, A=([2, 3], F32), B=([3, 4], F64))
    yield C('ext', TD, [A, B], {'dims': ([], [])}, A=([2], F64), B=([3], F64))
    yield C('ext', TD, [A, B], {'dims': ([1, 1], [0, 1])}, A=([2, 3], F64), B=([3, 3], F64))
    yield C('ext', TD, [A, B], {'dims': 0}, A=([2], F64), B=([3], F64))
    yield C('ext', TD, [A, B], {'dims': 1}, A=([2, 3], F64), B=([3, 2], F64))
    while True:
        sa = rshape(rng, 1, 3)
        sb = rshape(rng, 1, 3)
        k = rng.randint(0, min(len(sa), len(sb)))
        da = rng.sample(range(len(sa)), k)
        db = rng.sample(range(len(sb)), k)
        for x, y in zip(da, db):
            r = rng.random()
            if r < 0.82:
                sb[y] = sa[x]
            elif r < 0.9:
                sb[y] = 1
        da = [d - len(sa) if rng.random() < 0.2 else d for d in da]
        dt = rdtype(rng, ints=False)
        dt2 = dt if rng.random() < 0.9 else rdtype(rng)
        yield C('ext', TD, [A, B], {'dims': (da, db)}, A=(sa, dt), B=(sb, dt2))


@gen('matmul', 19, 45)
def g_matmul(rng, tier):
    yield C('binop', 'MatMult', [A, B], A=([2, 3], F64), B=([3, 4], F64))
    yield C('binop', 'MatMult', [A, B], A=([2, 3], F64), B=([3], F64))
    yield C('binop', 'MatMult', [A, B], A=([3], C128), B=([3, 2], C128))
    yield C('binop', 'MatMult', [A, B], A=([3], F32), B=([3], F32))
    yield C('binop', 'MatMult', [A, B], A=([2, 3], F64), B=([2, 4], F64))
    yield C('binop', 'MatMult', [A, B], A=([2, 3], F64), B=([1, 4], F64))
    yield C('binop', 'MatMult', [A, B], A=([2, 1], F64), B=([3, 4], F64))
    yield C('binop', 'MatMult', [A, B], A=([2, 3], F32), B=([3, 4], F64))
    yield C('binop', 'MatMult', [A, B], A=([2, 3], F64), B=([3, 4], C128))
    yield C('binop', 'MatMult', [A, B], A=([2, 3], F64), B=([2], F64))
    yield C('binop', 'MatMult', [A, B], A=([2, 2, 3], F64), B=([3, 4], F64))
    yield C('binop', 'MatMult', [A, B], A=([], F64), B=([3, 4], F64))
    yield C('binop', 'MatMult', [A, 2.0], A=([3, 4], F64))
    yield C('ext', 'torch.dot', [A, B], A=([3], F64), B=([3], F64))
    yield C('ext', 'torch.dot', [A, B], A=([3], C128), B=([3], C128))
    yield C('ext', 'torch.dot', [A, B], A=([3], F64), B=([2], F64))
    yield C('ext', 'torch.dot', [A, B], A=([3, 1], F64), B=([3], F64))
    yield C('binop', 'MatMult', [A, B], A=([2, 3], I64), B=([3, 2], I64))
    yield C('binop', 'MatMult', [TRef('A', [('permute', [1, 0])]), B], A=([3, 2], F64), B=([3, 2], F64))
    while True:
        na, nb = rng.choice([(2, 2), (2, 2), (2, 1), (1, 2), (1, 1)])
        k = rng.choice([1, 2, 3])
        sa = ([rng.choice([1, 2, 3])] if na == 2 else []) + [k]
        sb = [k if rng.random() < 0.88 else rng.choice([1, 2, 3])] + ([rng.choice([1, 2, 3])] if nb == 2 else [])
        dt = rdtype(rng, ints=False)
        dt2 = dt if rng.random() < 0.9 else rdtype(rng)
        yield C('binop', 'MatMult', [A, B], A=(sa, dt), B=(sb, dt2))


@gen('sum')
def g_sum(rng, tier):
    yield C('ext', 'torch.sum', [A], A=([2, 3], F64))
    yield C('ext', 'torch.sum', [A, [0, 2]], A=([2, 3, 4], F64))
    yield C('ext', 'torch.sum', [A, 1], {'keepdim': True}, A=([2, 3, 4], F32))
    yield C('method', 'sum', [A], {'dim': [-1, 0], 'keepdim': True}, A=([2, 3, 1], C128))
    yield C('method', 'sum', [A, -1], A=([2, 3], I64))
    yield C('ext', 'torch.sum', [A, [0, 0]], A=([2, 3], F64))
    yield C('ext', 'torch.sum', [A, 2], A=([2, 3], F64))
    yield C('ext', 'torch.sum', [A, [0, -2]], A=([2, 3], F64))
    yield C('ext', 'torch.sum', [A], A=([], F64))
    yield C('ext', 'torch.sum', [A, 0], A=([], F64))
    yield C('ext', 'torch.sum', [A, []], A=([2, 3], F64))
    yield C('ext', 'torch.sum', [A, (0, 1)], A=([2, 3], F64))
    yield C('ext', 'torch.sum', [A], {'keepdim': True}, A=([2, 3], F64))
    yield C('ext', 'torch.sum', [A, 0], A=([0, 3], F64))
    while True:
        shape = rshape(rng, 0, 4)
        n = len(shape)
        kind = rng.choice([('ext', 'torch.sum'), ('method', 'sum')])
        x = rng.random()
        kw = {'keepdim': True} if rng.random() < 0.4 else {}
        if x < 0.2 or n == 0:
            yield C(kind[0], kind[1], [A], A=(shape, rdtype(rng)))
        elif x < 0.5:
            yield C(kind[0], kind[1], [A, rng.randint(-n, n - 1) if rng.random() < 0.93 else n], kw, A=(shape, rdtype(rng)))
        else:
            k = rng.randint(1, n)
            dims = rng.sample(range(n), k)
            dims = [d - n if rng.random() < 0.3 else d for d in dims]
            yield C(kind[0], kind[1], [A, dims], kw, A=(shape, rdtype(rng)))


def _dtkw(rng, p=0.5):
    return {'dtype': DT(rng.choice([F64, F32, C128, I64]))} if rng.random() < p else {}


@gen('eye')
def g_eye(rng, tier):
    yield C('ext', 'torch.eye', [3])
    yield C('ext', 'torch.eye', [2, 3])
    yield C('ext', 'torch.eye', [3, 2], {'dtype': DT(F64)})
    yield C('ext', 'torch.eye', [1], {'dtype': DT(C128)})
    yield C('ext', 'torch.eye', [0])
    yield C('ext', 'torch.eye', [-1])
    yield C('ext', 'torch.eye', [2, -1])
    yield C('ext', 'torch.eye', [2.0])
    yield C('ext', 'torch.eye', [3], {'dtype': DT(I64)})
    yield C('ext', 'torch.eye', [2, 1], {'dtype': DT(F32)})
    while True:
        a = [rng.randint(0, 4)] + ([rng.randint(0, 4)] if rng.random() < 0.6 else [])
        yield C('ext', 'torch.eye', a, _dtkw(rng))


@gen('ones/zeros')
def g_ones(rng, tier):
    yield C('ext', 'torch.ones', [[2, 3]])
    yield C('ext', 'torch.zeros', [2, 3], {'dtype': DT(F64)})
    yield C('ext', 'torch.ones', [(2, 1, 3)], {'dtype': DT(C128)})
    yield C('ext', 'torch.zeros', [[]])
    yield C('ext', 'torch.ones', [[2, -1]])
    yield C('ext', 'torch.ones', [2.0])
    yield C('ext', 'torch.ones', [[2, 3.0]])
    yield C('ext', 'torch.zeros', [[0, 2]], {'dtype': DT(I64)})
    yield C('ext', 'torch.ones', [3], {'dtype': DT(F32), 'device': PyNone()})
    yield C('ext', 'torch.ones', [[2, [3]]])
    yield C('ext', 'torch.ones', [])
    while True:
        shape = rshape(rng, 0, 3, sizes=(0, 1, 2, 3))
        fn = rng.choice(['torch.ones', 'torch.zeros'])
        args = [shape] if rng.random() < 0.5 or not shape else list(shape)
        if rng.random() < 0.3 and args and isinstance(args[0], list):
            args = [tuple(shape)]
        yield C('ext', fn, args, _dtkw(rng))


@gen('kron')
def g_kron(rng, tier):
    yield C('ext', 'torch.kron', [A, B], A=([2, 3], F64), B=([3, 2], F64))
    yield C('ext', 'torch.kron', [A, B], A=([2, 1], F32), B=([1, 2], F64))
    yield C('ext', 'torch.kron', [A, B], A=([2, 2], C128), B=([2, 2], F64))
    yield C('ext', 'torch.kron', [A, B], A=([1, 1], F64), B=([2, 3], F64))
    yield C('ext', 'torch.kron', [A, B], A=([3], F64), B=([2], F64))
    yield C('ext', 'torch.kron', [A, B], A=([2, 2], F64), B=([2], F64))
    yield C('ext', 'torch.kron', [A, B], A=([2, 2], I64), B=([2, 1], I64))
    yield C('ext', 'torch.kron', [A, B], A=([], F64), B=([], F64))
    while True:
        dt = rdtype(rng)
        yield C('ext', 'torch.kron', [A, B], A=(rshape(rng, 2, 2), dt), B=(rshape(rng, 2, 2), dt if rng.random() < 0.7 else rdtype(rng)))


@gen('linalg.norm')
def g_norm(rng, tier):
    yield C('ext', 'torch.linalg.norm', [A], A=([2, 3], F64))
    yield C('ext', 'torch.linalg.norm', [A], A=([2, 3], C128))
    yield C('method', 'norm', [A], A=([4], F32))
    yield C('ext', 'torch.linalg.norm', [A], A=([2, 3, 2], F64))
    yield C('ext', 'torch.linalg.norm', [A], A=([1, 1], F64))
    yield C('ext', 'torch.linalg.norm', [A], A=([], F64))
    yield C('ext', 'torch.linalg.norm', [A], A=([3], I64))
    yield C('method', 'norm', [A], A=([3], I64))
    yield C('ext', 'torch.linalg.norm', [A], A=([1], C128))
    yield C('ext', 'torch.linalg.norm', [A], A=([0], F64))
    while True:
        kind = rng.choice([('ext', 'torch.linalg.norm'), ('method', 'norm')])
        yield C(kind[0], kind[1], [A], A=(rshape(rng, 0, 4), rdtype(rng, ints=False)))


@gen('numel/size')
def g_numel(rng, tier):
    yield C('ext', 'torch.numel', [A], A=([2, 3], F64))
    yield C('method', 'numel', [A], A=([2, 1, 3], F32))
    yield C('ext', 'torch.numel', [A], A=([], F64))
    yield C('ext', 'torch.numel', [A], A=([0, 3], F64))
    yield C('ext', 'torch.numel', [3.0])
    yield C('attr', 'shape', [A], A=([2, 1, 3], F32))
    yield C('method', 'size', [A], A=([2, 1, 3], F32))
    yield C('method', 'size', [A, -1], A=([2, 1, 3], F32))
    yield C('method', 'size', [A, 3], A=([2, 1, 3], F32))
    yield C('method', 'dim', [A], A=([2, 1, 3], F32))
    yield C('attr', 'ndim', [A], A=([], F32))
    yield C('builtin', 'len', [A], A=([2, 1, 3], F32))
    yield C('builtin', 'len', [A], A=([], F32))
    while True:
        shape = rshape(rng, 0, 4, sizes=(0, 1, 2, 3, 4), p1=0.1)
        x = rng.random()
        if x < 0.5:
            kind = rng.choice([('ext', 'torch.numel'), ('method', 'numel')])
            yield C(kind[0], kind[1], [A], A=(shape, rdtype(rng)))
        elif x < 0.7:
            yield C('method', 'size', [A, rng.randint(-len(shape) - 1, len(shape))], A=(shape, rdtype(rng)))
        else:
            yield C(*rng.choice([('attr', 'shape'), ('method', 'size'), ('method', 'dim'), ('builtin', 'len')]), [A], A=(shape, rdtype(rng)))


ALL_DTYPES = ['bool', 'int32', 'int64', 'float16', 'float32', 'float64', 'complex64', 'complex128']


@gen('promote')
def g_promote(rng, tier):
    for a in ALL_DTYPES:
        for b in ALL_DTYPES:
            yield C('promote', None, [a, b])


g_promote.all_cases = True


@gen('scalar_dtype_promote')
def g_spromote(rng, tier):
    for a in ALL_DTYPES:
        for s in (2, 2.5, 1 + 2j, True):
            yield C('scalar_promote', None, [a, s])


g_spromote.all_cases = True


@gen('clone/detach/to')
def g_clone(rng, tier):
    yield C('method', 'clone', [A], A=([2, 3], F64))
    yield C('method', 'detach', [A], A=([2, 3], F64))
    yield C('method', 'to', [A, DT(F64)], A=([2, 3], F64))
    yield C('method', 'to', [A, DT(F32)], A=([2, 3], F64))
    yield C('method', 'to', [A], {'dtype': DT(C128)}, A=([2, 3], F32))
    yield C('method', 'double', [A], A=([2, 3], F32))
    yield C('method', 'double', [A], A=([2, 3], F64))
    yield C('method', 'float', [A], A=([2], I64))
    yield C('method', 'contiguous', [A], A=([2, 3], F64))
    yield C('method', 'contiguous', [TRef('A', [('permute', [1, 0])])], A=([2, 3], F64))
    yield C('method', 'cpu', [A], A=([2, 3], F64))
    yield C('attr', 'data', [A], A=([2, 3], F64))
    yield C('method', 'clone', [TRef('A', [('permute', [1, 0])])], A=([2, 3], C128))
    yield C('method', 'to', [A, DT(I64)], A=([2], I64))
    yield C('method', 'numpy', [A], A=([2, 2], F64))
    while True:
        shape = rshape(rng, 0, 3)
        dt = rdtype(rng)
        x = rng.random()
        if x < 0.3:
            yield C('method', rng.choice(['clone', 'detach', 'contiguous', 'cpu']), [A], A=(shape, dt))
        elif x < 0.7:
            to = rng.choice([F64, F32, C128] if dt != C128 else [C128])
            yield C('method', 'to', [A, DT(to)], A=(shape, dt))
        else:
            yield C('method', rng.choice(['double', 'float']), [A], A=(shape, rng.choice([F64, F32, I64])))


@gen('tensor/arange', 19, 40)
def g_tensor(rng, tier):
    yield C('ext', 'torch.tensor', [[[1, 2], [3, 4]]])
    yield C('ext', 'torch.tensor', [[1.5, 2]])
    yield C('ext', 'torch.tensor', [[1.0, 2.0]], {'dtype': DT(F64)})
    yield C('ext', 'torch.tensor', [3.0])
    yield C('ext', 'torch.tensor', [2])
    yield C('ext', 'torch.tensor', [[]])
    yield C('ext', 'torch.tensor', [[True, False]])
    yield C('ext', 'torch.tensor', [[1, 2, 3]], {'dtype': DT(C128)})
    yield C('ext', 'torch.tensor', [[[1, 2], [3]]])
    yield C('ext', 'torch.tensor', [A], A=([2, 2], F64))
    yield C('ext', 'torch.tensor', [[1, True]])
    yield C('ext', 'torch.arange', [4])
    yield C('ext', 'torch.arange', [0])
    yield C('ext', 'torch.arange', [-1])
    yield C('ext', 'torch.arange', [3], {'dtype': DT(F64)})
    yield C('ext', 'torch.tensor', [[1 + 2j, 2]])
    yield C('ext', 'torch.tensor', [(1, 2.0)])
    yield C('ext', 'torch.tensor', [[0.25, -1.5]], {'dtype': DT(I64)})
    while True:
        x = rng.random()
        if x < 0.25:
            yield C('ext', 'torch.arange', [rng.randint(0, 6)], _dtkw(rng, 0.3))
            continue
        shape = rshape(rng, 0, 3, sizes=(1, 2, 3), p1=0.2)
        pool = rng.choice([[1, 2, -3], [1.5, -2.0, 0.25], [1, 2.5, -1], [True, False], [1, True, 0]])

        def build(k):
            if k == len(shape):
                return rng.choice(pool)
            return [build(k + 1) for _ in range(shape[k])]
        kw = _dtkw(rng, 0.3)
        if 'dtype' in kw and kw['dtype'].name == I64 and any(isinstance(v, float) for v in pool):
            kw = {}          # float data with an integer dtype truncates: one core case only (see OPTABLE_FINDINGS.md)
        yield C('ext', 'torch.tensor', [build(0)], kw)


@gen('abs/sqrt/pow')
def g_unary(rng, tier):
    yield C('ext', 'torch.abs', [A], A=([2, 3], F64))
    yield C('method', 'abs', [A], A=([2], C128))
    yield C('builtin', 'abs', [A], A=([2], F32))
    yield C('binop', 'Pow', [A, 2], A=([2, 3], F64))
    yield C('binop', 'Pow', [A, 2], A=([2], C128))
    yield C('binop', 'Pow', [A, 2], A=([2], I64))
    yield C('binop', 'Pow', [A, 0.5], A=([2], I64))
    yield C('binop', 'Pow', [A, 3], A=([2], F32))
    yield C('ext', 'torch.sqrt', [A], A=([2], I64))
    while True:
        x = rng.random()
        shape = rshape(rng, 0, 3)
        if x < 0.5:
            yield C(*rng.choice([('ext', 'torch.abs'), ('method', 'abs'), ('builtin', 'abs')]), [A], A=(shape, rdtype(rng)))
        else:
            yield C('binop', 'Pow', [A, rng.choice([2, 2, 2, 3, 0.5, 2.0])], A=(shape, rdtype(rng)))


@gen('truth')
def g_truth(rng, tier):
    yield C('truth', None, [A], A=([2, 3], F64))
    yield C('truth', None, [A], A=([1, 1], F64))
    yield C('truth', None, [A], A=([], F64))
    yield C('truth', None, [A], A=([0], F64))
    yield C('truth', None, [A], A=([1], C128))
    yield C('truth', None, [A], A=([], I64))
    while True:
        yield C('truth', None, [A], A=(rshape(rng, 0, 3, p1=0.7), rdtype(rng)))


# ------------------------------------------------------------------------------------------------
# extension: contracts added for the cross approximation (integer index tensors, LU pivots, sort / topk / unravel_index,
# stacking), the conjugate bit, lossy casts, as_tensor / finfo / promote_types, predicates, single precision arithmetic.
# All generators below are finite lists (all_cases): hand-written cores, followed by a few random instances.
# ------------------------------------------------------------------------------------------------

def IT(data, how='manual'):
    return ITensor(data, how)


def xt(name, *args, **kw):
    return Sub('ext', name, list(args), kw)


def mt(name, obj, *args, **kw):
    return Sub('method', name, [obj] + list(args), kw)


def gi(obj, idx):
    return Sub('getitem', None, [obj, idx])


def bo(op, a, b):
    return Sub('binop', op, [a, b])


def i_ones(*shape, **kw):
    return xt('torch.ones', *shape, dtype=DT(kw.get('dtype', I64)))


def i_zeros(*shape, **kw):
    return xt('torch.zeros', *shape, dtype=DT(kw.get('dtype', I64)))


def i_arange(n, dtype=I64):
    return xt('torch.arange', n, dtype=DT(dtype))


def finite(f):
    f.all_cases = True
    return f


def _rand_idata(rng, shape, lo=-4, hi=9):
    if not shape:
        return rng.randint(lo, hi)
    return [_rand_idata(rng, shape[1:], lo, hi) for _ in range(shape[0])]


@gen('int.create')
@finite
def g_int_create(rng, tier):
    yield C('ext', 'torch.ones', [3], {'dtype': DT(I64)})
    yield C('ext', 'torch.zeros', [(2, 3)], {'dtype': DT(I64)})
    yield C('ext', 'torch.zeros', [(1, 0)], {'dtype': DT(I64)})
    yield C('ext', 'torch.ones', [[2, 2]], {'dtype': DT('int32')})
    yield C('ext', 'torch.ones', [[]], {'dtype': DT(I64)})
    yield C('ext', 'torch.arange', [4], {'dtype': DT(I64)})
    yield C('ext', 'torch.arange', [0], {'dtype': DT(I64)})
    yield C('ext', 'torch.arange', [3], {'dtype': DT('int32')})
    yield C('ext', 'torch.arange', [3], {'dtype': DT(F32)})
    yield C('ext', 'torch.arange', [3.0])
    yield C('ext', 'torch.arange', [2.5])
    yield C('ext', 'torch.arange', [3], {'dtype': DT(I64), 'device': PyNone()})
    yield C('ext', 'torch.kron', [i_ones(2), i_arange(3)])
    yield C('ext', 'torch.kron', [i_arange(2), i_arange(3)])
    yield C('ext', 'torch.kron', [IT([1, 2]), IT([3, 4, 5])])
    yield C('ext', 'torch.kron', [IT([2, -1]), i_ones(1)])
    yield C('ext', 'torch.kron', [i_arange(3), i_zeros(0)])
    yield C('ext', 'torch.kron', [i_ones(2, dtype='int32'), i_arange(2)])
    yield C('ext', 'torch.kron', [i_arange(2), A], A=([3], F64))
    # the index grids of torchtt/interpolate.py:  reshape(kron(kron(ones(r1), arange(n1)), kron(ones(n2), ones(r2))), [-1, 1])
    yield C('ext', 'torch.reshape', [xt('torch.kron', xt('torch.kron', i_ones(2), i_arange(3)), xt('torch.kron', i_ones(2), i_ones(1))), [-1, 1]])
    yield C('ext', 'torch.kron', [xt('torch.kron', i_ones(2), i_ones(2)), xt('torch.kron', i_arange(2), i_ones(2))])
    yield C('ext', 'torch.kron', [xt('torch.kron', i_arange(2), i_ones(2)), xt('torch.kron', i_ones(2), i_arange(2))])
    for _ in range(4 if tier == 'quick' else 12):
        a = rng.choice([i_ones(rng.randint(1, 3)), i_arange(rng.randint(1, 4)), IT(_rand_idata(rng, [rng.randint(1, 3)]))])
        b = rng.choice([i_ones(rng.randint(1, 3)), i_arange(rng.randint(1, 4)), IT(_rand_idata(rng, [rng.randint(1, 3)]))])
        yield C('ext', 'torch.kron', [a, b])


M23 = [[1, 2, 3], [4, 5, 6]]


@gen('int.shape')
@finite
def g_int_shape(rng, tier):
    yield C('ext', 'torch.reshape', [IT(M23), [3, 2]])
    yield C('ext', 'torch.reshape', [IT(M23), [-1, 1]])
    yield C('method', 'reshape', [IT(M23), [1, -1]])
    yield C('method', 'reshape', [IT(M23), 6])
    yield C('method', 'reshape', [IT([[1, 2, 3, 4], [5, 6, 7, 8], [9, 10, 11, 12]]), [2, 6]])
    yield C('method', 'reshape', [i_arange(6), [2, 3]])
    yield C('method', 'reshape', [i_arange(6), [4, 2]])
    yield C('ext', 'torch.reshape', [mt('permute', IT(M23), [1, 0]), [6]])
    yield C('method', 'permute', [IT(M23), [1, 0]])
    yield C('ext', 'torch.permute', [IT([[[1, 2], [3, 4]], [[5, 6], [7, 8]], [[9, 10], [11, 12]]]), [2, 0, 1]])
    yield C('method', 't', [IT(M23)])
    yield C('method', 't', [IT([1, 2, 3])])
    yield C('attr', 'T', [IT(M23)])
    yield C('method', 'transpose', [IT(M23), 0, 1])
    yield C('ext', 'torch.squeeze', [IT([[1, 2, 3]])])
    yield C('method', 'squeeze', [IT([[1], [2]]), 1])
    yield C('method', 'squeeze', [IT([[1], [2]]), 0])
    yield C('ext', 'torch.unsqueeze', [IT([1, 2, 3]), 0])
    yield C('method', 'unsqueeze', [IT([1, 2, 3]), -1])
    yield C('method', 'unsqueeze', [IT(5), 0])
    yield C('method', 'flatten', [IT(M23)])
    yield C('method', 'clone', [IT(M23)])
    yield C('method', 'to', [IT(M23), DT(F64)])
    yield C('method', 'to', [IT(M23), DT('int32')])
    yield C('method', 'numpy', [IT(M23)])
    yield C('method', 'reshape', [mt('numpy', IT(M23)), [1, -1]])
    yield C('method', 'reshape', [mt('numpy', IT(M23)), [-1, 1]])
    yield C('method', 'sum', [IT(M23)])
    yield C('method', 'sum', [IT(M23), 0])
    yield C('ext', 'torch.prod', [IT([2, 3, 4])])
    for _ in range(6 if tier == 'quick' else 20):
        shape = rshape(rng, 1, 3, sizes=(1, 2, 3))
        data = _rand_idata(rng, shape)
        x = rng.random()
        if x < 0.5:
            tgt = _regroup_shape(rng, shape)
            if rng.random() < 0.4 and tgt:
                tgt[rng.randrange(len(tgt))] = -1
            if rng.random() < 0.3:
                rng.shuffle(tgt)
            yield C('method', 'reshape', [IT(data), tgt])
        elif x < 0.75:
            p = list(range(len(shape)))
            rng.shuffle(p)
            yield C('method', 'permute', [IT(data), p])
        else:
            yield C('ext', 'torch.squeeze', [IT(data)])


@gen('int.arith')
@finite
def g_int_arith(rng, tier):
    yield C('binop', 'Add', [IT([1, 2, 3]), IT([10, 20, 30])])
    yield C('binop', 'Sub', [IT([1, 2, 3]), 1])
    yield C('binop', 'Sub', [5, IT([1, 2, 3])])
    yield C('binop', 'Mult', [IT([1, 2, 3]), 3])
    yield C('binop', 'Mult', [-2, IT([1, 2, 3])])
    yield C('binop', 'Add', [IT([1, 2, 3]), 0])
    yield C('binop', 'Mult', [IT([[1], [2]]), IT([3, 4, 5])])
    yield C('binop', 'Add', [IT(M23), IT([10, 20, 30])])
    yield C('binop', 'Add', [IT([1, 2, 3]), IT(7)])
    yield C('binop', 'Mult', [IT(7), IT([1, 2, 3])])
    yield C('binop', 'Add', [IT(3), IT(4)])
    yield C('binop', 'Add', [IT(3), 4])
    yield C('binop', 'Mult', [IT([1, 2, 3]), 2.5])
    yield C('binop', 'Add', [IT([1, 2, 3]), 1.0])
    yield C('binop', 'Div', [IT([1, 2, 3]), 2])
    yield C('binop', 'Mult', [IT([1, 2, 3]), True])
    yield C('binop', 'Add', [IT([1, 2, 3]), IT([1, 2])])
    yield C('binop', 'Add', [IT([1, 2, 3]), IT([1, 2, 3], 'manual32')])
    yield C('binop', 'Mult', [IT([1, 2, 3], 'manual32'), 2])
    yield C('binop', 'Mult', [IT([1, 2, 3], 'manual32'), IT(2)])
    yield C('binop', 'Mult', [i_arange(3), i_ones(3)])
    yield C('binop', 'Add', [bo('Mult', i_arange(3), 4), i_arange(1)])
    yield C('binop', 'Add', [i_arange(3), A], A=([3], F64))
    yield C('binop', 'Mult', [IT([1, 2, 3]), A], A=([], F32))
    yield C('neg', None, [IT([1, -2, 3])])
    yield C('inplace', 'Add', [IT([1, 2, 3]), 1])
    yield C('inplace', 'Mult', [IT([1, 2, 3]), IT([2, 2, 2])])
    for _ in range(6 if tier == 'quick' else 20):
        a, b = _bshapes(rng)
        op = rng.choice(['Add', 'Sub', 'Mult'])
        x = rng.random()
        if x < 0.55:
            yield C('binop', op, [IT(_rand_idata(rng, a)), IT(_rand_idata(rng, b))])
        elif x < 0.8:
            yield C('binop', op, [IT(_rand_idata(rng, a)), rng.randint(-3, 5)])
        else:
            yield C('binop', op, [rng.randint(-3, 5), IT(_rand_idata(rng, b))])


Z10 = i_zeros((1, 0))
Z02 = i_zeros((0, 2))


@gen('int.cat/stack')
@finite
def g_int_cat(rng, tier):
    r12, r12b, c21 = IT([[1, 2]]), IT([[7, 8]]), IT([[5], [6]])
    v3, v2 = IT([1, 2, 3]), IT([8, 9])
    yield C('ext', 'torch.cat', [[IT(M23), IT([[7, 8, 9]])], 0])
    yield C('ext', 'torch.cat', [[IT(M23), c21], 1])
    yield C('ext', 'torch.cat', [(v3, v2)])
    yield C('ext', 'torch.cat', [[v3, v2], -1])
    yield C('ext', 'torch.concat', [(IT(M23), c21), 1])
    yield C('ext', 'torch.concat', [[IT(M23), c21]], {'dim': 1})
    yield C('ext', 'torch.concat', [[IT(M23), c21]], {'axis': 1})
    yield C('ext', 'torch.concat', [(c21, c21, c21, c21), 1])
    yield C('ext', 'torch.cat', [[Z10, r12], 1])
    yield C('ext', 'torch.cat', [[r12, Z10], 1])
    yield C('ext', 'torch.cat', [[Z10, Z10], 1])
    yield C('ext', 'torch.cat', [[Z10, r12], 0])
    yield C('ext', 'torch.cat', [[Z02, r12], 0])
    yield C('ext', 'torch.cat', [[i_zeros(0), v3], 0])
    yield C('ext', 'torch.cat', [[i_zeros(0), r12], 1])
    yield C('ext', 'torch.cat', [[v3, IT([1, 2], 'manual32')], 0])
    yield C('ext', 'torch.cat', [[v3, A], 0], A=([2], F64))
    for lib in ('torch', 'numpy'):
        H, V = lib + '.hstack', lib + '.vstack'
        yield C('ext', H, [(v3, v2)])
        yield C('ext', H, [[IT(M23), c21]])
        yield C('ext', H, [(Z10, r12)])
        yield C('ext', H, [(r12, Z10)])
        yield C('ext', H, [(Z10, Z10)])
        yield C('ext', H, [(i_zeros(0), v3)])
        yield C('ext', H, [(v3, r12)])
        yield C('ext', H, [(IT(M23), IT([[1], [2], [3]]))])
        yield C('ext', H, [(IT(4), IT(5))])
        yield C('ext', H, [(v3,)])
        yield C('ext', H, [(A, c21)], A=([2, 2], F64))
        yield C('ext', V, [(v3, IT([4, 5, 6]))])
        yield C('ext', V, [[IT(M23), IT([[7, 8, 9]])]])
        yield C('ext', V, [(r12, r12b, r12)])
        yield C('ext', V, [(Z02, r12)])
        yield C('ext', V, [(r12, Z02)])
        yield C('ext', V, [(v3, IT(M23))])
        yield C('ext', V, [(IT(M23), v3)])
        yield C('ext', V, [(v3, v2)])
        yield C('ext', V, [(Z10, r12)])
        yield C('ext', V, [(IT(4), IT(5))])
        yield C('ext', V, [(A, v3)], A=([2, 3], F64))
        yield C('ext', V, [(A, B)], A=([3], F64), B=([3], F32))
    # the way interpolate.py uses them: numpy stacking of numpy / torch operands, then torch.tensor(...)
    yield C('ext', 'numpy.vstack', [(mt('reshape', mt('numpy', v3), [1, -1]), IT(M23))])
    yield C('ext', 'numpy.hstack', [(IT(M23), mt('reshape', mt('numpy', v2), [-1, 1]))])
    yield C('ext', 'torch.tensor', [xt('numpy.vstack', (mt('reshape', mt('numpy', v3), [1, -1]), IT(M23)))])
    yield C('ext', 'torch.tensor', [xt('numpy.hstack', (IT(M23), mt('reshape', mt('numpy', v2), [-1, 1])))])
    yield C('ext', 'torch.hstack', [(xt('torch.hstack', (Z10, r12)), r12b)])
    for _ in range(6 if tier == 'quick' else 20):
        n = rng.randint(1, 2)
        k = rng.randint(2, 3)
        if n == 1:
            ops = [IT(_rand_idata(rng, [rng.randint(0, 3)])) if rng.random() < 0.8 else i_zeros(0) for _ in range(k)]
            fn = rng.choice(['torch.hstack', 'numpy.hstack', 'torch.cat', 'torch.vstack', 'numpy.vstack'])
            if fn.endswith('vstack'):
                m = rng.randint(1, 3)
                ops = [IT(_rand_idata(rng, [m])) for _ in range(k)]
            yield C('ext', fn, [tuple(ops)])
        else:
            rows, cols = rng.randint(1, 2), rng.randint(1, 2)
            fn = rng.choice(['torch.hstack', 'numpy.hstack', 'torch.vstack', 'numpy.vstack', 'torch.concat'])
            ops = []
            for _ in range(k):
                z = rng.random() < 0.25
                if fn.endswith('vstack'):
                    ops.append(i_zeros((0, cols)) if z else IT(_rand_idata(rng, [rng.randint(1, 2), cols])))
                else:
                    ops.append(i_zeros((rows, 0)) if z else IT(_rand_idata(rng, [rows, rng.randint(1, 2)])))
            if fn == 'torch.concat':
                yield C('ext', fn, [tuple(ops), 1])
            else:
                yield C('ext', fn, [tuple(ops)])


@gen('int.index')
@finite
def g_int_index(rng, tier):
    S = slice
    X = IT([[1, 2, 3, 4], [5, 6, 7, 8], [9, 10, 11, 12]])
    sh = [3, 4]
    # advanced indexing of a float tensor with an integer index tensor
    yield C('getitem', None, [A, (IT([2, 0]), S(None))], A=(sh, F64))
    yield C('getitem', None, [A, (S(None), IT([3, 0, 0]))], A=(sh, F64))
    yield C('getitem', None, [A, (S(None), IT([-1, 1]))], A=(sh, F32))
    yield C('getitem', None, [A, (IT([2, 0], 'manual32'), S(None))], A=(sh, F64))
    yield C('getitem', None, [A, (i_arange(2), S(None))], A=(sh, C128))
    yield C('getitem', None, [A, (S(None), bo('Add', i_arange(2), 1))], A=(sh, F64))
    yield C('getitem', None, [A, (S(None), xt('torch.kron', i_ones(2), i_arange(2)))], A=(sh, F64))
    yield C('getitem', None, [A, (IT([[0, 1], [2, 2]]), S(None))], A=(sh, F64))
    yield C('getitem', None, [A, (S(None), IT([[0], [3]]))], A=(sh, F64))
    yield C('getitem', None, [A, (IT([3]), S(None))], A=(sh, F64))
    yield C('getitem', None, [A, (S(None), IT([4]))], A=(sh, F64))
    yield C('getitem', None, [A, (S(None), IT([-5]))], A=(sh, F64))
    yield C('getitem', None, [A, (IT(1), S(None))], A=(sh, F64))
    yield C('getitem', None, [A, (S(None), IT(-1))], A=(sh, F64))
    yield C('getitem', None, [A, IT(2)], A=(sh, F64))
    yield C('getitem', None, [A, (S(None), i_zeros(0))], A=(sh, F64))
    yield C('getitem', None, [A, (S(None), gi(IT(M23), (S(None), 0)))], A=(sh, F64))
    yield C('getitem', None, [A, (S(None), gi(IT(M23), 1))], A=([3, 7], F64))
    yield C('getitem', None, [A, (gi(IT([[0, 1, 2], [2, 1, 0]]), (S(None), IT([2, 0]))), S(None))], A=(sh, F64))
    yield C('getitem', None, [A, (IT([1, 0]), S(None), S(None))], A=([2, 2, 3], F64))
    yield C('getitem', None, [A, (S(None), S(None), IT([1, 0]))], A=([2, 2, 3], F64))
    yield C('getitem', None, [A, (S(None), IT([1, 0]), S(None))], A=([2, 2, 3], F64))
    # ... of an integer tensor
    yield C('getitem', None, [X, (IT([2, 0]), S(None))])
    yield C('getitem', None, [X, (S(None), IT([3, 0, 0]))])
    yield C('getitem', None, [X, (S(None), IT([-1, -4]))])
    yield C('getitem', None, [X, IT([1, 1])])
    yield C('getitem', None, [IT([5, 6, 7]), IT([2, 0, 1, 1])])
    yield C('getitem', None, [IT([5, 6, 7]), IT([[2, 0], [1, 1]])])
    yield C('getitem', None, [IT([5, 6, 7]), IT(1)])
    yield C('getitem', None, [X, (S(None), IT([4]))])
    yield C('getitem', None, [X, (gi(X, (0, S(0, 2))), S(None))])
    yield C('getitem', None, [X, (S(None), bo('Sub', gi(X, (0, S(0, 3))), 1))])
    yield C('getitem', None, [mt('numpy', X), (S(None), IT([1, 0]))])
    yield C('getitem', None, [mt('numpy', X), (mt('numpy', IT([1, 0])), S(None))])
    # slicing / basic indexing of integer tensors
    yield C('getitem', None, [IT([5, 6, 7, 8]), S(1, 3)])
    yield C('getitem', None, [IT([5, 6, 7, 8]), S(None, None, 2)])
    yield C('getitem', None, [IT([5, 6, 7, 8]), S(None, 2)])
    yield C('getitem', None, [IT([5, 6, 7, 8]), S(-3, None)])
    yield C('getitem', None, [IT([5, 6, 7, 8]), S(5, 9)])
    yield C('getitem', None, [IT([5, 6, 7, 8]), -1])
    yield C('getitem', None, [IT([5, 6, 7, 8]), 4])
    yield C('getitem', None, [X, (S(None), 0)])
    yield C('getitem', None, [X, 1])
    yield C('getitem', None, [X, (S(1, None), S(None, None, 3))])
    yield C('getitem', None, [X, (None, S(None), 1)])
    yield C('getitem', None, [X, (Ellipsis, -1)])
    yield C('getitem', None, [X, (2, 3)])
    yield C('getitem', None, [i_arange(5), S(1, 4)])
    yield C('getitem', None, [xt('torch.kron', i_ones(2), i_arange(3)), S(2, 5)])
    for _ in range(8 if tier == 'quick' else 24):
        shape = rshape(rng, 1, 3, sizes=(2, 3, 4), p1=0.1)
        x = rng.random()
        if x < 0.35:
            yield C('getitem', None, [IT(_rand_idata(rng, shape)), _rindex(rng, shape, allow_adv=True, allow_bad=False)])
        elif x < 0.7:
            k = rng.randrange(len(shape))
            idx = [S(None)] * len(shape)
            idx[k] = IT([rng.randint(-shape[k], shape[k] - 1) for _ in range(rng.randint(1, 3))])
            yield C('getitem', None, [A, tuple(idx)], A=(shape, rdtype(rng, ints=False)))
        else:
            k = rng.randrange(len(shape))
            idx = [S(None)] * len(shape)
            idx[k] = IT([rng.randint(-shape[k], shape[k] - 1) for _ in range(rng.randint(1, 3))])
            yield C('getitem', None, [IT(_rand_idata(rng, shape)), tuple(idx)])


@gen('int.setitem')
@finite
def g_int_setitem(rng, tier):
    S = slice
    yield C('setitem', None, [IT([1, 2, 3]), 1, 7])
    yield C('setitem', None, [IT([1, 2, 3]), -1, 7])
    yield C('setitem', None, [IT([1, 2, 3]), 0, -4])
    yield C('setitem', None, [IT([1, 2, 3]), 3, 7])
    yield C('setitem', None, [IT([1, 2, 3]), -4, 7])
    yield C('setitem', None, [IT([1, 2, 3]), 1, IT(9)])
    yield C('setitem', None, [IT([1, 2, 3]), 1, gi(IT([4, 5, 6]), 2)])
    yield C('setitem', None, [IT([1, 2, 3]), 1, True])
    yield C('setitem', None, [IT([1, 2, 3]), 1, 2.5])
    yield C('setitem', None, [IT([1, 2, 3]), 1, 2.0])
    yield C('setitem', None, [IT([1, 2, 3]), 1, A], A=([], F64))
    yield C('setitem', None, [IT([1, 2, 3]), IT(1), 7])
    yield C('setitem', None, [i_arange(4), 2, 0])
    yield C('setitem', None, [i_zeros(3), 0, 5])
    yield C('setitem', None, [IT([1, 2, 3]), S(0, 2), 5])
    yield C('setitem', None, [IT([1, 2, 3]), S(0, 2), IT([8, 9])])
    yield C('setitem', None, [IT([1, 2, 3]), S(None), IT([8])])
    yield C('setitem', None, [IT(M23), (0, 1), 9])
    yield C('setitem', None, [IT(M23), 1, IT([7, 8, 9])])
    yield C('setitem', None, [IT(M23), (S(None), 0), 0])
    yield C('setitem', None, [IT([1, 2, 3], 'manual32'), 1, 7])
    # the written tensor used afterwards
    yield C('getitem', None, [A, (S(None), Sub('setitem', None, [IT([0, 1, 2]), 1, 3]))], A=([2, 4], F64))
    yield C('binop', 'Add', [Sub('setitem', None, [IT([0, 1, 2]), 0, 5]), 1])
    yield C('ext', 'torch.sort', [Sub('setitem', None, [IT([0, 1, 2]), 0, 5])])
    for _ in range(4 if tier == 'quick' else 12):
        n = rng.randint(1, 4)
        yield C('setitem', None, [IT(_rand_idata(rng, [n])), rng.randint(-n - 1, n), rng.randint(-3, 9)])


@gen('tensor(range)')
@finite
def g_tensor_range(rng, tier):
    for n in (0, 1, 3, 5):
        yield C('ext', 'torch.tensor', [Rng(n)], {'dtype': DT(I64)})
        yield C('ext', 'torch.tensor', [Rng(n, 'sym')], {'dtype': DT(I64)})
    yield C('ext', 'torch.tensor', [Rng(3)])
    yield C('ext', 'torch.tensor', [Rng(3, 'sym')])
    yield C('ext', 'torch.tensor', [Rng(3)], {'dtype': DT(F64)})
    yield C('ext', 'torch.tensor', [Rng(3, 'sym')], {'dtype': DT(F64)})
    yield C('ext', 'torch.tensor', [Rng(3)], {'dtype': DT('int32')})
    yield C('getitem', None, [A, (S_ALL, xt('torch.tensor', Rng(3), dtype=DT(I64)))], A=([2, 4], F64))
    yield C('getitem', None, [A, (xt('torch.tensor', Rng(2, 'sym'), dtype=DT(I64)), S_ALL)], A=([2, 4], F64))
    yield C('getitem', None, [xt('torch.tensor', Rng(4), dtype=DT(I64)), slice(1, 3)])
    yield C('ext', 'torch.tensor', [[0, 1, 2]], {'dtype': DT(I64)})
    yield C('ext', 'torch.tensor', [(0, 1, 2)], {'dtype': DT(I64)})
    yield C('ext', 'torch.tensor', [IT([1, 2])])
    yield C('ext', 'torch.tensor', [mt('numpy', IT(M23))])
    yield C('ext', 'torch.tensor', [mt('numpy', IT(M23))], {'dtype': DT(F64)})


S_ALL = slice(None)
UR = 'numpy.unravel_index'


@gen('unravel_index')
@finite
def g_unravel(rng, tier):
    yield C('ext', UR, [5, (2, 3)])
    yield C('ext', UR, [0, (2, 3)])
    yield C('ext', UR, [5, [2, 3]])
    yield C('ext', UR, [6, (2, 3)])
    yield C('ext', UR, [-1, (2, 3)])
    yield C('ext', UR, [7, (2, 3, 4)])
    yield C('ext', UR, [23, (2, 3, 4)])
    yield C('ext', UR, [3, (4,)])
    yield C('ext', UR, [4, (4,)])
    yield C('ext', UR, [0, (1, 1)])
    yield C('ext', UR, [IT(5), (2, 3)])
    yield C('ext', UR, [IT(6), (2, 3)])
    yield C('ext', UR, [mt('numpy', IT(4)), (2, 3)])
    yield C('ext', UR, [IT(5), Sub('attr', 'shape', [A])], A=([2, 3], F64))
    yield C('ext', UR, [gi(IT([4, 1]), 0), Sub('attr', 'shape', [A])], A=([2, 3], F64))
    yield C('ext', UR, [Sub('method', 'topk', [mt('flatten', A), 1], pick=1), Sub('attr', 'shape', [A])], A=([2, 3], F64))
    yield C('ext', UR, [gi(Sub('method', 'topk', [mt('flatten', A), 1], pick=1), 0), Sub('attr', 'shape', [A])], A=([2, 3], F64))
    yield C('ext', UR, [IT([5, 0, 3]), (2, 3)])
    yield C('ext', UR, [IT([5, 0, 6]), (2, 3)])
    yield C('ext', UR, [IT([5, -1]), (2, 3)])
    yield C('ext', UR, [mt('numpy', IT([5, 0, 3])), (2, 3)])
    yield C('ext', UR, [mt('numpy', IT([5, 0, 3])), [2, 3]])
    yield C('ext', UR, [IT([7, 23, 0, 12]), (2, 3, 4)])
    yield C('ext', UR, [gi(IT([7, 23, 0, 12]), slice(None, 2)), (4, 6)])
    yield C('ext', UR, [i_arange(6), (3, 2)])
    yield C('ext', UR, [i_zeros(0), (3, 2)])
    yield C('ext', UR, [IT([[1, 2], [3, 4]]), (3, 2)])
    yield C('ext', UR, [IT([1, 2]), (3,)])
    yield C('ext', UR, [2.0, (2, 3)])
    yield C('ext', UR, [A, (2, 3)], A=([2], F64))
    # element of the result used as an index / reshaped (interpolate.py: tmp[1].reshape([1, -1]), Idx[:, tmp[0]])
    yield C('method', 'reshape', [Sub('ext', UR, [mt('numpy', IT([5, 0, 3])), (2, 3)], pick=1), [1, -1]])
    yield C('getitem', None, [A, (S_ALL, Sub('ext', UR, [IT([5, 0, 3]), (2, 3)], pick=0))], A=([3, 2], F64))
    yield C('getitem', None, [IT(M23), (S_ALL, Sub('ext', UR, [IT([5, 0, 3]), (2, 3)], pick=1))])
    yield C('ext', 'numpy.vstack', [(mt('reshape', Sub('ext', UR, [IT([5, 0, 3]), (2, 3)], pick=1), [1, -1]),
                                     gi(IT(M23), (S_ALL, Sub('ext', UR, [IT([5, 0, 3]), (2, 3)], pick=0))))])
    for _ in range(6 if tier == 'quick' else 20):
        shape = tuple(rng.choice([1, 2, 3, 4]) for _ in range(rng.randint(1, 3)))
        tot = prod(shape)
        if rng.random() < 0.4:
            v = rng.randint(0, tot - 1) if rng.random() < 0.8 else rng.choice([tot, -1, tot + 3])
            yield C('ext', UR, [rng.choice([v, IT(v)]), shape])
        else:
            vs = [rng.randint(0, tot - 1) for _ in range(rng.randint(1, 4))]
            if rng.random() < 0.15:
                vs[rng.randrange(len(vs))] = rng.choice([tot, -1])
            yield C('ext', UR, [rng.choice([IT(vs), mt('numpy', IT(vs))]), shape])


@gen('sort/topk/outer')
@finite
def g_sort(rng, tier):
    yield C('ext', 'torch.sort', [A], A=([4], F64))
    yield C('ext', 'torch.sort', [A], A=([1], F32))
    yield C('ext', 'torch.sort', [A], A=([0], F64))
    yield C('ext', 'torch.sort', [IT([3, 1, 2])])
    yield C('ext', 'torch.sort', [IT([3, 1, 2])], {'descending': True})
    yield C('ext', 'torch.sort', [i_arange(3)])
    yield C('ext', 'torch.sort', [IT([2, 2, 0, 5])])
    yield C('getitem', None, [Sub('ext', 'torch.sort', [IT([3, 1, 2])]), 0])
    yield C('getitem', None, [A, (S_ALL, Sub('ext', 'torch.sort', [IT([3, 1, 2])], pick=0))], A=([2, 4], F64))
    yield C('getitem', None, [A, (Sub('ext', 'torch.sort', [B], pick=1), S_ALL)], A=([3, 2], F64), B=([3], F64))
    yield C('ext', 'torch.sort', [A], A=([2, 3], F64))
    yield C('ext', 'torch.sort', [A], A=([], F64))
    yield C('method', 'topk', [A, 1], A=([4], F64))
    yield C('method', 'topk', [A, 1], A=([1], F32))
    yield C('method', 'topk', [A, 2], A=([4], F64))
    yield C('method', 'topk', [A, 0], A=([4], F64))
    yield C('method', 'topk', [A, 5], A=([4], F64))
    yield C('method', 'topk', [A, 1], A=([0], F64))
    yield C('method', 'topk', [A], {'k': 1}, A=([3], F64))
    yield C('method', 'topk', [IT([3, 9, 2]), 1])
    yield C('method', 'topk', [mt('flatten', A), 1], A=([2, 3], F64))
    yield C('method', 'topk', [A, 1], A=([2, 3], F64))
    yield C('method', 'topk', [A, 1], A=([3], C128))
    yield C('ext', 'torch.outer', [A, B], A=([2], F64), B=([3], F64))
    yield C('ext', 'torch.outer', [A, B], A=([2], F32), B=([3], F64))
    yield C('ext', 'torch.outer', [A, B], A=([2], F64), B=([3], C128))
    yield C('ext', 'torch.outer', [A, B], A=([1], F64), B=([1], F64))
    yield C('ext', 'torch.outer', [A, B], A=([2, 1], F64), B=([3], F64))
    yield C('ext', 'torch.outer', [A, B], A=([], F64), B=([3], F64))
    yield C('ext', 'torch.outer', [A, B], A=([0], F64), B=([3], F64))
    yield C('ext', 'torch.outer', [A, IT([1, 2])], A=([2], F64))
    yield C('ext', 'torch.outer', [IT([1, 2]), IT([3, 4, 5])])
    yield C('ext', 'torch.outer', [gi(A, (S_ALL, 1)), bo('Sub', gi(A, 0), gi(A, (1, S_ALL)))], A=([3, 3], F64))
    yield C('ext', 'torch.outer', [A, 2.0], A=([2], F64))
    for _ in range(4 if tier == 'quick' else 12):
        n = rng.randint(1, 5)
        dt = rng.choice([F64, F32])
        x = rng.random()
        if x < 0.4:
            yield C('ext', 'torch.sort', [A], A=([n], dt))
        elif x < 0.7:
            yield C('method', 'topk', [A, rng.randint(1, n + 1)], A=([n], dt))
        else:
            yield C('ext', 'torch.outer', [A, B], A=([n], dt), B=([rng.randint(1, 3)], rng.choice([F64, F32, C128])))


LUF, LUU = 'torch.linalg.lu_factor', 'torch.lu_unpack'


def _perm_vec(a, m, dtype):
    """(P.t() @ reshape(arange(m, dtype=P.dtype), [-1, 1]))  with P from lu_unpack(*lu_factor(a))"""
    P = Sub('ext', LUU, [Sub('ext', LUF, [a], star=True)], pick=0)
    return ('binop', 'MatMult', [mt('t', P), xt('torch.reshape', xt('torch.arange', m, dtype=DT(dtype)), [-1, 1])])


@gen('lu')
@finite
def g_lu(rng, tier):
    for shape, dt in (([3, 3], F64), ([2, 3], F64), ([3, 2], F64), ([1, 1], F64), ([3, 3], F32), ([2, 2], C128), ([1, 3], F64), ([4, 1], F64)):
        yield C('ext', LUF, [A], A=(shape, dt))
        yield C('ext', LUU, [Sub('ext', LUF, [A], star=True)], A=(shape, dt))
        yield C(*_perm_vec(A, shape[0], dt if dt != C128 else C128), A=(shape, dt))
    yield C('ext', LUF, [A], A=([3], F64))
    yield C('ext', LUF, [A], A=([], F64))
    yield C('ext', LUF, [A], A=([2, 2, 2], F64))
    yield C('ext', LUF, [A], A=([2, 2], I64))
    yield C('ext', LUF, [A], A=([0, 0], F64))
    yield C('ext', LUF, [IT([[1, 2], [3, 4]])])
    yield C('ext', LUU, [A, IT([1, 2], 'manual32')], A=([2, 2], F64))
    yield C('ext', LUU, [A, IT([1, 2])], A=([2, 2], F64))
    yield C('ext', LUU, [A, IT([1], 'manual32')], A=([2, 2], F64))
    yield C('ext', LUU, [A, IT([2, 2, 3], 'manual32')], A=([3, 3], F64))
    # P from lu_unpack: transposed / used in a product with an integer-valued column (dtype of P)
    yield C('method', 't', [Sub('ext', LUU, [Sub('ext', LUF, [A], star=True)], pick=0)], A=([3, 3], F64))
    yield C('binop', 'MatMult', [Sub('ext', LUU, [Sub('ext', LUF, [A], star=True)], pick=0),
                                 xt('torch.reshape', xt('torch.arange', 3, dtype=DT(F64)), [-1, 1])], A=([3, 3], F64))
    yield C('binop', 'MatMult', [mt('t', Sub('ext', LUU, [Sub('ext', LUF, [A], star=True)], pick=0)),
                                 xt('torch.reshape', xt('torch.arange', 3), [-1, 1])], A=([3, 3], F64))
    yield C('binop', 'MatMult', [mt('t', Sub('ext', LUU, [Sub('ext', LUF, [A], star=True)], pick=0)),
                                 xt('torch.reshape', xt('torch.arange', 6, dtype=DT(F64)), [3, 2])], A=([3, 3], F64))
    yield C('binop', 'MatMult', [mt('t', Sub('ext', LUU, [Sub('ext', LUF, [A], star=True)], pick=0)), B], A=([3, 3], F64), B=([3, 2], F64))
    for _ in range(4 if tier == 'quick' else 12):
        m, n = rng.randint(1, 4), rng.randint(1, 4)
        dt = rng.choice([F64, F64, F32, C128])
        x = rng.random()
        if x < 0.3:
            yield C('ext', LUF, [A], A=([m, n], dt))
        elif x < 0.6:
            yield C('ext', LUU, [Sub('ext', LUF, [A], star=True)], A=([m, n], dt))
        else:
            yield C(*_perm_vec(A, m, dt), A=([m, n], dt))


@gen('as_tensor/finfo/promote_types')
@finite
def g_as_tensor(rng, tier):
    AT = 'torch.as_tensor'
    yield C('ext', AT, [2.5])
    yield C('ext', AT, [0.1])
    yield C('ext', AT, [3])
    yield C('ext', AT, [True])
    yield C('ext', AT, [1 + 2j])
    yield C('ext', AT, [[1.5, 2.5]])
    yield C('ext', AT, [[1, 2]])
    yield C('ext', AT, [0.1], {'dtype': DT(F64)})
    yield C('ext', AT, [0.1, DT(F64)])
    yield C('ext', AT, [2.5], {'dtype': DT(F64), 'device': PyNone()})
    yield C('ext', AT, [A], A=([2, 3], F64))
    yield C('ext', AT, [A], A=([2], C128))
    yield C('ext', AT, [A], A=([], F32))
    yield C('ext', AT, [A], {'dtype': DT(F64)}, A=([2, 3], F64))
    yield C('ext', AT, [A], {'dtype': DT(F32)}, A=([2, 3], F64))
    yield C('ext', AT, [A], {'dtype': DT(C128)}, A=([2, 3], F64))
    yield C('ext', AT, [TRef('A', [('permute', [1, 0])])], A=([2, 3], F64))
    yield C('ext', AT, [mt('numpy', A)], A=([2, 3], F64))
    yield C('ext', AT, [mt('numpy', A)], {'dtype': DT(F32)}, A=([2, 3], F64))
    yield C('ext', AT, [IT([1, 2])])
    yield C('ext', AT, [PyNone()])
    yield C('binop', 'Mult', [A, xt(AT, 0.5)], A=([3], F64))
    yield C('binop', 'Div', [A, xt(AT, 3.0)], A=([3], F64))
    dts = ['bool', 'int32', 'int64', 'float16', 'float32', 'float64', 'complex64', 'complex128']
    for a in dts:
        for b in dts:
            yield C('ext', 'torch.promote_types', [DT(a), DT(b)])
    yield C('ext', 'torch.promote_types', [DT(F64), Sub('attr', 'dtype', [A])], A=([2], C128))
    for fn in ('torch.finfo', 'numpy.finfo'):
        for dt in (F64, F32, 'float16', C128, 'complex64', I64):
            if fn == 'numpy.finfo' and dt == 'float16':
                continue
            for attr in ('eps', 'tiny', 'max', 'min') + (('smallest_normal',) if dt == F64 else ()):
                arg = DT(dt) if fn == 'torch.finfo' else NPDT(dt)
                yield C('attr', attr, [Sub('ext', fn, [arg])])
    yield C('attr', 'eps', [Sub('ext', 'numpy.finfo', [Sub('attr', 'dtype', [mt('numpy', A)])])], A=([2], F32))
    yield C('attr', 'eps', [Sub('ext', 'torch.finfo', [Sub('attr', 'dtype', [A])])], A=([2], F32))
    yield C('attr', 'eps', [Sub('ext', 'torch.finfo', [])])
    yield C('attr', 'eps', [Sub('ext', 'numpy.finfo', [NPDT('float64')])])
    yield C('attr', 'resolution', [Sub('ext', 'torch.finfo', [DT(F64)])])
    yield C('attr', 'epsilon', [Sub('ext', 'torch.finfo', [DT(F64)])])


@gen('conj_physical/is_conj')
@finite
def g_conj_physical(rng, tier):
    for dt in (C128, F64):
        yield C('method', 'is_conj', [A], A=([2, 3], dt))
        yield C('method', 'is_conj', [mt('conj', A)], A=([2, 3], dt))
        yield C('method', 'conj_physical', [A], A=([2, 3], dt))
        yield C('method', 'conj_physical', [mt('conj', A)], A=([2, 3], dt))
        yield C('method', 'is_conj', [mt('conj_physical', mt('conj', A))], A=([3], dt))
        yield C('method', 'resolve_conj', [mt('conj_physical', mt('conj', A))], A=([3], dt))


@gen('numpy.prod')
@finite
def g_np_prod(rng, tier):
    # np.prod of python lists (mode sizes / rank lists); of a list of equally long tuples (the shape of a TT matrix); a numpy integer
    # as divisor never raises (inf / nan with a warning)
    yield C('ext', 'numpy.prod', [[2, 3, 4]])
    yield C('ext', 'numpy.prod', [[]])
    yield C('ext', 'numpy.prod', [[(2, 3), (4, 5)]])
    yield C('ext', 'numpy.prod', [[(2, 3)]])
    yield C('ext', 'numpy.prod', [[2, (3, 4)]])
    yield C('binop', 'Div', [1.5, Sub('ext', 'numpy.prod', [[1, 2, 2]])])
    yield C('binop', 'Div', [1.5, Sub('ext', 'numpy.prod', [[1, 0, 2]])])
    yield C('binop', 'Div', [3, Sub('ext', 'numpy.prod', [[1, 0, 2]])])


@gen('index.True/setitem.Ellipsis')
@finite
def g_true_index(rng, tier):
    S = slice
    yield C('getitem', None, [A, (True, 0)], A=([3], F64))
    yield C('getitem', None, [A, (True, 0)], A=([2, 3], F64))
    yield C('getitem', None, [A, (True, S(None))], A=([3], F64))
    yield C('getitem', None, [A, (True, S(0, 2), 1)], A=([2, 3], F64))
    yield C('getitem', None, [A, (0, True)], A=([2, 3], F64))
    yield C('getitem', None, [A, (True,)], A=([3], F64))
    yield C('getitem', None, [A, True], A=([3], F64))
    yield C('getitem', None, [A, True], A=([], F64))
    yield C('getitem', None, [A, (True, True)], A=([3], F64))
    yield C('getitem', None, [A, (True, Ellipsis)], A=([2, 3], F64))
    yield C('getitem', None, [A, (True, None)], A=([3], F64))
    yield C('getitem', None, [A, (True, 3)], A=([3], F64))
    yield C('getitem', None, [A, (True, 0, 0)], A=([3], F64))
    yield C('getitem', None, [A, (True, IT([1, 0]))], A=([3], F64))
    yield C('getitem', None, [IT([5, 6, 7]), (True, 0)])
    yield C('getitem', None, [A, False], A=([3], F64))
    yield C('getitem', None, [A, (False, 0)], A=([3], F64))
    # setitem with an Ellipsis
    yield C('setitem', None, [A, (S(None, 2), Ellipsis, S(None, 1)), V], A=([3, 2, 2], F64), V=([2, 2, 1], F64))
    yield C('setitem', None, [A, (S(None, 1), Ellipsis, S(None, 2)), V], A=([2, 3], F64), V=([1, 2], F64))
    yield C('setitem', None, [A, (S(None, 2), Ellipsis, S(None, 2)), V], A=([2, 2, 3, 3], F64), V=([2, 2, 3, 2], F64))
    yield C('setitem', None, [A, (Ellipsis, S(1, 3)), V], A=([2, 4], F64), V=([2, 2], F64))
    yield C('setitem', None, [A, (Ellipsis, S(1, 3)), V], A=([2, 4], F64), V=([2], F64))
    yield C('setitem', None, [A, (Ellipsis, 0), 1.5], A=([2, 3], F32))
    yield C('setitem', None, [A, (0, Ellipsis), V], A=([2, 3], F64), V=([3], F64))
    yield C('setitem', None, [A, Ellipsis, V], A=([2, 3], F64), V=([3], F64))
    yield C('setitem', None, [A, (Ellipsis,), 0.0], A=([2, 3], F64))
    yield C('setitem', None, [A, (S(None, 1), Ellipsis), V], A=([2, 3], F64), V=([1, 3], F64))
    yield C('setitem', None, [A, (S(None, 1), Ellipsis, S(None, 2)), V], A=([2, 3], F64), V=([2, 2], F64))
    yield C('setitem', None, [A, (0, 1, Ellipsis), 2.0], A=([2, 3], F64))
    yield C('setitem', None, [A, (0, 1, 0, Ellipsis), 2.0], A=([2, 3], F64))
    yield C('setitem', None, [A, (Ellipsis, 0, Ellipsis), 2.0], A=([2, 3], F64))
    yield C('setitem', None, [A, (S(None, 1), Ellipsis, S(None, 1)), V], A=([2], F64), V=([1], F64))
    yield C('setitem', None, [A, (None, Ellipsis), V], A=([2, 3], F64), V=([3], F64))
    for _ in range(6 if tier == 'quick' else 20):
        shape = rshape(rng, 1, 4, sizes=(2, 3), p1=0.1)
        n = len(shape)
        k1 = rng.randint(0, n)
        k2 = rng.randint(0, n - k1)
        head = [slice(None, rng.randint(1, shape[k])) for k in range(k1)]
        tail = [slice(None, rng.randint(1, shape[n - k2 + k])) for k in range(k2)]
        vs = [len(range(*s.indices(shape[k]))) for k, s in enumerate(head)] + shape[k1:n - k2] + \
             [len(range(*s.indices(shape[n - k2 + k]))) for k, s in enumerate(tail)]
        if rng.random() < 0.2 and vs:
            vs[rng.randrange(len(vs))] += 1
        dt = rng.choice([F64, F32, C128])
        yield C('setitem', None, [A, tuple(head) + (Ellipsis,) + tuple(tail), V], A=(shape, dt), V=(vs, dt))


@gen('complex->real')
@finite
def g_lossy(rng, tier):
    S = slice
    yield C('setitem', None, [A, (S(None), S(0, 2)), V], A=([2, 4], F64), V=([2, 2], C128))
    yield C('setitem', None, [A, (0, 0), 1 + 2j], A=([2, 2], F64))
    yield C('setitem', None, [A, 0, V], A=([2, 2], F32), V=([2], C128))
    yield C('setitem', None, [A, (0, 1), V], A=([2, 2], F64), V=([], C128))
    yield C('setitem', None, [A, Ellipsis, V], A=([2, 2], F64), V=([2, 2], 'complex64'))
    yield C('setitem', None, [A, (S(None), S(0, 3)), V], A=([2, 4], F64), V=([2, 2], C128))
    yield C('setitem', None, [A, (2, 0), 1 + 2j], A=([2, 2], F64))
    yield C('setitem', None, [A, (0, 0, 0), 1 + 2j], A=([2, 2], F64))
    yield C('setitem', None, [A, 0, V], A=([2, 2], I64), V=([2], C128))
    yield C('setitem', None, [A, 0, 2.5], A=([2, 2], I64))
    yield C('setitem', None, [A, 0, 1 + 2j], A=([2, 2], C128))
    # the dtype after the lossy write, and a later use
    yield C('attr', 'dtype', [Sub('setitem', None, [A, (0, 0), 1 + 2j])], A=([2, 2], F64))
    yield C('binop', 'Mult', [Sub('setitem', None, [A, (0, 0), 1 + 2j]), 2.0], A=([2, 2], F32))
    yield C('binop', 'Add', [Sub('setitem', None, [A, 0, V]), V], A=([2, 2], F64), V=([2], C128))
    yield C('method', 'to', [A, DT(F64)], A=([2, 3], C128))
    yield C('method', 'to', [A, DT(F32)], A=([2, 3], C128))
    yield C('method', 'to', [A, DT(F64)], A=([], 'complex64'))
    yield C('method', 'to', [A], {'dtype': DT(F64)}, A=([2], C128))
    yield C('method', 'to', [A, DT(I64)], A=([2], C128))
    yield C('method', 'double', [A], A=([2], C128))
    yield C('method', 'float', [A], A=([2], C128))
    yield C('method', 'to', [A, DT('complex64')], A=([2], C128))
    yield C('method', 'to', [A, DT(C128)], A=([2], C128))
    yield C('method', 'to', [A, DT(I64)], A=([2], F64))
    yield C('binop', 'Mult', [mt('to', A, DT(F64)), 2.0], A=([2], C128))
    yield C('binop', 'MatMult', [mt('to', A, DT(F64)), B], A=([2, 2], C128), B=([2, 2], F64))
    yield C('method', 'numpy', [mt('to', A, DT(F64))], A=([2], C128))
    yield C('ext', 'torch.tensor', [A], {'dtype': DT(F64)}, A=([2], C128))
    yield C('ext', 'torch.as_tensor', [A], {'dtype': DT(F64)}, A=([2], C128))


@gen('conj bit')
@finite
def g_conjbit(rng, tier):
    S = slice
    cj = xt('torch.conj', A)
    yield C('method', 'numpy', [cj], A=([2, 3], C128))
    yield C('method', 'numpy', [mt('conj', A)], A=([3], 'complex64'))
    yield C('method', 'numpy', [cj], A=([], C128))
    yield C('method', 'numpy', [cj], A=([2, 3], F64))
    yield C('method', 'numpy', [gi(cj, 0)], A=([2, 3], C128))
    yield C('method', 'numpy', [gi(cj, (S(None), S(0, 2)))], A=([2, 3], C128))
    yield C('method', 'numpy', [gi(cj, (0, 1))], A=([2, 3], C128))
    yield C('method', 'numpy', [gi(cj, None)], A=([3], C128))
    yield C('method', 'numpy', [gi(cj, Ellipsis)], A=([3], C128))
    yield C('method', 'numpy', [xt('torch.reshape', cj, [3, 2])], A=([2, 3], C128))
    yield C('method', 'numpy', [mt('reshape', cj, [-1])], A=([2, 3], C128))
    yield C('method', 'numpy', [mt('flatten', cj)], A=([2, 3], C128))
    yield C('method', 'numpy', [mt('permute', cj, [1, 0])], A=([2, 3], C128))
    yield C('method', 'numpy', [mt('t', cj)], A=([2, 3], C128))
    yield C('method', 'numpy', [mt('squeeze', cj)], A=([1, 3], C128))
    yield C('method', 'numpy', [mt('unsqueeze', cj, 0)], A=([3], C128))
    yield C('method', 'numpy', [mt('detach', cj)], A=([3], C128))
    yield C('method', 'numpy', [mt('cpu', cj)], A=([3], C128))
    yield C('method', 'numpy', [mt('contiguous', cj)], A=([3], C128))
    yield C('method', 'numpy', [mt('contiguous', mt('permute', cj, [1, 0]))], A=([2, 3], C128))
    yield C('method', 'numpy', [xt('torch.reshape', mt('permute', cj, [1, 0]), [6])], A=([2, 3], C128))
    yield C('method', 'numpy', [xt('torch.diagonal', cj)], A=([3, 3], C128))
    yield C('method', 'numpy', [xt('torch.diag', cj)], A=([3, 3], C128))
    yield C('method', 'numpy', [xt('torch.diag', cj)], A=([3], C128))
    yield C('method', 'numpy', [gi(cj, (S(None), IT([1, 0])))], A=([2, 3], C128))
    yield C('method', 'numpy', [mt('to', cj, DT(C128))], A=([3], C128))
    yield C('method', 'numpy', [mt('to', cj, DT('complex64'))], A=([3], C128))
    yield C('method', 'numpy', [mt('resolve_conj', cj)], A=([2, 3], C128))
    yield C('method', 'numpy', [mt('resolve_conj', gi(cj, 0))], A=([2, 3], C128))
    yield C('method', 'numpy', [mt('clone', cj)], A=([2, 3], C128))
    yield C('method', 'numpy', [mt('clone', gi(cj, 0))], A=([2, 3], C128))
    yield C('method', 'numpy', [xt('torch.conj', cj)], A=([2, 3], C128))
    yield C('method', 'numpy', [mt('conj', mt('conj', mt('conj', A)))], A=([3], C128))
    yield C('method', 'numpy', [bo('Mult', cj, 2.0)], A=([3], C128))
    yield C('method', 'numpy', [bo('Add', cj, A)], A=([3], C128))
    yield C('method', 'numpy', [Sub('neg', None, [cj])], A=([3], C128))
    yield C('method', 'numpy', [xt('torch.einsum', 'ij,jk->ik', cj, B)], A=([2, 3], C128), B=([3, 2], C128))
    yield C('method', 'numpy', [xt('torch.einsum', 'ij->ji', cj)], A=([2, 3], C128))
    yield C('method', 'numpy', [xt('torch.cat', [cj, cj], 0)], A=([3], C128))
    yield C('method', 'numpy', [xt('torch.tile', cj, (2,))], A=([3], C128))
    yield C('method', 'numpy', [xt('torch.nn.functional.pad', cj, (0, 1))], A=([3], C128))
    yield C('method', 'numpy', [xt('torch.sum', cj, 0)], A=([2, 3], C128))
    yield C('method', 'numpy', [xt('torch.abs', cj)], A=([3], C128))
    yield C('method', 'numpy', [xt('torch.kron', cj, B)], A=([2, 2], C128), B=([1, 2], C128))
    yield C('method', 'numpy', [bo('MatMult', cj, B)], A=([2, 3], C128), B=([3, 2], C128))
    yield C('method', 'numpy', [mt('resolve_conj', A)], A=([3], C128))
    yield C('method', 'resolve_conj', [A], A=([3], C128))
    yield C('method', 'resolve_conj', [A], A=([3], F64))
    yield C('method', 'resolve_conj', [cj], A=([3], C128))
    yield C('method', 'numpy', [mt('cpu', mt('resolve_conj', cj))], A=([2, 3], C128))
    yield C('ext', 'torch.conj', [cj], A=([2, 3], C128))
    yield C('ext', 'torch.conj', [A], A=([2, 3], F32))
    yield C('method', 'conj', [A], A=([], F64))
    yield C('ext', 'torch.conj', [IT([1, 2])])
    yield C('setitem', None, [B, (S(None), 0), gi(cj, (S(None), 0))], A=([2, 3], C128), B=([2, 2], C128))
    yield C('inplace', 'Mult', [cj, 2.0], A=([3], C128))
    yield C('method', 'numpy', [Sub('inplace', 'Mult', [cj, 2.0])], A=([3], C128))
    yield C('method', 'numpy', [Sub('setitem', None, [cj, 0, 1.0])], A=([3], C128))


@gen('predicates')
@finite
def g_pred(rng, tier):
    for dt in ('float64', 'float32', 'float16', 'complex128', 'complex64', 'int64', 'int32', 'bool'):
        yield C('method', 'is_floating_point', [A], A=([2], dt))
        yield C('method', 'is_complex', [A], A=([2], dt))
    yield C('method', 'is_floating_point', [A], A=([], F64))
    yield C('method', 'is_complex', [xt('torch.conj', A)], A=([2], C128))
    yield C('method', 'is_floating_point', [xt('torch.abs', A)], A=([2], C128))
    yield C('method', 'is_complex', [mt('to', A, DT(F64))], A=([2], C128))
    yield C('method', 'is_floating_point', [IT([1, 2])])
    yield C('method', 'is_floating_point', [bo('Div', IT([1, 2]), 2)])
    yield C('method', 'is_floating_point', [mt('numpy', A)], A=([2], F64))
    yield C('ext', 'torch.is_floating_point', [A], A=([2], F64))
    yield C('ext', 'torch.is_complex', [A], A=([2], C128))
    yield C('attr', 'is_cuda', [A], A=([2, 3], F64))
    yield C('attr', 'is_cuda', [A], A=([], C128))
    yield C('attr', 'is_cuda', [IT([1, 2])])
    yield C('attr', 'is_cuda', [xt('torch.conj', A)], A=([2], C128))
    yield C('attr', 'is_cuda', [mt('cpu', A)], A=([2], F64))
    yield C('attr', 'is_cuda', [mt('numpy', A)], A=([2], F64))
    yield C('attr', 'is_cuda', [Sub('ext', 'torch.linalg.qr', [A], pick=0)], A=([3, 2], F64))
    yield C('attr', 'is_cuda', [Sub('ext', 'torch.linalg.svd', [A], {'full_matrices': False}, pick=1)], A=([3, 2], F64))
    yield C('attr', 'dtype', [A], A=([2], F32))
    yield C('attr', 'dtype', [IT([1, 2], 'manual32')])
    yield C('attr', 'dtype', [mt('numpy', A)], A=([2], F32))
    yield C('attr', 'is_complex', [Sub('attr', 'dtype', [A])], A=([2], C128))
    yield C('attr', 'is_complex', [Sub('attr', 'dtype', [A])], A=([2], F64))
    yield C('attr', 'is_floating_point', [Sub('attr', 'dtype', [A])], A=([2], F64))


@gen('single precision')
@finite
def g_single(rng, tier):
    yield C('binop', 'Mult', [A, 0.1], A=([3], F32))
    yield C('binop', 'Mult', [0.1, A], A=([3], F32))
    yield C('binop', 'Add', [A, 1e-3], A=([2, 2], F32))
    yield C('binop', 'Div', [A, 3.0], A=([3], F32))
    yield C('binop', 'Div', [3.0, A], A=([3], F32, 'nonzero'))
    yield C('binop', 'Mult', [A, 0.1], A=([], F32))
    yield C('binop', 'Mult', [A, 2], A=([], F32))
    yield C('binop', 'Mult', [A, 0.1], A=([3], 'complex64'))
    yield C('binop', 'Mult', [A, 0.1], A=([3], 'float16'))
    yield C('binop', 'Mult', [A, B], A=([3], F64), B=([], F32))
    yield C('binop', 'Mult', [B, A], A=([3], F64), B=([], F32))
    yield C('binop', 'Div', [A, B], A=([3], F64), B=([], F32, 'nonzero'))
    yield C('binop', 'Add', [A, B], A=([2, 2], F64), B=([], F32))
    yield C('binop', 'Mult', [A, B], A=([3], F32), B=([], F64))
    yield C('binop', 'Mult', [A, B], A=([1], F64), B=([], F32))
    yield C('binop', 'Mult', [A, B], A=([1], F32), B=([], F64))
    yield C('binop', 'Mult', [A, B], A=([3], F64), B=([1], F32))
    yield C('binop', 'Mult', [A, B], A=([], F64), B=([], F32))
    yield C('binop', 'Mult', [A, B], A=([3], C128), B=([], F32))
    yield C('binop', 'Mult', [A, B], A=([3], 'complex64'), B=([], F64))
    yield C('binop', 'Mult', [A, B], A=([3], F32), B=([], C128))
    yield C('binop', 'Div', [1.0, A], A=([], F32, 'nonzero'))
    yield C('binop', 'Div', [2.5, A], A=([], F32, 'nonzero'))
    yield C('binop', 'Div', [1, A], A=([], F32, 'nonzero'))
    yield C('binop', 'Div', [2.5, A], A=([], F64, 'nonzero'))
    yield C('binop', 'Div', [2.5, A], A=([], I64, 'nonzero'))
    yield C('binop', 'Div', [2, A], A=([], I64, 'nonzero'))
    yield C('binop', 'Mult', [2.5, A], A=([], I64))
    yield C('binop', 'Sub', [2.5, A], A=([], F32))
    yield C('binop', 'Div', [A, 2.5], A=([], F32))
    yield C('binop', 'Div', [1 + 1j, A], A=([], F32, 'nonzero'))
    yield C('binop', 'Div', [2.5, xt('torch.linalg.norm', A)], A=([3], F32, 'nonzero'))
    yield C('binop', 'Mult', [B, bo('Div', 2.5, xt('torch.linalg.norm', A))], A=([3], F32, 'nonzero'), B=([2], F64))
    yield C('binop', 'Mult', [B, xt('torch.as_tensor', 2.5)], A=([3], F32), B=([2], F64))
    yield C('binop', 'Mult', [B, xt('torch.tensor', 2.5)], B=([2], F64))
    yield C('binop', 'Mult', [B, xt('torch.tensor', 2.5, dtype=DT(F64))], B=([2], F32))
    yield C('binop', 'Mult', [B, gi(A, 0)], A=([3], F32), B=([2], F64))
    yield C('binop', 'Mult', [B, xt('torch.sum', A)], A=([3], F32), B=([2], F64))
    yield C('inplace', 'Mult', [A, B], A=([3], F64), B=([], F32))
    yield C('inplace', 'Mult', [A, B], A=([3], F32), B=([], F64))
    yield C('inplace', 'Div', [A, 3.0], A=([3], F32))
    yield C('ext', 'torch.sqrt', [A], A=([], F32))
    yield C('binop', 'Pow', [A, 2], A=([], F32))
    yield C('binop', 'Pow', [A, 0.5], A=([2], F32))
    for _ in range(8 if tier == 'quick' else 24):
        op = rng.choice(['Add', 'Sub', 'Mult', 'Div'])
        da = rng.choice([F32, F64, 'complex64', C128, I64])
        db = rng.choice([F32, F64, 'complex64', C128, I64])
        sa = rng.choice([[], [], [2], [1], [2, 2]])
        x = rng.random()
        if x < 0.6:
            sb = rng.choice([[], [], [2], [1]])
            yield C('binop', op, [A, B], A=(sa, da), B=(sb, db, 'nonzero'))
        elif x < 0.8:
            yield C('binop', op, [A, rng.choice([2, 0.5, 2.0])], A=(sa, da))
        else:
            yield C('binop', op, [rng.choice([2, 0.5, 2.0]), A], A=(sa, da, 'nonzero'))


# @@GENERATORS@@


# ------------------------------------------------------------------------------------------------
# driver
# ------------------------------------------------------------------------------------------------

def case_json(case):
    return {'inputs': case['inputs'],
            'call': {'kind': case['call']['kind'], 'name': case['call'].get('name'),
                     'args': [enc(a) for a in case['call']['args']],
                     'kwargs': {k: enc(v) for k, v in case['call']['kwargs'].items()}}}


def main(argv):
    out_path = argv[1]
    tier = argv[2] if len(argv) > 2 else 'quick'
    seed = int(argv[3]) if len(argv) > 3 else 0
    only = os.environ.get('OPTABLE_ONLY')
    instances = []
    per_entry = {}
    for entry, f, nq, nt in GENERATORS:
        if only and entry not in only.split(','):
            continue
        want = nq if tier == 'quick' else nt
        rng = random.Random('%s/%s/%s' % (seed, tier, entry))
        seen = set()
        got = 0
        tries = 0
        for case in f(rng, tier):
            tries += 1
            if tries > 40 * want + 400:
                break
            cj = case_json(case)
            sig = json.dumps(cj, sort_keys=True)
            if sig in seen:
                continue
            seen.add(sig)
            iid = '%s#%d' % (entry, got)
            iseed = int(hashlib.sha256(('%s/%s' % (seed, iid)).encode()).hexdigest()[:6], 16)
            try:
                pred = predict(case, iseed)
                cj['inputs'] = dump_inputs(case, iseed)
            except Exception as e:
                pred = {'sym_crash': 'harness: %s: %s' % (type(e).__name__, str(e)[:200])}
                cj['inputs'] = {}
            cj['id'] = iid
            cj['entry'] = entry
            cj['op'] = '%s:%s' % (case['call']['kind'], case['call'].get('name'))
            cj['pred'] = pred
            instances.append(cj)
            got += 1
            if got >= want and not getattr(f, 'all_cases', False):
                break
        per_entry[entry] = got
    doc = {'tier': tier, 'seed': seed, 'entries': sorted(per_entry), 'per_entry': per_entry, 'instances': instances}
    with open(out_path, 'w') as fh:
        json.dump(doc, fh)
    sys.stderr.write('optable_cases: %d entries, %d instances\n' % (len(per_entry), len(instances)))


if __name__ == '__main__':
    main(sys.argv)
