#!/venv/bin/python
"""
One-off check of the ASSUMED autograd contracts of the op table (DESIGN.md 3.6) against real torch:
  /venv/bin/python tools/autograd_contract_check.py      -> prints AUTOGRAD-CONTRACT ok / the first disagreement, exit 0 / 1
 1. backward() fills .grad of every leaf with requires_grad the value was differentiably derived from, leaves the others at None,
    ACCUMULATES in place into an existing .grad, and fills .grad of a non-leaf only after retain_grad()
 2. torch.autograd.grad(out, inputs, allow_unused=True) returns one entry per input in the order of the inputs, None for an input
    the output does not depend on (RuntimeError without allow_unused), writes nothing to .grad, works for non-leaf inputs
"""
import sys
import torch as tn


def main():
    tn.manual_seed(0)
    a = tn.randn(3, dtype=tn.float64, requires_grad=True)
    b = tn.randn(3, dtype=tn.float64, requires_grad=True)
    c = tn.randn(3, dtype=tn.float64)
    z = a.clone()                       # non-leaf
    v = (z * z).sum() + c.sum()
    v.backward(retain_graph=True)
    assert a.grad is not None and tn.allclose(a.grad, 2 * a.detach()), 'leaf in the graph'
    assert b.grad is None, 'leaf outside the graph keeps None'
    import warnings
    with warnings.catch_warnings():
        warnings.simplefilter('ignore')
        assert z.grad is None, 'non-leaf without retain_grad keeps None'
    g0 = a.grad
    v.backward(retain_graph=True)
    assert a.grad is g0 and tn.allclose(a.grad, 4 * a.detach()), 'accumulation in place'
    a.grad = None
    z.retain_grad()
    v.backward(retain_graph=True)
    assert z.grad is not None and tn.allclose(z.grad, 2 * z.detach()), 'retain_grad on a non-leaf'
    a.grad = None
    r = tn.autograd.grad(v, [b, z, a], allow_unused=True, retain_graph=True)
    assert isinstance(r, tuple) and len(r) == 3 and r[0] is None and tn.allclose(r[1], 2 * z.detach()) and tn.allclose(r[2], 2 * a.detach()), 'autograd.grad order / unused'
    assert a.grad is None and b.grad is None, 'autograd.grad writes no .grad'
    try:
        tn.autograd.grad(v, [b], retain_graph=True)
        raise AssertionError('unused input without allow_unused must raise')
    except RuntimeError:
        pass
    try:
        tn.autograd.grad(v, [c], allow_unused=True, retain_graph=True)
        raise AssertionError('input that does not require grad must raise')
    except RuntimeError:
        pass
    print('AUTOGRAD-CONTRACT ok')
    return 0


if __name__ == '__main__':
    try:
        sys.exit(main())
    except AssertionError as e:
        print('AUTOGRAD-CONTRACT disagreement:', e)
        sys.exit(1)
