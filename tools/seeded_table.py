#!/usr/bin/env python3
"""fills the seeded-change table of DESIGN.md (section 8) from seeded/*/meta.json"""
import glob, json, os, re
HERE = os.path.dirname(os.path.dirname(os.path.abspath(__file__)))
rows = []
for d in sorted(glob.glob(os.path.join(HERE, 'seeded', '*'))):
    try:
        m = json.load(open(os.path.join(d, 'meta.json')))
    except Exception:
        continue
    e = m.get('evaluation', {})
    if m.get('obsolete'):
        rows.append('| %s | %s | obsolete: %s | – | – |' % (os.path.basename(d), (m.get('title') or '').replace('|', '/')[:110], m['obsolete'][:160]))
        continue
    det = []
    for p, c in sorted((e.get('checks') or {}).items()):
        if c.get('exit') == 1:
            first = (c.get('failed_obligations') or [''])[0]
            mm = re.search(r'(FAILED-OBLIGATION|BOUNDED-FAILURE) (\S+)', first)
            det.append('%s (%s; %d with failing input)' % (p, mm.group(2)[:70] if mm else 'bounded', c.get('with_failing_input', 0)))
        elif c.get('exit') == 0:
            det.append('%s: not detected' % p)
        else:
            det.append('%s: exit %s' % (p, c.get('exit')))
    title = (m.get('title') or '').replace('|', '/')[:110]
    needs = (m.get('needs_to_manifest') or '').replace('|', '/').replace('\n', ' ')[:120]
    rows.append('| %s | %s | %s | %s | %s |' % (os.path.basename(d), title, needs, e.get('tests_passed_with_patch', '?'), '; '.join(det) or 'not evaluated'))
table = '| id | change | needs to manifest | tests passing with the change | caught by |\n|---|---|---|---|---|\n' + '\n'.join(rows)
n = len(rows)
k = sum(1 for r in rows if '(with' in r or 'with failing input' in r)
p = os.path.join(HERE, 'DESIGN.md')
s = open(p).read()
start = s.index('<!-- SEEDED-TABLE-BEGIN -->') if '<!-- SEEDED-TABLE-BEGIN -->' in s else None
block = '<!-- SEEDED-TABLE-BEGIN -->\n%d seeded changes kept; %d are caught by at least one check on the current framework.\n\n%s\n<!-- SEEDED-TABLE-END -->' % (n, k, table)
if start is None:
    s = s.replace('SEEDED_TABLE_PLACEHOLDER', block)
else:
    end = s.index('<!-- SEEDED-TABLE-END -->') + len('<!-- SEEDED-TABLE-END -->')
    s = s[:start] + block + s[end:]
open(p, 'w').write(s)
print(n, 'rows,', k, 'caught')
