#!/venv/bin/python
"""
Differential validation of the op table (stage 2, real torch; run with /venv/bin/python).

usage: /venv/bin/python tools/optable_run.py <cases.json> [<result.json>]

Replays every instance written by tools/optable_cases.py with real torch on the same numbers and compares
raises / shape / dtype / values / view-ness with the symbolic prediction (and, when the prediction carries them: the integer
payload "ivalues" -- exact integers or the set of integers the symbolic side allows --, the library of the result "lib", tuple
results element by element, "claims" such as perm_matrix).  Nested calls ({"call": ...} arguments) are replayed recursively.
Prints one line
    OPTABLE-RESULT {json}
and always exits 0.
"""
import sys
import os
import json
import operator
import warnings

import numpy as np
import torch

warnings.filterwarnings('ignore')

RTOL = {'float64': 1e-9, 'complex128': 1e-9, 'float32': 1e-5, 'complex64': 1e-5, 'float16': 1e-2}
COMPLEX = ('complex64', 'complex128')
CAP = 10 ** 9 if os.environ.get('OPTABLE_ALL') else 30     # OPTABLE_ALL=1: list every disagreement (debugging aid)


def tdtype(name):
    return getattr(torch, name)


def dtname(dt):
    return str(dt).split('.')[-1]


def to_complex(data):
    if isinstance(data, list) and len(data) == 2 and all(isinstance(x, (int, float)) for x in data):
        return complex(data[0], data[1])
    if isinstance(data, list):
        return [to_complex(x) for x in data]
    return data


def to_int(data):
    if isinstance(data, list):
        return [to_int(x) for x in data]
    return int(round(data))


def build_input(spec):
    dt = spec['dtype']
    data = spec['data']
    if dt in COMPLEX:
        data = to_complex(data) if spec['shape'] else complex(data[0], data[1])
    elif dt.startswith('int') or dt == 'bool':
        data = to_int(data)
    t = torch.tensor(data, dtype=tdtype(dt))
    return t.reshape(spec['shape'])


class Ctx(object):
    def __init__(self, inst):
        self.tensors = {k: build_input(v) for k, v in inst['inputs'].items()}
        self.first = None

    def dec(self, a):
        if isinstance(a, dict):
            if 't' in a:
                t = self.tensors[a['t']]
                for meth, margs in a.get('pre', []):
                    t = getattr(t, meth)(*[self.dec(x) for x in margs])
                if self.first is None:
                    self.first = t
                return t
            if 'itensor' in a:
                if a['how'] == 'arange':
                    return torch.arange(a['itensor'])
                if a['how'] == 'tensor':
                    return torch.tensor(a['itensor'])
                t = torch.tensor(a['itensor'], dtype=torch.int32 if a['how'] == 'manual32' else torch.int64)
                if self.first is None:
                    self.first = t
                return t
            if 'call' in a:
                r = run_call(self, a['call'])
                return r[a['pick']] if a.get('pick') is not None else r
            if 'range' in a:
                return range(a['range'])
            if 'npdtype' in a:
                return getattr(np, a['npdtype'])
            if 'dtype' in a:
                return tdtype(a['dtype'])
            if 'none' in a:
                return None
            if 'slice' in a:
                return slice(*a['slice'])
            if 'tuple' in a:
                return tuple(self.dec(x) for x in a['tuple'])
            if 'complex' in a:
                return complex(*a['complex'])
            raise ValueError('bad argument encoding %r' % (a,))
        if isinstance(a, list):
            return [self.dec(x) for x in a]
        if a == 'None':
            return None
        if a == 'Ellipsis':
            return Ellipsis
        return a


def resolve(name):
    parts = name.split('.')
    if parts[0] == 'opt_einsum':
        import opt_einsum
        obj = opt_einsum
    else:
        obj = {'torch': torch, 'numpy': np}[parts[0]]
    for p in parts[1:]:
        obj = getattr(obj, p)
    return obj


_BIN = {'Add': operator.add, 'Sub': operator.sub, 'Mult': operator.mul, 'Div': operator.truediv,
        'MatMult': operator.matmul, 'Pow': operator.pow}
_IBIN = {'Add': operator.iadd, 'Sub': operator.isub, 'Mult': operator.imul, 'Div': operator.itruediv}


def run_call(ctx, call):
    kind, name = call['kind'], call.get('name')
    if kind in ('promote', 'scalar_promote'):
        a0 = call['args'][0]
        if kind == 'promote':
            return dtname(torch.promote_types(tdtype(a0), tdtype(call['args'][1])))
        s = ctx.dec(call['args'][1])
        return dtname((torch.ones(2, dtype=tdtype(a0)) * s).dtype)
    args = []
    for a in call.get('args', []):
        v = ctx.dec(a)
        if isinstance(a, dict) and a.get('star'):
            args.extend(v)
        else:
            args.append(v)
    kwargs = {k: ctx.dec(v) for k, v in call.get('kwargs', {}).items()}
    if kind == 'ext':
        return resolve(name)(*args, **kwargs)
    if kind == 'method':
        return getattr(args[0], name)(*args[1:], **kwargs)
    if kind == 'attr':
        return getattr(args[0], name)
    if kind == 'binop':
        return _BIN[name](args[0], args[1])
    if kind == 'neg':
        return -args[0]
    if kind == 'getitem':
        return args[0][args[1]]
    if kind == 'setitem':
        args[0][args[1]] = args[2]
        return args[0]
    if kind == 'inplace':
        return _IBIN[name](args[0], args[1])
    if kind == 'truth':
        return bool(args[0])
    if kind == 'builtin':
        return {'len': len, 'abs': abs}[name](*args, **kwargs)
    raise ValueError(kind)


def exc_category(e):
    for c in (IndexError, KeyError, TypeError, ValueError, NotImplementedError, RuntimeError, ZeroDivisionError,
              AttributeError, AssertionError):
        if isinstance(e, c):
            return c.__name__
    return type(e).__name__


def to_nested(t):
    """torch tensor -> nested lists of floats / [re, im] pairs"""
    if t.is_complex():
        return torch.view_as_real(t.resolve_conj().to(torch.complex128)).tolist()
    return t.to(torch.float64).tolist()


def describe(res, ctx):
    """JSON description of a real result"""
    lib = 'torch'
    if isinstance(res, np.ndarray):
        lib = 'numpy'
        res = torch.from_numpy(np.ascontiguousarray(res)) if res.size == 0 else torch.from_numpy(res)
    if isinstance(res, torch.Tensor):
        first = ctx.first
        view = None
        if first is not None and first.numel() > 0 and res.numel() > 0:
            view = res.untyped_storage().data_ptr() == first.untyped_storage().data_ptr()
        return {'shape': list(res.shape), 'dtype': dtname(res.dtype), 'values': to_nested(res.detach()),
                'is_view_of_input': view, 'same_object': (res is first) if first is not None else None,
                'contiguous': bool(res.is_contiguous()), 'lib': lib}
    if isinstance(res, torch.Size):
        return {'pyvalue': list(res)}
    if isinstance(res, torch.dtype):
        return {'pyvalue': 'dtype:' + dtname(res)}
    if isinstance(res, np.dtype):
        return {'pyvalue': 'dtype:' + res.name}
    if isinstance(res, (bool, int, float, str)) or res is None:
        return {'pyvalue': res}
    if isinstance(res, (np.floating, np.integer, np.bool_)):
        return {'pyvalue': res.item()}
    if isinstance(res, (tuple, list)):
        if res and all(isinstance(x, (torch.Tensor, np.ndarray, np.integer, np.floating)) for x in res):
            return {'tuple': [describe(x, ctx) for x in res]}
        return {'pyvalue': list(res)}
    return {'pyvalue': repr(res)}


def observe(inst):
    ctx = Ctx(inst)
    try:
        res = run_call(ctx, inst['call'])
    except Exception as e:       # noqa
        return {'raises': exc_category(e), 'message': str(e)[:160]}, None, ctx
    return describe(res, ctx), res, ctx


def _flat(x):
    if isinstance(x, list):
        out = []
        for y in x:
            out.extend(_flat(y))
        return out
    return [x]


def compare_ivalues(piv, act):
    """integer payload: every entry must equal the predicted integer / lie in the predicted set"""
    def leaves(x):
        if isinstance(x, list):
            out = []
            for y in x:
                out.extend(leaves(y))
            return out
        return [x]
    p = leaves(piv)
    vals = act['values']
    if act['dtype'] in COMPLEX:
        a = []
        for z in (np.array(vals, dtype=np.float64).reshape(-1, 2) if vals != [] else []):
            if z[1] != 0:
                return 'ivalues (complex entry)'
            a.append(float(z[0]))
    else:
        a = [float(v) for v in _flat(vals)]
    if len(p) != len(a):
        return 'ivalues layout'
    for pv, av in zip(p, a):
        if pv is None:
            continue
        if av != round(av):
            return 'ivalues (non-integer entry)'
        ok = (int(av) in pv['in']) if isinstance(pv, dict) else (int(av) == pv)
        if not ok:
            return 'ivalues'
    return None


def check_claims(claims, act):
    for c in claims:
        if c == 'perm_matrix':
            m = np.array(act['values'], dtype=np.float64)
            if act['dtype'] in COMPLEX:
                if m.size and np.any(m[..., 1] != 0):
                    return 'claim perm_matrix'
                m = m[..., 0]
            if m.ndim != 2 or m.shape[0] != m.shape[1]:
                return 'claim perm_matrix'
            if not (np.all((m == 0) | (m == 1)) and np.all(m.sum(0) == 1) and np.all(m.sum(1) == 1)):
                return 'claim perm_matrix'
    return None


def compare(pred, act, in_dtypes=()):
    """returns None when the prediction agrees with the observation, else a short reason"""
    if 'sym_crash' in pred:
        return 'symbolic side crashed'
    if 'raises' in pred or 'raises' in act:
        if 'raises' in pred and 'raises' in act:
            return None if pred['raises'] == act['raises'] else 'exception class'
        return 'raises vs returns'
    if 'tuple' in pred or 'tuple' in act:
        if 'tuple' not in pred or 'tuple' not in act:
            return 'kind of result'
        if len(pred['tuple']) != len(act['tuple']):
            return 'tuple length'
        for k, (p_, a_) in enumerate(zip(pred['tuple'], act['tuple'])):
            r = compare(p_, a_, in_dtypes)
            if r is not None:
                return 'element %d: %s' % (k, r)
        return None
    if 'pyvalue_set' in pred:
        if 'pyvalue' not in act:
            return 'kind of result'
        a = act['pyvalue']
        return None if (isinstance(a, int) and not isinstance(a, bool) and a in pred['pyvalue_set']) else 'value'
    if 'pyvalue' in pred or 'pyvalue' in act:
        if 'pyvalue' not in pred or 'pyvalue' not in act:
            return 'kind of result'
        p, a = pred['pyvalue'], act['pyvalue']
        if isinstance(p, float) or isinstance(a, float):
            if isinstance(p, (int, float)) and isinstance(a, (int, float)) and abs(p - a) <= 1e-9 * max(1.0, abs(p)):
                return None
            return 'value'
        return None if (p == a and type(p) is type(a)) else 'value'
    if list(pred['shape']) != list(act['shape']):
        return 'shape'
    if pred['dtype'] != act['dtype']:
        return 'dtype'
    if pred.get('values') is not None:
        try:
            p = np.array(pred['values'], dtype=np.float64)
            a = np.array(act['values'], dtype=np.float64)
        except ValueError:
            return 'values layout (complex entries predicted for a real tensor)'
        if p.shape != a.shape:
            # complex pairs vs real (should not happen when the dtypes agree)
            return 'values layout'
        if p.size:
            rtol = max([RTOL.get(act['dtype'], 1e-9)] + [RTOL.get(d, 0.0) for d in in_dtypes])
            scale = max(1.0, float(np.max(np.abs(p))))
            if not np.allclose(a, p, rtol=rtol, atol=rtol * scale):
                return 'values'
    if pred.get('ivalues') is not None:
        r = compare_ivalues(pred['ivalues'], act)
        if r is not None:
            return r
    if pred.get('claims'):
        r = check_claims(pred['claims'], act)
        if r is not None:
            return r
    if pred.get('lib') is not None and act.get('lib') is not None and pred['lib'] != act['lib']:
        return 'library of the result (torch tensor vs numpy array)'
    if pred.get('is_view_of_input') is not None and act.get('is_view_of_input') is not None:
        if bool(pred['is_view_of_input']) != bool(act['is_view_of_input']):
            return 'view-ness'
    if pred.get('same_object') is not None and act.get('same_object') is not None:
        if bool(pred['same_object']) != bool(act['same_object']):
            return 'object identity'
    return None


def contiguity_note(pred, act):
    """soft check (not a disagreement): the contract claims a contiguous result, torch returns a strided one"""
    return bool(isinstance(pred, dict) and pred.get('contiguous_claim') and 'contiguous' in act and not act['contiguous'])


def outcome_kind(x):
    if 'raises' in x:
        return 'raises ' + x['raises']
    for k in ('sym_crash', 'harness_error', 'pyvalue', 'pyvalue_set', 'tuple', 'one_of'):
        if k in x:
            return k
    return 'tensor'


def brief(x, n=220):
    s = json.dumps(x, sort_keys=True)
    return s if len(s) <= n else s[:n] + '...'


def strip_values(d):
    if not isinstance(d, dict):
        return d
    out = {}
    for k, v in d.items():
        if k == 'values':
            s = json.dumps(v)
            out[k] = v if len(s) < 160 else s[:160] + '...'
        elif k in ('one_of', 'tuple'):
            out[k] = [strip_values(x) for x in v]
        elif k == 'ivalues':
            s = json.dumps(v)
            out[k] = v if len(s) < 300 else s[:300] + '...'
        elif k == 'call':
            out[k] = v
        else:
            out[k] = v
    return out


def main(argv):
    doc = json.load(open(argv[1]))
    n = agree = oos = 0
    disagreements = []
    n_dis = 0
    by_entry = {}
    groups = {}
    contig = {'count': 0, 'examples': []}     # contract says 'contiguous', torch result is strided (informational)
    for inst in doc['instances']:
        n += 1
        pred = inst['pred']
        ent = by_entry.setdefault(inst['entry'], {'instances': 0, 'agree': 0, 'out_of_subset': 0, 'disagree': 0})
        ent['instances'] += 1
        alts = pred['one_of'] if 'one_of' in pred else [pred]
        live = [p for p in alts if 'out_of_subset' not in p]
        if not live:
            oos += 1
            ent['out_of_subset'] += 1
            continue
        try:
            act, _, _ = observe(inst)
            in_dtypes = [v['dtype'] for v in inst['inputs'].values()]
            reasons = [compare(p, act, in_dtypes) for p in live]
        except Exception as e:      # harness failure: reported as a disagreement so that it cannot go unnoticed
            act = {'harness_error': '%s: %s' % (type(e).__name__, str(e)[:200])}
            reasons = ['harness error']
        if any(r is None for r in reasons):
            agree += 1
            ent['agree'] += 1
            if any(r is None and contiguity_note(p, act) for p, r in zip(live, reasons)):
                contig['count'] += 1
                if len(contig['examples']) < 5:
                    contig['examples'].append(inst['id'] + ' ' + brief(inst['call'], 160))
            continue
        n_dis += 1
        ent['disagree'] += 1
        summary = {'call': inst['call'],
                   'inputs': {k: {'shape': v['shape'], 'dtype': v['dtype']} for k, v in inst['inputs'].items()}}
        key = '%s | %s | %s -> %s' % (inst['entry'], reasons[0], outcome_kind(pred), outcome_kind(act))
        groups.setdefault(key, []).append({'id': inst['id'], 'op': inst['op'], 'why': reasons[0], 'args': brief(summary, 400),
                                           'predicted': strip_values(pred), 'actual': strip_values(act)})
    # the reported list is capped: take the disagreements round-robin over the distinct kinds so that every kind shows up
    depth = 0
    while len(disagreements) < min(CAP, n_dis):
        for key in groups:
            if depth < len(groups[key]) and len(disagreements) < CAP:
                disagreements.append(groups[key][depth])
        depth += 1
    result = {'tier': doc.get('tier'), 'seed': doc.get('seed'), 'entries': len(doc.get('entries', by_entry)),
              'instances': n, 'agree': agree, 'out_of_subset': oos, 'n_disagreements': n_dis,
              'per_entry': by_entry, 'contiguity_notes': contig,
              'disagreement_kinds': {k: len(v) for k, v in groups.items()}, 'disagreements': disagreements}
    line = 'OPTABLE-RESULT ' + json.dumps(result, sort_keys=True)
    if len(argv) > 2:
        with open(argv[2], 'w') as fh:
            json.dump(result, fh, sort_keys=True, indent=1)
    print(line)


if __name__ == '__main__':
    try:
        main(sys.argv)
    except Exception as e:     # noqa
        print('OPTABLE-RESULT ' + json.dumps({'error': '%s: %s' % (type(e).__name__, str(e)[:300]), 'entries': 0,
                                              'instances': 0, 'agree': 0, 'out_of_subset': 0, 'disagreements': []}))
    sys.exit(0)
