#!/bin/sh
# Differential validation of the op table (ttvc/tensors.py, ttvc/optable.py) against real torch.
#   sh tools/optable_validate.sh quick|thorough <seed> <outfile.json>
# stage 1 (python3-vt, z3, no torch): tools/optable_cases.py  -> scratch JSON with instances + symbolic predictions
# stage 2 (/venv/bin/python, torch):  tools/optable_run.py    -> OPTABLE-RESULT {json}
# Always exits 0; a failure of a stage is reported inside the OPTABLE-RESULT json ("error").
TIER="${1:-quick}"
SEED="${2:-0}"
OUT="${3:-}"
HERE="$(cd "$(dirname "$0")/.." && pwd)"
PY_SYM="${OPTABLE_PY_SYM:-python3-vt}"
PY_TORCH="${OPTABLE_PY_TORCH:-/venv/bin/python}"
SCRATCH="$(mktemp -d "${TMPDIR:-/var/tmp}/optable.XXXXXX" 2>/dev/null || mktemp -d)"
trap 'rm -rf "$SCRATCH"' EXIT INT TERM

fail() {
    LINE="OPTABLE-RESULT {\"error\": \"$1\", \"entries\": 0, \"instances\": 0, \"agree\": 0, \"out_of_subset\": 0, \"disagreements\": []}"
    if [ -n "$OUT" ]; then
        printf '%s\n' "${LINE#OPTABLE-RESULT }" > "$OUT"
    fi
    printf '%s\n' "$LINE"
    exit 0
}

cd "$HERE" || fail "cannot cd to $HERE"
"$PY_SYM" tools/optable_cases.py "$SCRATCH/cases.json" "$TIER" "$SEED" 2> "$SCRATCH/stage1.err" > "$SCRATCH/stage1.out"
if [ ! -s "$SCRATCH/cases.json" ]; then
    MSG="$(grep -v 'WARNING conda' "$SCRATCH/stage1.err" | tail -n 3 | tr '\n"\\' "  /" | cut -c1-300)"
    fail "stage 1 (optable_cases.py) failed: $MSG"
fi
"$PY_TORCH" tools/optable_run.py "$SCRATCH/cases.json" "$SCRATCH/result.json" 2> "$SCRATCH/stage2.err" > "$SCRATCH/stage2.out"
LINE="$(grep '^OPTABLE-RESULT ' "$SCRATCH/stage2.out" | tail -n 1)"
if [ -z "$LINE" ]; then
    MSG="$(grep -v 'WARNING conda' "$SCRATCH/stage2.err" | tail -n 3 | tr '\n"\\' "  /" | cut -c1-300)"
    fail "stage 2 (optable_run.py) failed: $MSG"
fi
if [ -n "$OUT" ]; then
    if [ -s "$SCRATCH/result.json" ]; then
        cp "$SCRATCH/result.json" "$OUT"
    else
        printf '%s\n' "${LINE#OPTABLE-RESULT }" > "$OUT"
    fi
fi
printf '%s\n' "$LINE"
exit 0
