#!/usr/bin/env python3
"""
Evaluate a seeded change:  tools/seed_eval.py <dir with patch.diff demo.py meta.json> <id> [--props C03,C06] [--tier quick] [--skip-tests]

 1. scratch worktree of /repo HEAD (outside /repo and /verif), patch applied
 2. demo.py must exit != 0 with the patch and 0 on /repo
 3. the repository's test suite must still pass with the patch (74 passed)
 4. the listed checks are run against the patched tree (./check <P> --repo <worktree>)
 results are stored in /verif/seeded/<id>/ (patch.diff, demo.py, meta.json with the outcome); the worktree is removed.
"""
import argparse
import json
import os
import re
import shutil
import subprocess
import sys
import time

HERE = os.path.dirname(os.path.dirname(os.path.abspath(__file__)))
ENV = dict(os.environ, OMP_NUM_THREADS='2', MKL_NUM_THREADS='2', PYTHONWARNINGS='ignore')


def sh(cmd, cwd=None, env=None, timeout=3600):
    p = subprocess.run(cmd, shell=True, cwd=cwd, env=env or ENV, capture_output=True, text=True, timeout=timeout)
    return p.returncode, p.stdout + p.stderr


def main():
    ap = argparse.ArgumentParser()
    ap.add_argument('src')
    ap.add_argument('id')
    ap.add_argument('--props', default=None)
    ap.add_argument('--tier', default='quick')
    ap.add_argument('--skip-tests', action='store_true')
    ap.add_argument('--keep', action='store_true')
    ap.add_argument('--base', default='HEAD', help='commit of /repo the patch was written against (default: the current HEAD)')
    a = ap.parse_args()
    meta = json.load(open(os.path.join(a.src, 'meta.json')))
    prop = meta.get('property', a.id.split('_')[0])
    props = a.props.split(',') if a.props else [prop]
    wt = '/var/tmp/sw_%s' % a.id
    sh('git -C /repo worktree remove --force %s' % wt)
    rc, out = sh('git -C /repo worktree add -q --detach %s %s' % (wt, a.base))
    if rc:
        print('worktree failed', out)
        return 2
    res = {'id': a.id, 'property': prop, 'evaluated_at_repo_head': sh('git -C /repo rev-parse --short %s' % a.base)[1].strip().splitlines()[-1]}
    try:
        rc, out = sh('git -C %s apply %s' % (wt, os.path.abspath(os.path.join(a.src, 'patch.diff'))))
        res['patch_applies'] = rc == 0
        if rc:
            res['apply_error'] = out[-500:]
            print(json.dumps(res, indent=1))
            return 2
        env = dict(ENV, PYTHONPATH=wt)
        rc1, out1 = sh('/venv/bin/python %s' % os.path.abspath(os.path.join(a.src, 'demo.py')), cwd='/var/tmp', env=env, timeout=600)
        rc0, out0 = sh('/venv/bin/python %s' % os.path.abspath(os.path.join(a.src, 'demo.py')), cwd='/var/tmp', env=dict(ENV, PYTHONPATH='/repo'), timeout=600)
        res['demo_with_patch_exit'] = rc1
        res['demo_without_patch_exit'] = rc0
        res['demo_output_tail'] = [l for l in out1.strip().splitlines() if 'conda' not in l][-4:]
        if not a.skip_tests:
            t = time.time()
            rc, out = sh('/venv/bin/python -m pytest -q -p no:cacheprovider --timeout=900 tests 2>&1 | tail -3', cwd=wt, env=env, timeout=3000)
            m = re.search(r'(\d+) passed', out)
            res['tests_passed_with_patch'] = int(m.group(1)) if m else None
            res['tests_failed_with_patch'] = int(re.search(r'(\d+) failed', out).group(1)) if re.search(r'(\d+) failed', out) else 0
            res['tests_wall_s'] = round(time.time() - t)
        det = {}
        for p in props:
            t = time.time()
            rc, out = sh('./check %s --tier %s --repo %s --no-evidence' % (p, a.tier, wt), cwd=HERE, timeout=7200)
            lines = out.splitlines()
            viol = [l for l in lines if l.startswith('VIOLATION')]
            failed = [l[:260] for l in lines if l.startswith('FAILED-OBLIGATION') or l.startswith('BOUNDED-FAILURE')]
            replayed = [l.strip()[:260] for l in lines if l.strip().startswith('replayed on the real code')]
            det[p] = {'exit': rc, 'violations': len(viol), 'with_failing_input': len([v for v in viol if 'no-failing-input-found' not in v]),
                      'failed_obligations': failed[:6], 'replayed': replayed[:3], 'wall_s': round(time.time() - t),
                      'summary': [l for l in lines if l.startswith('SUMMARY')][-1:] }
        res['checks'] = det
        res['detected'] = any(v['exit'] == 1 for v in det.values())
    finally:
        if not a.keep:
            sh('git -C /repo worktree remove --force %s' % wt)
    dst = os.path.join(HERE, 'seeded', a.id)
    os.makedirs(dst, exist_ok=True)
    old = os.path.join(dst, 'meta.json')
    if a.skip_tests and os.path.exists(old):
        try:
            prev = json.load(open(old)).get('evaluation', {})
            for k in ('tests_passed_with_patch', 'tests_failed_with_patch', 'tests_wall_s'):
                if prev.get(k) is not None and res.get(k) is None:
                    res[k] = prev[k]
        except Exception:
            pass
    for f in ('patch.diff', 'demo.py'):
        shutil.copy(os.path.join(a.src, f), os.path.join(dst, f))
    meta['evaluation'] = res
    json.dump(meta, open(os.path.join(dst, 'meta.json'), 'w'), indent=1)
    print(json.dumps(res, indent=1))
    return 0


if __name__ == '__main__':
    sys.exit(main())
