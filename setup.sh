#!/bin/sh
# Idempotent environment setup for the R-mode (run-time contract) harness.
#
# Creates /verif/.venv312 (Python 3.12 virtualenv, not committed to git) that
#   (1) has icontract (+ asttokens, typing_extensions, six) installed OFFLINE from the
#       wheelhouse /opt/veriftools/wheels, and
#   (2) sees torch / numpy / opt_einsum of /venv through a .pth file
#       (--system-site-packages cannot be used: /venv is itself a venv).
# Exits 0 only if `import icontract, torch, numpy` works in the new interpreter.
set -eu

BASE_PY="${BASE_PY:-/venv/bin/python}"
BASE_SITE="${BASE_SITE:-/venv/lib/python3.12/site-packages}"
WHEELS="${WHEELS:-/opt/veriftools/wheels}"
HERE=$(CDPATH= cd -- "$(dirname -- "$0")" && pwd)
VENV="${VENV:-$HERE/.venv312}"
PY="$VENV/bin/python"

check() {
    [ -x "$PY" ] && "$PY" -c "import icontract, torch, numpy" >/dev/null 2>&1
}

# fast path: everything already in place
if check; then
    echo "setup.sh: $VENV ok"
    [ -s "$HERE/.optable_quick.json" ] || sh "$HERE/tools/optable_validate.sh" quick 0 "$HERE/.optable_quick.json" >/dev/null 2>&1 || true
    exit 0
fi

if [ ! -x "$BASE_PY" ]; then
    echo "setup.sh: base interpreter $BASE_PY not found" >&2
    exit 1
fi

# 1. the venv itself (without pip: we drive the base interpreter's pip instead)
if [ ! -x "$PY" ]; then
    rm -rf "$VENV"
    "$BASE_PY" -m venv --without-pip "$VENV"
fi
# keep the directory out of git without touching the repository's own ignore files
[ -f "$VENV/.gitignore" ] || printf '*\n' > "$VENV/.gitignore"

SITE=$("$PY" -c "import sysconfig; print(sysconfig.get_paths()['purelib'])")

# 2. make /venv's packages (torch, numpy, opt_einsum) visible
PTH="$SITE/_base_venv.pth"
printf "import site; site.addsitedir('%s')\n" "$BASE_SITE" > "$PTH"

# 3. icontract, offline.  Try pip --python first, then pip --target, then plain unzip of the wheels.
if ! "$PY" -c "import icontract" >/dev/null 2>&1; then
    "$BASE_PY" -m pip --disable-pip-version-check --python "$PY" install --no-index \
        --find-links "$WHEELS" icontract >/dev/null 2>&1 \
    || "$BASE_PY" -m pip --disable-pip-version-check install --no-index --find-links "$WHEELS" \
        --target "$SITE" --upgrade icontract >/dev/null 2>&1 \
    || {
        for w in icontract asttokens typing_extensions six; do
            for f in "$WHEELS"/$w-*.whl; do
                [ -f "$f" ] && "$BASE_PY" -m zipfile -e "$f" "$SITE"
            done
        done
    }
fi

if check; then
    echo "setup.sh: $VENV created"
    sh "$HERE/tools/optable_validate.sh" quick 0 "$HERE/.optable_quick.json" >/dev/null 2>&1 || true
    exit 0
fi
echo "setup.sh: FAILED: $PY cannot import icontract, torch, numpy" >&2
"$PY" -c "import icontract, torch, numpy" >&2 || true
exit 1
