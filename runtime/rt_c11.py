"""
C11  fast_matvec / dmrg_hadamard / amen_mv / amen_mm : TT result of the right shape whose dense value is
within C*eps (relative Frobenius norm) of the exact product, random or user-supplied initial guess,
orders 1, 2, ... ; the user-supplied guess object must not be modified.
"""
import icontract
import torch
import torchtt

from rt_common import (as_matrix, case_id, clause, contract, dense, dtype_of, fro, frozen, rand_tt, scale_tag, scale_tt,
                       seed_all, shape_of, snapshot_tt, unchanged, unchanged_named, within)

C = 50.0
FLOOR = 1e-9
ZERO_TOL = 1e-12   # exact product 0: ||result|| <= ZERO_TOL * max(1,||first||) * max(1,||second||)


def _accuracy(result, exact, eps, first=None, second=None):
    rd = dense(result)
    ne = fro(exact)
    if rd.numel() != exact.numel():
        return False, "dense result has %d entries, exact product has %d" % (rd.numel(), exact.numel())
    if ne == 0.0:
        # zero operand(s): the exact product is the zero tensor, the result has to be numerically zero
        ref = max(1.0, fro(dense(first)) if first is not None else 1.0) * max(1.0, fro(dense(second)) if second is not None else 1.0)
        return within(fro(rd), ZERO_TOL * ref, "||result|| for an exactly zero product (reference scale %.3e, result ranks %s)" % (
            ref, list(result.R)))
    err = fro(rd.reshape(-1) - exact.reshape(-1))
    bound = (C * eps + FLOOR) * ne
    return within(err, bound, "||result - exact|| (C=%g, eps=%g, ||exact||=%.3e, rel.err=%.3e, result ranks %s)" % (
        C, eps, ne, err / ne if ne else float("nan"), list(result.R)))


def _exact_mv(A, x):
    Am = as_matrix(A)
    return (Am @ dense(x).reshape(-1)).reshape(list(A.M))


def _exact_mm(A, B):
    d = len(A.M)
    P = as_matrix(A) @ as_matrix(B)
    return P.reshape(list(A.M) + list(B.N))


def _guess_clause(old, guess):
    ok, msg = unchanged(old, guess)
    return ok, "user supplied initial guess was modified by the call: " + msg


def _is_tt(result):
    return isinstance(result, torchtt.TT), "result is %s" % type(result).__name__


def _finite(result):
    ok = all(bool(torch.isfinite(c).all()) for c in result.cores)
    return ok, "result cores contain NaN/Inf"


# ---------------------------------------------------------------------------------- sidecar contracts

@contract
@icontract.snapshot(lambda initial: snapshot_tt(initial), name="guess")
@icontract.snapshot(lambda A: snapshot_tt(A), name="first")
@icontract.snapshot(lambda x: snapshot_tt(x), name="second")
@clause("guess_modified", lambda OLD, initial: _guess_clause(OLD.guess, initial))
@clause("operands_unchanged", lambda OLD, A, x: unchanged_named([("A", OLD.first, A), ("x", OLD.second, x)]))
@clause("accuracy", lambda result, OLD, eps: _accuracy(
    result, _exact_mv(frozen(OLD.first), frozen(OLD.second)), eps, frozen(OLD.first), frozen(OLD.second)))
@clause("finite", lambda result: _finite(result))
@clause("shape", lambda result, A: (
    (not result.is_ttm) and shape_of(result) == list(A.M), "expected TT tensor of shape %s, got %s%s" % (
        list(A.M), "TT-matrix " if result.is_ttm else "", shape_of(result))))
@clause("is_tt", lambda result: _is_tt(result))
@icontract.require(lambda A, x: A.is_ttm and not x.is_ttm and A.N == x.N)
def fast_matvec(A, x, eps, initial):
    return A.fast_matvec(x, eps=eps, initial=initial)


@contract
@icontract.snapshot(lambda z0: snapshot_tt(z0), name="guess")
@icontract.snapshot(lambda x: snapshot_tt(x), name="first")
@icontract.snapshot(lambda y: snapshot_tt(y), name="second")
@clause("guess_modified", lambda OLD, z0: _guess_clause(OLD.guess, z0))
@clause("operands_unchanged", lambda OLD, x, y: unchanged_named([("x", OLD.first, x), ("y", OLD.second, y)]))
@clause("accuracy", lambda result, OLD, eps: _accuracy(
    result, dense(frozen(OLD.first)) * dense(frozen(OLD.second)), eps, frozen(OLD.first), frozen(OLD.second)))
@clause("finite", lambda result: _finite(result))
@clause("shape", lambda result, x: (
    (not result.is_ttm) and shape_of(result) == list(x.N), "expected TT tensor of shape %s, got %s%s" % (
        list(x.N), "TT-matrix " if result.is_ttm else "", shape_of(result))))
@clause("is_tt", lambda result: _is_tt(result))
@icontract.require(lambda x, y: not x.is_ttm and not y.is_ttm and x.N == y.N)
def dmrg_hadamard(x, y, eps, z0):
    return torchtt.dmrg_hadamard(x, y, z0=z0, eps=eps)


@contract
@icontract.snapshot(lambda x0: snapshot_tt(x0), name="guess")
@icontract.snapshot(lambda A: snapshot_tt(A), name="first")
@icontract.snapshot(lambda x: snapshot_tt(x), name="second")
@clause("guess_modified", lambda OLD, x0: _guess_clause(OLD.guess, x0))
@clause("operands_unchanged", lambda OLD, A, x: unchanged_named([("A", OLD.first, A), ("x", OLD.second, x)]))
@clause("accuracy", lambda result, OLD, eps: _accuracy(
    result, _exact_mv(frozen(OLD.first), frozen(OLD.second)), eps, frozen(OLD.first), frozen(OLD.second)))
@clause("finite", lambda result: _finite(result))
@clause("shape", lambda result, A: (
    (not result.is_ttm) and shape_of(result) == list(A.M), "expected TT tensor of shape %s, got %s%s" % (
        list(A.M), "TT-matrix " if result.is_ttm else "", shape_of(result))))
@clause("is_tt", lambda result: _is_tt(result))
@icontract.require(lambda A, x: A.is_ttm and not x.is_ttm and A.N == x.N)
def amen_mv(A, x, eps, x0):
    # real signature: amen_mv(A, b, nswp=22, x0=None, eps=1e-10, rmax=1024, kickrank=4, kick2=0, verbose=False, use_cpp=True)
    return torchtt.amen_mv(A, x, x0=x0, eps=eps, use_cpp=False)


@contract
@icontract.snapshot(lambda X0: snapshot_tt(X0), name="guess")
@icontract.snapshot(lambda A: snapshot_tt(A), name="first")
@icontract.snapshot(lambda B: snapshot_tt(B), name="second")
@clause("guess_modified", lambda OLD, X0: _guess_clause(OLD.guess, X0))
@clause("operands_unchanged", lambda OLD, A, B: unchanged_named([("A", OLD.first, A), ("B", OLD.second, B)]))
@clause("accuracy", lambda result, OLD, eps: _accuracy(
    result, _exact_mm(frozen(OLD.first), frozen(OLD.second)), eps, frozen(OLD.first), frozen(OLD.second)))
@clause("finite", lambda result: _finite(result))
@clause("shape", lambda result, A, B: (
    result.is_ttm and shape_of(result) == list(zip(A.M, B.N)), "expected TT-matrix of shape %s, got %s%s" % (
        list(zip(A.M, B.N)), "" if result.is_ttm else "TT tensor ", shape_of(result))))
@clause("is_tt", lambda result: _is_tt(result))
@icontract.require(lambda A, B: A.is_ttm and B.is_ttm and A.N == B.M)
def amen_mm(A, B, eps, X0):
    return torchtt.amen_mm(A, B, X0=X0, eps=eps)


# ---------------------------------------------------------------------------------- cases

def _rot(N):
    return list(N[1:]) + list(N[:1])


def _post(t, a, which):
    """round 2: zero operands and operands with norm far from 1.  which = 'first' (A / x of hadamard) or 'second'."""
    t = scale_tt(torchtt, t, a.get("s_" + which))
    if a.get("zero") in (which, "both"):
        t = torchtt.TT([torch.zeros_like(c) for c in t.cores])
    return t


def run_case(a, check):
    dt = dtype_of(a["dtype"])
    N = list(a["N"])
    M = list(a["M"])
    r = a["rank"]
    g = a["guess"]
    seed_all(a["seed"])
    op = a["op"]
    if op in ("fast_matvec", "amen_mv"):
        A = _post(rand_tt(torchtt, list(zip(M, N)), r, dt), a, "first")
        x = _post(rand_tt(torchtt, N, r, dt), a, "second")
        guess = x if g == "second" else (None if g is None else torchtt.random(M, g, dtype=dt))   # "second": guess IS x
        seed_all(a["seed"] + 7919)
        if op == "fast_matvec":
            check(None, lambda: fast_matvec(A, x, a["eps"], guess))
        else:
            check(None, lambda: amen_mv(A, x, a["eps"], guess))
    elif op == "dmrg_hadamard":
        x = _post(rand_tt(torchtt, N, r, dt), a, "first")
        y = _post(rand_tt(torchtt, N, r, dt), a, "second")
        guess = x if g == "first" else (y if g == "second" else (None if g is None else torchtt.random(N, g, dtype=dt)))
        seed_all(a["seed"] + 7919)
        check(None, lambda: dmrg_hadamard(x, y, a["eps"], guess))
    elif op == "amen_mm":
        K = list(a["K"])
        A = _post(rand_tt(torchtt, list(zip(M, K)), r, dt), a, "first")
        B = _post(rand_tt(torchtt, list(zip(K, N)), r, dt), a, "second")
        guess = A if g == "first" else (B if g == "second" else (
            None if g is None else torchtt.random(list(zip(M, N)), g, dtype=dt)))
        seed_all(a["seed"] + 7919)
        check(None, lambda: amen_mm(A, B, a["eps"], guess))
    else:
        raise ValueError("unknown op %r" % op)


def _mk(op, N, rank, eps, guess, dtype, seed, zero=None, s_first=None, s_second=None):
    N = list(N)
    M = list(reversed(N))
    a = {"op": op, "N": N, "M": M, "rank": rank, "eps": eps, "guess": guess, "dtype": dtype, "seed": seed}
    if op == "amen_mm":
        a["K"] = _rot(N)
    a["id"] = case_id(op, "order%d" % len(N), "N=%s" % str(N).replace(" ", ""), "r=%d" % rank, "eps=%g" % eps,
                      "guess=%s" % ("none" if guess is None else ("rank%d" % guess if isinstance(guess, int) else guess + "_operand")),
                      dtype, "seed=%d" % seed)
    if zero:
        a["zero"] = zero
        a["id"] += ".zero=" + zero
    if s_first:
        a["s_first"] = s_first
        a["id"] += ".first:" + scale_tag(s_first)
    if s_second:
        a["s_second"] = s_second
        a["id"] += ".second:" + scale_tag(s_second)
    return a


def scaled_and_zero_cases(tier, seed):
    """Round 2 family: zero operands (exact product 0) and operands with norms 1e-6 / 1e6 (relative contract unchanged)."""
    quick = tier == "quick"
    cases = []
    z_shapes = [[3], [2, 3], [3, 1, 5], [2, 3, 2]] if quick else [[3], [1], [2, 3], [1, 5], [3, 1, 5], [2, 3, 2], [2, 2, 3, 2]]
    for op in OPS:
        for N in z_shapes:
            for zero in ("first", "second", "both"):
                for g in (None, 3):
                    for eps in ([1e-6] if quick else [1e-2, 1e-6, 1e-10]):
                        for s in ([seed] if quick else [seed, 1]):
                            cases.append(_mk(op, N, 2, eps, g, "float64", s, zero=zero))
    one = lambda f, k: {"mode": "one", "factor": f, "core": k}    # noqa: E731
    spread = lambda f: {"mode": "spread", "factor": f}            # noqa: E731
    combos = [(one(1e-6, 0), None), (None, one(1e6, -1)), (spread(1e6), spread(1e6)), (spread(1e-6), spread(1e-6)),
              (one(1e3, -1), one(1e-6, 0)), ({"mode": "alt", "p": 3}, {"mode": "alt", "p": -3})]
    if not quick:
        combos += [(one(1e6, 0), one(1e-6, -1)), (spread(-1e-3), None), (None, {"mode": "alt", "p": 6})]
    s_shapes = [[3], [2, 3], [2, 3, 2], [3, 1, 5], [5, 5, 5]] if quick else [[3], [2, 3], [5, 1], [2, 3, 2], [3, 1, 5], [5, 5, 5],
                                                                           [2, 3, 4, 2], [2, 3, 2, 3, 2]]
    for op in OPS:
        for N in s_shapes:
            for (sf, ss) in combos:
                for r in ([2, 3] if quick else [1, 2, 4]):
                    for eps in [1e-2, 1e-6, 1e-10]:
                        for g in (None, 3):
                            for s in ([seed] if quick else [seed, 1]):
                                cases.append(_mk(op, N, r, eps, g, "float64", s, s_first=sf, s_second=ss))
    # round 4: products whose NORM is below a loose eps, order >= 4 (a relative contract cannot depend on the unit of the data:
    # absolute thresholds in the sweep's convergence test show up only here)
    for op in ("fast_matvec", "dmrg_hadamard"):
        for N in ([[4, 3, 4, 3, 4]] if quick else [[4, 3, 4, 3, 4], [3, 3, 3, 3], [2, 3, 4, 3, 2, 2]]):
            for eps in (1e-3, 1e-4):
                for s in ([seed, 1] if seed != 1 else [1, 2]):
                    for f in ([1e-4] if quick else [1e-4, 1e-7]):
                        cases.append(_mk(op, N, 3, eps, None, "float64", s, s_first=spread(f), s_second=spread(f)))
    if not quick:
        for op in ("fast_matvec", "dmrg_hadamard"):
            for N in [[2, 3], [2, 3, 2]]:
                for (sf, ss) in combos[:4]:
                    for eps in [1e-2, 1e-6]:
                        cases.append(_mk(op, N, 2, eps, None, "complex128", seed, s_first=sf, s_second=ss))
    return cases


QUICK_SHAPES = [[1], [3], [5],
                [2, 3], [5, 1], [1, 5], [3, 3], [1, 1],
                [2, 3, 2], [3, 1, 5], [5, 5, 5], [1, 2, 3], [2, 2, 1]]
THOROUGH_SHAPES = QUICK_SHAPES + [[2], [6], [6, 4], [4, 6],
                                  [2, 3, 4, 2], [1, 3, 3, 1], [4, 4, 4, 4], [3, 1, 1, 3],
                                  [2, 3, 2, 3, 2], [3, 3, 3, 3, 3], [2, 2, 2, 2, 2, 2], [3, 2, 1, 2, 3, 2]]
OPS = ["fast_matvec", "dmrg_hadamard", "amen_mv", "amen_mm"]


def enumerate_cases(tier, seed):
    quick = tier == "quick"
    shapes = QUICK_SHAPES if quick else THOROUGH_SHAPES
    ranks = [1, 2, 3] if quick else [1, 2, 3, 4]
    eps_list = [1e-2, 1e-6, 1e-10] if quick else [1e-1, 1e-2, 1e-4, 1e-6, 1e-8, 1e-10, 1e-12]
    guesses = [None, 3] if quick else [None, 1, 3, 6]
    seeds = [seed, 1] if seed != 1 else [1, 2]
    if not quick:
        seeds = sorted(set([seed, 1, 2, 3]))
    cases = []
    for op in OPS:
        for N in shapes:
            big = len(N) >= 5
            for r in ranks:
                if big and r > 3:
                    continue
                if op == "amen_mm" and len(N) >= 5 and r > 2:
                    continue
                for eps in eps_list:
                    for g in guesses:
                        for s in (seeds if not big else seeds[:2]):
                            cases.append(_mk(op, N, r, eps, g, "float64", s))
    # complex operands for the two DMRG routines
    c_shapes = [[3], [2, 3], [1, 5], [2, 3, 2], [3, 1, 5]] if quick else shapes[:20]
    for op in ("fast_matvec", "dmrg_hadamard"):
        for N in c_shapes:
            for r in ([2] if quick else [1, 3]):
                for eps in ([1e-6] if quick else [1e-2, 1e-6, 1e-10]):
                    for g in [None, 3]:
                        for s in seeds[:2]:
                            cases.append(_mk(op, N, r, eps, g, "complex128", s))
    cases += scaled_and_zero_cases(tier, seed)
    cases += operand_guess_cases(tier, seed)
    return cases


def operand_guess_cases(tier, seed):
    """Round 3 family: the initial guess IS one of the operand objects (square shapes, so that the shapes agree)."""
    quick = tier == "quick"
    shapes = [[3, 3], [2, 3, 2], [5, 5, 5]] if quick else [[3, 3], [1, 1], [2, 3, 2], [5, 5, 5], [2, 3, 3, 2]]
    const_shapes = [[3, 3], [5, 5, 5]] if quick else [[3, 3], [2, 2, 2], [5, 5, 5], [2, 2, 2, 2]]
    cases = []
    for r in ([2] if quick else [1, 3]):
        for eps in ([1e-6] if quick else [1e-2, 1e-6, 1e-10]):
            for s in ([seed, 1] if quick and seed != 1 else [seed, seed + 1]):
                for N in shapes:            # reversed(N) == N: A is square, a guess for A@x has the shape of x
                    for op in ("fast_matvec", "amen_mv"):
                        cases.append(_mk(op, N, r, eps, "second", "float64", s))
                    for which in ("first", "second"):
                        cases.append(_mk("dmrg_hadamard", N, r, eps, which, "float64", s))
                for N in const_shapes:      # all modes equal: A, B and A@B have the same operator shape
                    for which in ("first", "second"):
                        cases.append(_mk("amen_mm", N, r, eps, which, "float64", s))
    return cases


def bound(tier, seed):
    if tier == "quick":
        return ("C11 quick: ops {A.fast_matvec(x,eps,initial), torchtt.dmrg_hadamard(x,y,z0,eps), torchtt.amen_mv(A,x,x0,eps), "
                "torchtt.amen_mm(A,B,X0,eps)}; tensor shapes N in {[1],[3],[5],[2,3],[5,1],[1,5],[3,3],[1,1],[2,3,2],[3,1,5],"
                "[5,5,5],[1,2,3],[2,2,1]} (orders 1,2,3; sizes from {1,2,3,5}); operators A of shape reversed(N) x N "
                "(amen_mm: A reversed(N) x rot(N), B rot(N) x N); all operands torchtt.random cores with uniform rank r in "
                "{1,2,3}; eps in {1e-2,1e-6,1e-10}; initial guess in {None (library-internal random/zero guess), "
                "torchtt.random of rank 3}; seeds {%d, 1}; float64, plus complex128 for fast_matvec and dmrg_hadamard on "
                "5 shapes (r=2, eps=1e-6). Contract: result is a TT of the right N (and M), finite, "
                "||dense(result)-exact|| <= (50*eps + 1e-9)*||exact|| with exact = dense A@x / x*y / A@B, and the user "
                "supplied guess object is bit-for-bit unchanged (cores, ranks). ROUND-2 FAMILY: (a) zero operands - first, second or "
                "both operands with all cores zero, shapes {[3],[2,3],[3,1,5],[2,3,2]}, rank 2, eps 1e-6, guess {None, rank 3}: no "
                "exception and ||result|| <= 1e-12*max(1,||first||)*max(1,||second||); (b) operands far from norm 1 - shapes "
                "{[3],[2,3],[2,3,2],[3,1,5],[5,5,5]}, ranks {2,3}, eps {1e-2,1e-6,1e-10}, guess {None, rank 3 of norm O(1)}, "
                "(first,second) operand scalings {(first core x1e-6, none), (none, last core x1e6), (1e6 spread, 1e6 spread), "
                "(1e-6 spread, 1e-6 spread), (last core x1e3, first core x1e-6), (core k x10**(3(-1)**k), core k x10**(-3(-1)**k))}: "
                "same relative contract. ROUND 3: every evaluation additionally checks clause operands_unchanged (A/x/y/B bit-for-bit "
                "as before the call) and computes the exact product from snapshots taken BEFORE the call; ROUND 4: fast_matvec / dmrg_hadamard on N=[4,3,4,3,4], rank 3, both operands scaled by 1e-4 (product norm below eps), eps in {1e-3,1e-4}, 2 seeds; extra family in which the "
                "guess IS an operand object: fast_matvec(initial=x) / amen_mv(x0=x) on N in {[3,3],[2,3,2],[5,5,5]} (square A), "
                "dmrg_hadamard(z0=x) and (z0=y) on the same shapes, amen_mm(X0=A) and (X0=B) on N in {[3,3],[5,5,5]}; rank 2, eps "
                "1e-6, 2 seeds." % seed)
    return ("C11 thorough: same four ops; 25 shapes of order 1..6 with mode sizes 1..6; ranks {1,2,3,4}; eps in "
            "{1e-1,1e-2,1e-4,1e-6,1e-8,1e-10,1e-12}; guesses {None, random rank 1, 3, 6}; seeds {%d,1,2,3}; float64 + "
            "complex128 (DMRG routines). Same contract as quick. Round-2 family as in quick with more shapes (orders 1..5), ranks "
            "{1,2,4}, 9 scaling combinations, all three eps for zero operands, 2 seeds, complex128 for the DMRG routines." % seed)
