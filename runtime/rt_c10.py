"""
C10  reshape / permute / to_qtt / qtt_to_tens : exact requested mode sizes, dense value equal to the dense
reshape / permutation up to K*eps*||x|| (+ roundoff floor), no change of sign, phase or scale.
"""
import itertools
import math
import random

import icontract
import torch
import torchtt

from rt_common import (all_permutations, case_id, clause, contract, dense, dtype_of, fro, inflate_tt, is_op_shape,
                       norm_shape, ordered_factorisations, rand_tt, scale_tag, scale_tt, seed_all, shape_of,
                       with_singletons, within)

DEFAULT_EPS = {"reshape": 1e-16, "permute": 1e-12, "to_qtt": 1e-12, "qtt_roundtrip": 1e-12}
FLOOR = {"float64": 1e-10, "complex128": 1e-10, "float32": 1e-4}


def K_of(x):
    return 4.0 * (1.0 + math.sqrt(max(x.R)))


def _numel_pair(shape):
    shape = norm_shape(shape)
    if is_op_shape(shape):
        return (int(math.prod(s[0] for s in shape)), int(math.prod(s[1] for s in shape)))
    return (int(math.prod(shape)), 1)


def _dense_target(xd, x_is_ttm, shape):
    shape = norm_shape(shape)
    if x_is_ttm:
        return xd.reshape([s[0] for s in shape] + [s[1] for s in shape])
    return xd.reshape(shape)


def _value_clause(result, x, expected, eps, op, dtype_name):
    e = DEFAULT_EPS[op] if eps is None else eps
    nx = fro(dense(x))
    rd = dense(result)
    if list(rd.shape) != list(expected.shape):
        if rd.numel() != expected.numel():
            return False, "dense result has shape %s, expected %s" % (list(rd.shape), list(expected.shape))
        # wrong mode sizes are reported by the `shape` clause; still compare the values entry by entry
        rd = rd.reshape(expected.shape) if not result.is_ttm else None
        if rd is None:
            return True, ""
    err = fro(rd - expected)
    K = K_of(x)
    bound = K * e * nx + FLOOR[dtype_name] * nx
    return within(err, bound, "||result - dense_oracle|| (K=%.2f, eps=%g, ||x||=%.3e, rel.err=%.3e)" % (
        K, e, nx, err / nx if nx else float("nan")))


def _dtype_clause(result, x):
    return (result.cores[0].dtype == x.cores[0].dtype,
            "dtype changed %s -> %s" % (x.cores[0].dtype, result.cores[0].dtype))


# ---------------------------------------------------------------------------------- sidecar contracts

@contract
@clause("value", lambda result, x, shape, eps, dtype_name: _value_clause(
    result, x, _dense_target(dense(x), x.is_ttm, shape), eps, "reshape", dtype_name))
@clause("dtype", lambda result, x: _dtype_clause(result, x))
@clause("shape", lambda result, shape: (
    shape_of(result) == norm_shape(shape) and result.is_ttm == is_op_shape(norm_shape(shape)),
    "requested mode sizes %s, got %s" % (norm_shape(shape), shape_of(result))))
@clause("is_tt", lambda result: (isinstance(result, torchtt.TT), "result is %s" % type(result).__name__))
@icontract.require(lambda x, shape: _numel_pair(shape) == _numel_pair(shape_of(x)))
def reshape(x, shape, eps, dtype_name):
    if eps is None:
        return torchtt.reshape(x, shape)
    return torchtt.reshape(x, shape, eps)


def _perm_shape(x, dims):
    s = shape_of(x)
    return [s[i] for i in dims]


def _perm_dense(x, dims):
    xd = dense(x)
    d = len(dims)
    if x.is_ttm:
        return xd.permute(list(dims) + [d + i for i in dims])
    return xd.permute(list(dims))


@contract
@clause("value", lambda result, x, dims, eps, dtype_name: _value_clause(
    result, x, _perm_dense(x, dims), eps, "permute", dtype_name))
@clause("dtype", lambda result, x: _dtype_clause(result, x))
@clause("shape", lambda result, x, dims: (
    shape_of(result) == _perm_shape(x, dims) and result.is_ttm == x.is_ttm,
    "requested mode sizes %s, got %s" % (_perm_shape(x, dims), shape_of(result))))
@clause("is_tt", lambda result: (isinstance(result, torchtt.TT), "result is %s" % type(result).__name__))
@icontract.require(lambda x, dims: sorted(dims) == list(range(len(x.N))))
def permute(x, dims, eps, dtype_name):
    if eps is None:
        return torchtt.permute(x, dims)
    return torchtt.permute(x, dims, eps)


def _qtt_shape(x):
    if x.is_ttm:
        return [(2, 2)] * int(round(math.log2(math.prod(x.N))))
    return [2] * int(round(math.log2(math.prod(x.N))))


def _is_pow2(n):
    return n >= 2 and (n & (n - 1)) == 0


@contract
@clause("value", lambda result, x, eps, dtype_name: _value_clause(
    result, x, _dense_target(dense(x), x.is_ttm, _qtt_shape(x)), eps, "to_qtt", dtype_name))
@clause("dtype", lambda result, x: _dtype_clause(result, x))
@clause("shape", lambda result, x: (
    shape_of(result) == _qtt_shape(x) and result.is_ttm == x.is_ttm,
    "requested mode sizes %s, got %s" % (_qtt_shape(x), shape_of(result))))
@clause("is_tt", lambda result: (isinstance(result, torchtt.TT), "result is %s" % type(result).__name__))
@icontract.require(lambda x: all(_is_pow2(n) for n in x.N) and (not x.is_ttm or x.M == x.N))
def to_qtt(x, eps, dtype_name):
    if eps is None:
        return x.to_qtt()
    return x.to_qtt(eps)


@contract
@clause("value", lambda result, x, dtype_name: _value_clause(
    result, x, dense(x), None, "qtt_roundtrip", dtype_name))
@clause("dtype", lambda result, x: _dtype_clause(result, x))
@clause("shape", lambda result, x: (
    shape_of(result) == shape_of(x) and not result.is_ttm,
    "requested mode sizes %s, got %s" % (shape_of(x), shape_of(result))))
@clause("is_tt", lambda result: (isinstance(result, torchtt.TT), "result is %s" % type(result).__name__))
@icontract.require(lambda x: all(_is_pow2(n) for n in x.N) and not x.is_ttm)
def qtt_roundtrip(x, dtype_name):
    return x.to_qtt().qtt_to_tens(x.N)


# ---------------------------------------------------------------------------------- case construction

def build_operand(a):
    dt = dtype_of(a["dtype"])
    shape = norm_shape(a["shape"])
    seed_all(a["seed"])
    x = rand_tt(torchtt, shape, a["rank"], dt)
    if a.get("noise", 0.0):
        y = rand_tt(torchtt, shape, a["rank"] + 2, dt)
        nx, ny = fro(dense(x)), fro(dense(y))
        x = x + (a["noise"] * nx / ny) * y
    # round 2: exact value stored with redundant ranks, operands whose norm (or whose cores' norms) are far from 1
    if a.get("inflate"):
        x = inflate_tt(torchtt, x)
    x = scale_tt(torchtt, x, a.get("scale"))
    if a.get("unbalanced"):
        # round 5: two rank-one terms of equal norm, the second stored with badly balanced cores (s, 1/s, 1, ...): every core of
        # the unrounded sum mixes entries of very different magnitude although the tensor itself is perfectly scaled
        sfac = float(a["unbalanced"])
        def unit(n):
            w = torch.randn(n, dtype=torch.float64)
            return (w / torch.linalg.norm(w)).to(dt)
        if is_op_shape(shape):
            us = [unit(m * n).reshape(m, n) for (m, n) in shape]
            vs = [unit(m * n).reshape(m, n) for (m, n) in shape]
        else:
            us = [unit(n) for n in shape]
            vs = [unit(n) for n in shape]
        if len(vs) >= 2:
            vs[0] = vs[0] * sfac
            vs[1] = vs[1] / sfac
        x = torchtt.rank1TT(us) + torchtt.rank1TT(vs)
    return x


def run_case(a, check):
    x = build_operand(a)
    seed_all(a["seed"] + 7919)
    op = a["op"]
    if op == "reshape":
        check(None, lambda: reshape(x, norm_shape(a["target"]), a["eps"], a["dtype"]))
    elif op == "permute":
        check(None, lambda: permute(x, list(a["dims"]), a["eps"], a["dtype"]))
    elif op == "to_qtt":
        check(None, lambda: to_qtt(x, a["eps"], a["dtype"]))
    elif op == "qtt_roundtrip":
        check(None, lambda: qtt_roundtrip(x, a["dtype"]))
    else:
        raise ValueError("unknown op %r" % op)


def _mk(op, shape, rank, dtype, eps, seed, noise=0.0, **extra):
    shape = [list(s) if isinstance(s, tuple) else s for s in shape]
    a = {"op": op, "shape": shape, "rank": rank, "dtype": dtype, "eps": eps, "seed": seed, "noise": noise}
    a.update(extra)
    tag = extra.get("target", extra.get("dims", ""))
    a["id"] = case_id(op, "ttm" if is_op_shape(shape) else "tt", "N=%s" % str(shape).replace(" ", ""),
                      ("to=%s" % str(tag).replace(" ", "")) if tag != "" else "std",
                      "r=%d" % rank, dtype, "eps=%s" % ("default" if eps is None else "%g" % eps),
                      "noise=%g" % noise, "seed=%d" % seed)
    if extra.get("unbalanced"):
        a["id"] += ".unbalanced=%g" % extra["unbalanced"]
    if extra.get("scale") or extra.get("inflate"):
        a["id"] += "." + scale_tag(extra.get("scale")) + (".inflated" if extra.get("inflate") else "")
    return a


def scale_specs(d, quick=True):
    """operand scalings: one core (first / middle / last) times {1e-6,1e-3,1e3,1e6}, spread over all cores, alternating."""
    specs = [{"mode": "one", "factor": f, "core": 0} for f in (1e-6, 1e-3, 1e3, 1e6)]
    specs += [{"mode": "one", "factor": f, "core": d - 1} for f in (1e-6, 1e6)]
    if d >= 3:
        specs += [{"mode": "one", "factor": f, "core": d // 2} for f in (1e-3, 1e3)]
    specs += [{"mode": "spread", "factor": f} for f in (1e-6, 1e6)]
    specs += [{"mode": "alt", "p": 3}, {"mode": "alt", "p": -3}]
    if not quick:
        specs += [{"mode": "one", "factor": f, "core": 1 % d} for f in (1e-6, 1e-3, 1e3, 1e6)]
        specs += [{"mode": "spread", "factor": f} for f in (-1e-3, 1e3)]
        specs += [{"mode": "alt", "p": 6}, {"mode": "alt", "p": -6}]
    return specs


def scaled_cases(tier, seed):
    """Round 2 family: norms far from 1, inflated ranks, swaps away from the first position, eps in {1e-8,1e-4,1e-2}."""
    quick = tier == "quick"
    cases = []
    eps_list = [1e-8, 1e-4, 1e-2]
    seeds = [seed] if quick else [seed, seed + 1]

    def variants(op, shape, dtype, s, **extra):
        d = len(shape)
        for spec in scale_specs(d, quick):
            for eps in eps_list:
                for inflate in (0, 1):
                    noises = [0.0] if eps < 1e-4 else [0.0, eps / 2.0]
                    for noise in noises:
                        if inflate and noise and quick:
                            continue
                        cases.append(_mk(op, shape, 2, dtype, eps, s, noise, scale=spec, inflate=inflate, **extra))

    # permute: orders 3..5, permutations whose bubble-sort swaps happen (also / only) away from position 0
    perm_sets = {
        3: [[0, 2, 1], [2, 1, 0], [1, 2, 0]],
        4: [[0, 1, 3, 2], [0, 2, 1, 3], [3, 2, 1, 0], [1, 0, 3, 2]],
        5: [[0, 1, 2, 4, 3], [0, 3, 2, 1, 4], [4, 3, 2, 1, 0]],
    }
    p_shapes = [[2, 3, 4], [3, 2, 2, 3], [2, 2, 3, 2, 2], [(2, 2), (3, 1), (1, 2)], [(2, 2), (2, 3), (3, 2), (2, 2)]]
    if not quick:
        p_shapes += [[3, 1, 2], [4, 3, 2, 2], [(2, 2), (2, 1), (1, 2), (2, 2), (2, 2)]]
    for shape in p_shapes:
        for dims in perm_sets[len(shape)]:
            for s in seeds:
                variants("permute", shape, "float64", s, dims=dims)
            if not quick or dims == perm_sets[len(shape)][0]:
                variants("permute", shape, "complex128", seeds[0], dims=dims)

    # reshape with eps != default
    r_pairs = [([12], [3, 4]), ([4, 3], [2, 6]), ([4, 3], [2, 2, 3]), ([2, 3, 2], [6, 2]), ([2, 3, 2], [4, 3]),
               ([2, 1, 3, 2], [3, 4]), ([(2, 3), (2, 2)], [(4, 2), (1, 3)]), ([(2, 3), (2, 2)], [(2, 2), (2, 3)]),
               ([(4, 4)], [(2, 2), (2, 2)])]
    if not quick:
        r_pairs += [([2, 2, 3, 2], [4, 6]), ([24], [2, 3, 4]), ([(2, 2), (2, 2), (2, 2)], [(4, 2), (2, 4)])]
    for shape, target in r_pairs:
        target = [list(t) if isinstance(t, tuple) else t for t in target]
        for s in seeds:
            variants("reshape", shape, "float64", s, target=target)
        if not quick:
            variants("reshape", shape, "complex128", seeds[0], target=target)

    # to_qtt(eps)
    q_shapes = [[16], [8, 4], [4, 8, 2], [(4, 4), (2, 2)], [(8, 8)]]
    if not quick:
        q_shapes += [[4, 4, 4, 4], [(4, 4), (4, 4), (2, 2)]]
    for shape in q_shapes:
        for s in seeds:
            variants("to_qtt", shape, "float64", s)
        if not quick:
            variants("to_qtt", shape, "complex128", seeds[0])
    # round 5: unrounded sums with badly balanced cores (the truncation threshold must be relative to the norm of the TENSOR)
    for sfac in (1e3, 1e6):
        for eps in (1e-2, 1e-6):
            for s in seeds[:1]:
                for shape in ([[8, 8], [4, 8, 4]] if quick else [[8, 8], [4, 8, 4], [16, 4], [(4, 4), (4, 4)]]):
                    cases.append(_mk("to_qtt", shape, 1, "float64", eps, s, unbalanced=sfac))
                for shape, dims in (([3, 4, 5], [0, 2, 1]), ([2, 3, 2, 3], [0, 2, 1, 3]), ([3, 4, 5], [2, 0, 1])):
                    cases.append(_mk("permute", shape, 1, "float64", eps, s, dims=dims, unbalanced=sfac))
                for shape, target in (([4, 6], [2, 2, 6]), ([6, 4, 2], [3, 8, 2])):
                    cases.append(_mk("reshape", shape, 1, "float64", eps, s, target=target, unbalanced=sfac))
    return cases


def tuples_with_product(total, length):
    """All tuples of positive integers (1 allowed) of the given length whose product is `total`."""
    if length == 1:
        return [(total,)]
    out = []
    for f in range(1, total + 1):
        if total % f == 0:
            out += [(f,) + r for r in tuples_with_product(total // f, length - 1)]
    return out


def op_targets(mtot, ntot, max_len):
    out = []
    for L in range(1, max_len + 1):
        for ms in tuples_with_product(mtot, L):
            for ns in tuples_with_product(ntot, L):
                out.append([[m, n] for m, n in zip(ms, ns)])
    return out


def tensor_targets(n, max_fact_len, max_extra, max_len):
    out = []
    for f in ordered_factorisations(n, max_fact_len):
        for s in with_singletons(f, max_extra):
            if 1 <= len(s) <= max_len and list(s) not in out:
                out.append(list(s))
    if n == 1:
        out = [[1] * k for k in range(1, max_len + 1)]
    return out


def enumerate_cases(tier, seed):
    quick = tier == "quick"
    seeds = [seed, seed + 1] if quick else [seed, seed + 1, seed + 2]
    dtypes = ["float64", "complex128"]
    eps_list = [None, 1e-8, 1e-2] if quick else [None, 1e-12, 1e-8, 1e-4, 1e-2, 1e-1]
    cases = []

    def eps_variants(op, shape, rank, dtype, s, **extra):
        for eps in eps_list:
            cases.append(_mk(op, shape, rank, dtype, eps, s, 0.0, **extra))
            if eps is not None and eps >= 1e-4:
                # perturbation of relative size eps/2: the truncation really has something to cut
                cases.append(_mk(op, shape, rank, dtype, eps, s, eps / 2.0, **extra))

    # ---- reshape, tensors
    if quick:
        sources = [[6], [8], [12], [4, 3], [2, 6], [6, 2], [4, 1], [1, 4],
                   [2, 3, 2], [2, 1, 3], [1, 2, 3], [2, 3, 1], [2, 2, 2]]
        tgt = lambda n: tensor_targets(n, 3, 1, 4)
        ranks = [2]
    else:
        sources = [[6], [8], [12], [16], [24], [1], [4, 3], [2, 6], [6, 2], [4, 1], [1, 4], [3, 8], [1, 1],
                   [2, 3, 2], [2, 1, 3], [1, 2, 3], [2, 3, 1], [2, 2, 2], [4, 3, 2], [1, 6, 1],
                   [2, 2, 3, 2], [2, 1, 1, 4], [1, 2, 2, 1], [3, 2, 2, 2],
                   [2, 2, 2, 2, 2], [2, 1, 3, 1, 2], [1, 2, 3, 2, 1]]
        tgt = lambda n: tensor_targets(n, 5, 2, 6)
        ranks = [1, 3]
    for src in sources:
        n = math.prod(src)
        for target in tgt(n):
            for rank in ranks:
                for dtype in dtypes:
                    for s in seeds[:2]:
                        eps_variants("reshape", src, rank, dtype, s, target=target)
    if not quick:
        for src in [[12], [4, 3], [2, 3, 2]]:
            for target in tensor_targets(12, 3, 1, 4):
                for eps in [None, 1e-3]:
                    cases.append(_mk("reshape", src, 2, "float32", eps, seed, 0.0, target=target))

    # ---- reshape, operators
    if quick:
        op_sources = [[(4, 4)], [(2, 2), (2, 2)], [(2, 3), (2, 2)], [(4, 1), (1, 4)], [(1, 1), (4, 4)],
                      [(4, 4), (1, 1)], [(2, 2), (1, 1), (2, 2)]]
        max_len = 2
        extra_len3 = [[[2, 2], [1, 1], [2, 2]], [[1, 1], [2, 2], [2, 2]], [[2, 2], [2, 2], [1, 1]],
                      [[2, 1], [1, 2], [2, 2]], [[1, 2], [2, 1], [2, 2]]]
    else:
        op_sources = [[(4, 4)], [(2, 2), (2, 2)], [(2, 3), (2, 2)], [(4, 1), (1, 4)], [(1, 1), (4, 4)],
                      [(4, 4), (1, 1)], [(2, 2), (1, 1), (2, 2)], [(8, 4)], [(2, 2), (2, 1), (2, 2)],
                      [(2, 3), (3, 2), (2, 2)], [(2, 2), (2, 2), (2, 2), (2, 2)]]
        max_len = 3
        extra_len3 = []
    for src in op_sources:
        mtot = math.prod(s[0] for s in src)
        ntot = math.prod(s[1] for s in src)
        targets = op_targets(mtot, ntot, max_len)
        if mtot == 4 and ntot == 4:
            targets += [t for t in extra_len3 if t not in targets]
        if not quick and mtot * ntot > 64:
            targets = op_targets(mtot, ntot, 2)
        for target in targets:
            for dtype in dtypes:
                for s in seeds[:1] if not quick else seeds[:2]:
                    eps_variants("reshape", src, 2, dtype, s, target=target)

    # ---- permute
    if quick:
        p_tensors = [[3], [2, 3], [3, 1], [2, 3, 4], [3, 1, 2], [2, 2, 2]]
        p_ops = [[(2, 3)], [(2, 3), (3, 2)], [(2, 2), (3, 1), (1, 2)]]
        perms = lambda d: all_permutations(d)
    else:
        p_tensors = [[3], [2, 3], [3, 1], [1, 1], [2, 3, 4], [3, 1, 2], [2, 2, 2], [2, 3, 2, 3], [1, 2, 1, 3],
                     [3, 2, 2, 2], [2, 3, 2, 2, 3], [2, 2, 2, 2, 2, 2], [2, 1, 3, 2, 1, 2]]
        p_ops = [[(2, 3)], [(2, 3), (3, 2)], [(2, 2), (3, 1), (1, 2)], [(2, 2), (3, 2), (2, 3), (1, 2)],
                 [(2, 2), (1, 2), (2, 1), (2, 2), (2, 2)]]
        rng = random.Random(seed)

        def perms(d):
            if d <= 4:
                return all_permutations(d)
            allp = all_permutations(d)
            pick = [allp[0], allp[-1]] + rng.sample(allp[1:-1], 10)
            return pick
    for src in p_tensors + p_ops:
        for dims in perms(len(src)):
            for dtype in dtypes:
                for s in seeds[:2]:
                    eps_variants("permute", src, 2 if quick else 3, dtype, s, dims=dims)

    # ---- to_qtt / qtt_to_tens
    if quick:
        q_tensors = [[4], [8], [16], [2, 4], [4, 8], [8, 4, 2], [4, 4, 4]]
        q_ops = [[(4, 4)], [(8, 8)], [(2, 2), (4, 4)], [(4, 4), (8, 8)]]
    else:
        q_tensors = [[2], [4], [8], [16], [32], [64], [2, 4], [4, 8], [16, 2], [8, 4, 2], [4, 4, 4], [2, 2, 2],
                     [4, 8, 2, 4], [2, 4, 2, 4, 2]]
        q_ops = [[(2, 2)], [(4, 4)], [(8, 8)], [(16, 16)], [(2, 2), (4, 4)], [(4, 4), (8, 8)],
                 [(4, 4), (2, 2), (4, 4)], [(2, 2), (2, 2), (4, 4), (2, 2)]]
    for src in q_tensors + q_ops:
        for dtype in dtypes:
            for s in seeds[:2]:
                eps_variants("to_qtt", src, 2 if quick else 3, dtype, s)
    for src in q_tensors:
        for dtype in dtypes:
            for s in seeds:
                cases.append(_mk("qtt_roundtrip", src, 2 if quick else 3, dtype, None, s))
    seen = {c["id"] for c in cases}
    for c in scaled_cases(tier, seed):
        if c["id"] not in seen:       # order-1 operands: 'first' and 'last' core coincide
            seen.add(c["id"])
            cases.append(c)
    return cases


def bound(tier, seed):
    if tier == "quick":
        return ("C10 quick: torchtt.reshape on TT tensors with source shapes {[6],[8],[12],[4,3],[2,6],[6,2],[4,1],[1,4],"
                "[2,3,2],[2,1,3],[1,2,3],[2,3,1],[2,2,2]} x every target = ordered factorisation (<=3 factors >=2) of the "
                "element count with at most one singleton mode inserted at any position (front/middle/end, <=4 modes); "
                "reshape on TT operators with sources {[(4,4)],[(2,2),(2,2)],[(2,3),(2,2)],[(4,1),(1,4)],[(1,1),(4,4)],"
                "[(4,4),(1,1)],[(2,2),(1,1),(2,2)]} x all targets of <=2 modes (row and column sizes any positive "
                "factorisation incl. 1) + 5 three-mode targets; torchtt.permute with ALL permutations of tensors "
                "{[3],[2,3],[3,1],[2,3,4],[3,1,2],[2,2,2]} and operators {[(2,3)],[(2,3),(3,2)],[(2,2),(3,1),(1,2)]}; "
                "to_qtt on tensors {[4],[8],[16],[2,4],[4,8],[8,4,2],[4,4,4]} and square operators {[(4,4)],[(8,8)],"
                "[(2,2),(4,4)],[(4,4),(8,8)]}; x.to_qtt().qtt_to_tens(x.N) on the same tensors. Operands: torchtt.random "
                "cores of rank 2 (scaled), dtypes float64 and complex128, eps in {library default, 1e-8, 1e-2} and for "
                "eps=1e-2 additionally an operand perturbed by a rank-4 term of relative size eps/2; seeds {seed, seed+1} "
                "with seed=%d. Contract: exact requested .N/.M, same dtype, ||dense(result)-dense_oracle|| <= "
                "4*(1+sqrt(max rank x))*eps*||x|| + 1e-10*||x|| (default eps: reshape 1e-16, permute/to_qtt 1e-12). "
                "ROUND-2 FAMILY (operands far from norm 1): permute of tensors {[2,3,4],[3,2,2,3],[2,2,3,2,2]} and operators "
                "{[(2,2),(3,1),(1,2)],[(2,2),(2,3),(3,2),(2,2)]} with permutations whose swaps happen away from position 0 "
                "(order 3: [0,2,1],[2,1,0],[1,2,0]; order 4: [0,1,3,2],[0,2,1,3],[3,2,1,0],[1,0,3,2]; order 5: [0,1,2,4,3],"
                "[0,3,2,1,4],[4,3,2,1,0]); reshape pairs {[12]->[3,4],[4,3]->[2,6],[4,3]->[2,2,3],[2,3,2]->[6,2],[2,3,2]->[4,3],"
                "[2,1,3,2]->[3,4],[(2,3),(2,2)]->[(4,2),(1,3)],[(2,3),(2,2)]->[(2,2),(2,3)],[(4,4)]->[(2,2),(2,2)]}; to_qtt of "
                "{[16],[8,4],[4,8,2],[(4,4),(2,2)],[(8,8)]}; each with eps in {1e-8,1e-4,1e-2} x scaling in {one core (first, last) "
                "x {1e-6,1e-3,1e3,1e6}/{1e-6,1e6}, middle core x {1e-3,1e3}, factor {1e-6,1e6} spread evenly over the cores, core k "
                "x 10**(+-3*(-1)**k)} x {minimal storage, the same value stored with doubled redundant ranks (x/2 + x/2 block "
                "cores)} x {clean, perturbed by a rank-4 term of relative size eps/2 for eps >= 1e-4}; float64 (+ complex128 for "
                "one permutation per shape); seed %d. Same contract (everything relative to ||x||)." % (seed, seed))
    return ("C10 thorough: as quick but source orders 1..5 (27 tensor shapes, element counts 1..32), targets = every ordered "
            "factorisation with up to 2 singleton modes inserted (<=6 modes), ranks {1,3}; operator sources up to order 4 with "
            "all targets of <=3 modes; permute: all permutations up to 4 modes and 12 sampled permutations for 5 and 6 modes, "
            "rank 3; QTT shapes up to 64 / order 5; eps in {default,1e-12,1e-8,1e-4,1e-2,1e-1} (+ perturbed operands for "
            "eps>=1e-4); dtypes float64, complex128 and (reshape of 12 elements) float32 with floor 1e-4; seeds "
            "{seed..seed+2}, seed=%d. Same contract as quick. Round-2 family as in quick plus more shapes, scalings (second core, "
            "negative spread factors, alternating 10**(+-6)), complex128 everywhere, 2 seeds." % seed)
