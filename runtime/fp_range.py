#!/usr/bin/env python
"""
Bounded check of the floating-point RANGE assumption behind the proofs of C01 / C02 (floats are modelled as reals): tensors whose
norm is so small / large that the SQUARES of the singular values underflow / overflow.  The relative contracts of TT-SVD and round
must not depend on the unit of the data.  Run-time contract on the real functions; never counted as proved.
usage: fp_range.py C01|C02 [--tier quick|thorough] [--seed n]      prints: RMODE-RESULT {json}
"""
import json, sys, time, warnings
warnings.filterwarnings('ignore')
import torch as tn
import torchtt


def rel(a, b):
    nb = float(tn.linalg.norm(b.to(tn.float64)))
    return float(tn.linalg.norm(a.to(tn.float64) - b.to(tn.float64))) / nb if nb else float('inf')


def main():
    prop = sys.argv[1]
    tier = sys.argv[sys.argv.index('--tier') + 1] if '--tier' in sys.argv else 'quick'
    seed = int(sys.argv[sys.argv.index('--seed') + 1]) if '--seed' in sys.argv else 0
    t0 = time.time()
    fails, n = [], 0
    grid = [(tn.float64, 1e-10, [1e-170, 1e-150, 1.0, 1e150, 1e160]), (tn.float32, 1e-5, [1e-25, 1e-18, 1.0, 1e17, 1e22])]
    shapes = [[4, 5, 6]] + ([[3, 4, 3, 4]] if tier == 'thorough' else [])
    for dt, eps, scales in grid:
        for N in shapes:
            tn.manual_seed(seed)
            x = torchtt.randn(N, [1] + [3] * (len(N) - 1) + [1], dtype=tn.float64)
            ref = x.full()
            for sc in scales:
                n += 1
                name = '%s.range.%s.N=%s.scale=%g' % ('round' if prop == 'C02' else 'ttsvd', str(dt).split('.')[-1], str(N).replace(' ', ''), sc)
                try:
                    if prop == 'C02':
                        y = torchtt.TT([c.to(dt) for c in (x * sc).cores]) if sc != 1.0 else torchtt.TT([c.to(dt) for c in x.cores])
                        r = y.round(eps)
                        got = r.full().to(tn.float64) / sc
                    else:
                        A = (ref * sc).to(dt)
                        r = torchtt.TT(A, eps=eps)
                        got = r.full().to(tn.float64) / sc
                    e = rel(got, ref)
                    tol = 50 * eps + (1e-5 if dt == tn.float32 else 1e-12)
                    if not e <= tol:
                        fails.append({'name': name, 'message': 'relative error %.3g > %.3g (ranks %s): the squares of the singular values leave the floating-point range' % (e, tol, [int(q) for q in r.R]),
                                      'driver': 'none', 'args': {'scale': sc, 'dtype': str(dt)}})
                except Exception as ex:
                    fails.append({'name': name + '.exception', 'message': '%s: %s' % (type(ex).__name__, str(ex)[:200]), 'driver': 'none', 'args': {'scale': sc}})
    print('RMODE-RESULT ' + json.dumps({'name': 'fp_range.' + prop, 'kind': 'bounded check of the floating-point range assumption (floats are reals in the proofs); NOT counted as proved',
                                       'bound': 'random TT of ranks 3 on %s scaled by the listed factors (float64: 1e-170..1e160, float32: 1e-25..1e22), eps 1e-10 / 1e-5; contract: relative error after rescaling <= 50 eps' % shapes,
                                       'evaluations': n, 'distinct_inputs': n, 'failures': fails, 'wall_s': round(time.time() - t0, 2)}))


if __name__ == '__main__':
    main()
