"""
C14  dmrg_cross(f, N, eps) and function_interpolate(f, x, eps): result of shape N within a small multiple of
eps of the exact tensor of function values (modest TT ranks), and the user's function is only ever called
with well-formed arguments.
"""
import math

import icontract
import numpy as np
import torch
import torchtt

from rt_common import (case_id, clause, contract, dense, fro, rand_tt, seed_all, shape_of, snapshot_tt, unchanged_named,
                       within)

C = 20.0
FLOOR = 1e-10
VALUE_TOL = 1e-12


class CallLog:
    """Collects violations of the 'well-formed argument' clause observed inside the user function."""

    def __init__(self):
        self.calls = 0
        self.rows = 0
        self.bad = []

    def note(self, msg):
        if len(self.bad) < 5:
            self.bad.append("call #%d: %s" % (self.calls, msg))


# ---------------------------------------------------------------------------------- functions of the index

def index_function(name, N, seed):
    """returns (f(I) for an M x d integer index matrix, exact dense tensor)"""
    d = len(N)
    grids = torch.meshgrid(*[torch.arange(n, dtype=torch.float64) for n in N], indexing="ij")
    S = sum(grids)
    if name == "sum":
        return (lambda I: I.sum(1).to(torch.float64)), S
    if name == "inv":
        return (lambda I: 1.0 / (2.0 + I.sum(1).to(torch.float64))), 1.0 / (2.0 + S)
    if name == "exp":
        sc = float(sum(N))
        return (lambda I: torch.exp(-I.sum(1).to(torch.float64) / sc)), torch.exp(-S / sc)
    if name == "sqrt":
        return (lambda I: torch.sqrt(1.0 + I.sum(1).to(torch.float64))), torch.sqrt(1.0 + S)
    if name.startswith("ttrank"):
        r = int(name[len("ttrank"):])
        gen = torch.Generator().manual_seed(1000 + seed)
        R = [1] + [r] * (d - 1) + [1]
        cores = [torch.randn(R[k], N[k], R[k + 1], generator=gen, dtype=torch.float64) / math.sqrt(R[k]) for k in range(d)]
        T = cores[0].reshape(N[0], -1)
        for k in range(1, d):
            T = (T @ cores[k].reshape(R[k], -1)).reshape(-1, R[k + 1])
        T = T.reshape(N)

        def f(I):
            I = I.to(torch.int64)
            Ic = torch.stack([I[:, k].clamp(0, N[k] - 1) for k in range(d)], 1)  # violations are logged, not crashed on
            return T[tuple(Ic[:, k] for k in range(d))]
        return f, T
    raise ValueError("unknown index function %r" % name)


def guarded_index_function(f, N, log):
    d = len(N)

    def g(I):
        log.calls += 1
        if not torch.is_tensor(I):
            log.note("argument is %s, not a torch tensor" % type(I).__name__)
            I = torch.as_tensor(I)
        if I.dim() != 2:
            log.note("argument has %d dims (shape %s), expected an M x %d matrix" % (I.dim(), list(I.shape), d))
        elif I.shape[1] != d:
            log.note("index matrix has %d columns, expected d=%d" % (I.shape[1], d))
        if I.dtype not in (torch.int64, torch.int32, torch.int16, torch.int8, torch.uint8):
            log.note("index matrix has dtype %s, expected an integer dtype" % I.dtype)
        if I.dim() == 2 and I.shape[1] == d and I.numel():
            log.rows += I.shape[0]
            for k in range(d):
                lo, hi = int(I[:, k].min()), int(I[:, k].max())
                if lo < 0 or hi >= N[k]:
                    log.note("column %d has entries in [%d, %d], allowed [0, %d)" % (k, lo, hi, N[k]))
        return f(I)
    return g


# ---------------------------------------------------------------------------------- contracts

def _accuracy(result, exact, eps):
    rd = dense(result)
    if list(rd.shape) != list(exact.shape):
        return False, "dense result has shape %s, expected %s" % (list(rd.shape), list(exact.shape))
    ne = fro(exact)
    err = fro(rd - exact)
    return within(err, (C * eps + FLOOR) * ne, "||result - exact|| (C=%g, eps=%g, ||exact||=%.3e, rel.err=%.3e, ranks %s)" % (
        C, eps, ne, err / ne if ne else float("nan"), list(result.R)))


def _wellformed(log):
    return (not log.bad, "user function was called with malformed arguments (%d calls, %d rows): %s" % (
        log.calls, log.rows, " | ".join(log.bad)))


def _is_tt(result):
    return isinstance(result, torchtt.TT), "result is %s" % type(result).__name__


def _as_list(x):
    return list(x) if isinstance(x, (list, tuple)) else [x]


@contract
@icontract.snapshot(lambda x_start: snapshot_tt(x_start), name="start")
@clause("guess_unchanged", lambda OLD, x_start: unchanged_named([("x_start (initial guess)", OLD.start, x_start)]))
@clause("wellformed_calls", lambda log: _wellformed(log))
@clause("accuracy", lambda result, exact, eps: _accuracy(result, exact, eps))
@clause("shape", lambda result, N: ((not result.is_ttm) and shape_of(result) == list(N),
                                    "expected TT tensor of shape %s, got %s" % (list(N), shape_of(result))))
@clause("is_tt", lambda result: _is_tt(result))
@icontract.require(lambda N: len(N) >= 2 and all(n >= 1 for n in N))
def dmrg_cross(f, N, eps, exact, log, x_start=None, nswp=10, kick=2):
    # real signature: dmrg_cross(function, N, eps=1e-9, nswp=10, x_start=None, kick=2, dtype=tn.float64, device=None,
    #                            eval_vect=True, verbose=False)
    return torchtt.interpolate.dmrg_cross(f, list(N), eps=eps, nswp=nswp, x_start=x_start, kick=kick)


@contract
@icontract.snapshot(lambda start_tens: snapshot_tt(start_tens), name="start")
@icontract.snapshot(lambda x: [snapshot_tt(t) for t in _as_list(x)], name="args")
@clause("guess_unchanged", lambda OLD, start_tens, x: unchanged_named(
    [("start_tens (initial guess)", OLD.start, start_tens)] +
    [("argument tensor %d" % j, o, t) for j, (o, t) in enumerate(zip(OLD.args, _as_list(x)))]))
@clause("wellformed_calls", lambda log: _wellformed(log))
@clause("accuracy", lambda result, exact, eps: _accuracy(result, exact, eps))
@clause("shape", lambda result, N: ((not result.is_ttm) and shape_of(result) == list(N),
                                    "expected TT tensor of shape %s, got %s" % (list(N), shape_of(result))))
@clause("is_tt", lambda result: _is_tt(result))
def function_interpolate(f, x, eps, exact, log, N, start_tens=None, nswp=20, kick=2):
    # real signature: function_interpolate(function, x, eps=1e-9, start_tens=None, nswp=20, kick=2, dtype=tn.float64,
    #                                      verbose=False)
    # `exact` and the membership tables inside `f` were computed from the argument tensors BEFORE this call.
    return torchtt.interpolate.function_interpolate(f, x, eps=eps, start_tens=start_tens, nswp=nswp, kick=kick)


# ---------------------------------------------------------------------------------- function_interpolate inputs

UNI = {
    "square": lambda t: t * t,
    "log": lambda t: torch.log(t),
    "sqrt": lambda t: torch.sqrt(t),
    "inv": lambda t: 1.0 / t,
    "affine": lambda t: 2.0 * t + 1.0,
}
MULTI = {
    "sum": lambda X: X.sum(1),
    "inv_sum": lambda X: 1.0 / (2.0 + X.sum(1)),
    "first_times_last": lambda X: X[:, 0] * X[:, -1],
    "exp_mean": lambda X: torch.exp(-X.mean(1)),
}


def _member_checker(values, what, log):
    """closure checking that every entry of a 1-D tensor is (within 1e-12) an entry of `values`."""
    sv = torch.sort(values.reshape(-1).to(torch.float64))[0]
    scale = float(sv.abs().max())          # tolerance is RELATIVE: 1e-12 * max|x| (the unchanged library shows ~2e-16)

    def chk(v):
        v = v.reshape(-1).to(torch.float64)
        pos = torch.searchsorted(sv, v).clamp(1, sv.numel() - 1) if sv.numel() > 1 else torch.zeros_like(v, dtype=torch.int64)
        if sv.numel() > 1:
            dist = torch.minimum((v - sv[pos - 1]).abs(), (v - sv[pos]).abs())
        else:
            dist = (v - sv[0]).abs()
        worst = float(dist.max()) if dist.numel() else 0.0
        if not (worst <= VALUE_TOL * scale):
            i = int(torch.argmax(dist))
            log.note("%s: value %.17g is not an entry of the argument tensor (distance %.3e to the nearest entry = %.3e * max|x|"
                     ", allowed 1e-12)" % (what, float(v[i]), worst, worst / scale if scale else float("inf")))
    return chk


def noisy_smooth_argument(N, j, seed):
    """Round 3: argument tensor with fast decaying but FULL numerical rank: smooth positive function on the grid plus a dense
    random perturbation of relative size 1e-6, decomposed exactly (torchtt.TT(dense, eps=1e-15))."""
    grids = torch.meshgrid(*[torch.arange(n, dtype=torch.float64) / n for n in N], indexing="ij")
    smooth = 1.0 + 0.5 * j + 1.0 / (1.0 + sum((k + 1 + j) * g for k, g in enumerate(grids)))
    gen = torch.Generator().manual_seed(3000 + 17 * seed + j)
    pert = torch.randn(smooth.shape, generator=gen, dtype=torch.float64)
    full = smooth + 1e-6 * float(torch.linalg.norm(smooth) / torch.linalg.norm(pert)) * pert
    return torchtt.TT(full, list(N), eps=1e-15)


def univariate_setup(a, log):
    N = list(a["N"])
    d = len(N)
    if a.get("arg") == "noisy":
        x = noisy_smooth_argument(N, 0, a["seed"])
        xd = dense(x)
        fn = UNI[a["f"]]
        chk = _member_checker(xd, "argument", log)

        def gn(t):
            log.calls += 1
            if not torch.is_tensor(t):
                log.note("argument is %s, not a torch tensor" % type(t).__name__)
                t = torch.as_tensor(t)
            log.rows += t.numel()
            chk(t)
            return fn(t)
        return gn, x, fn(xd)
    # argument tensor with strictly positive entries and modest rank: x = 1 + (i1+..+id)/sum(N)  (+ rank-1 bump)
    vecs = [torch.arange(n, dtype=torch.float64) / float(sum(N)) for n in N]
    x = torchtt.ones(N)
    for k in range(d):
        fac = [torch.ones(n, dtype=torch.float64) for n in N]
        fac[k] = vecs[k]
        x = x + torchtt.rank1TT(fac)
    if a.get("bump"):
        gen = torch.Generator().manual_seed(2000 + a["seed"])
        x = x + 0.25 * torchtt.rank1TT([torch.rand(n, generator=gen, dtype=torch.float64) for n in N])
    x = x.round(1e-14)
    xd = dense(x)
    fn = UNI[a["f"]]
    chk = _member_checker(xd, "argument", log)

    def g(t):
        log.calls += 1
        if not torch.is_tensor(t):
            log.note("argument is %s, not a torch tensor" % type(t).__name__)
            t = torch.as_tensor(t)
        log.rows += t.numel()
        chk(t)
        return fn(t)
    return g, x, fn(xd)


def multivariate_setup(a, log):
    N = list(a["N"])
    d = len(N)
    nargs = a.get("nargs", d)
    vecs = [torch.linspace(0.0, 1.0, n, dtype=torch.float64) + 0.1 * k for k, n in enumerate(N)]
    xs = torchtt.meshgrid(vecs)[:nargs]
    if a.get("arg") == "noisy":
        xs = [noisy_smooth_argument(N, j, a["seed"]) for j in range(nargs)]
    xds = [dense(t) for t in xs]
    fn = MULTI[a["f"]]
    chks = [_member_checker(xd, "column %d" % j, log) for j, xd in enumerate(xds)]

    def g(X):
        log.calls += 1
        if not torch.is_tensor(X):
            log.note("argument is %s, not a torch tensor" % type(X).__name__)
            X = torch.as_tensor(X)
        if X.dim() != 2 or X.shape[1] != nargs:
            log.note("argument has shape %s, expected M x %d (one column per argument tensor)" % (list(X.shape), nargs))
        else:
            log.rows += X.shape[0]
            for j in range(nargs):
                chks[j](X[:, j])
        return fn(X)
    exact = fn(torch.stack([xd.reshape(-1) for xd in xds], 1)).reshape(N)
    return g, list(xs), exact


# ---------------------------------------------------------------------------------- cases

def run_case(a, check):
    N = list(a["N"])
    log = CallLog()
    seed_all(a["seed"])
    op = a["op"]
    if op == "dmrg_cross":
        f, exact = index_function(a["f"], N, a["seed"])
        g = guarded_index_function(f, N, log)
        start = None if a.get("start") is None else torchtt.random(N, int(a["start"]))
        seed_all(a["seed"] + 7919)
        check(None, lambda: dmrg_cross(g, N, a["eps"], exact, log, start))
    elif op == "fi_uni":
        g, x, exact = univariate_setup(a, log)
        st = a.get("start")
        start = None if st is None else (x if st == "arg" else torchtt.random(N, int(st)))   # "arg": start_tens IS x
        seed_all(a["seed"] + 7919)
        check(None, lambda: function_interpolate(g, x, a["eps"], exact, log, N, start))
    elif op == "fi_multi":
        g, xs, exact = multivariate_setup(a, log)
        st = a.get("start")
        start = None if st is None else (xs[0] if st == "arg" else torchtt.random(N, int(st)))
        seed_all(a["seed"] + 7919)
        check(None, lambda: function_interpolate(g, xs, a["eps"], exact, log, N, start))
    else:
        raise ValueError("unknown op %r" % op)


def _mk(op, f, N, eps, seed, **kw):
    a = {"op": op, "f": f, "N": list(N), "eps": eps, "seed": seed}
    a.update(kw)
    extra = ["%s=%s" % (k, v) for k, v in sorted(kw.items())]
    a["id"] = case_id(op, f, "N=%s" % str(list(N)).replace(" ", ""), "eps=%g" % eps, *extra, "seed=%d" % seed)
    return a


def enumerate_cases(tier, seed):
    quick = tier == "quick"
    cases = []
    if quick:
        shapes = [[4, 4, 4], [2, 2], [2, 3], [20, 20], [5, 6, 7], [3, 2, 3], [10, 10, 10], [3, 4, 5, 6], [2, 2, 2, 2], [2, 2, 2, 2, 2]]
        fs = ["sum", "inv", "exp", "ttrank2", "ttrank3"]
        eps_list = [1e-4, 1e-9]
        seeds = [seed, 1, 2] if seed not in (1, 2) else [seed, seed + 1, seed + 2]
        uni_f = ["square", "log", "inv"]
        multi_f = ["sum", "inv_sum", "first_times_last"]
        fi_shapes = [[4, 4, 4], [2, 3], [12, 11], [5, 6, 7], [3, 4, 5, 6]]
    else:
        shapes = [[4, 4, 4], [2, 3], [2, 2], [20, 20], [5, 6, 7], [3, 2, 3], [10, 10, 10], [20, 3, 20], [3, 4, 5, 6],
                  [2, 2, 2, 2], [8, 8, 8, 8], [2, 2, 2, 2, 2], [4, 3, 5, 3, 4], [6, 6, 6, 6, 6]]
        fs = ["sum", "inv", "exp", "sqrt", "ttrank1", "ttrank2", "ttrank3", "ttrank4"]
        eps_list = [1e-3, 1e-6, 1e-9, 1e-10]
        seeds = sorted(set([seed, 1, 2, 3, 4]))
        uni_f = list(UNI)
        multi_f = list(MULTI)
        fi_shapes = [[4, 4, 4], [2, 3], [12, 11], [20, 20], [5, 6, 7], [3, 4, 5, 6], [2, 2, 2, 2, 2], [4, 3, 5, 3, 4]]
    for N in shapes:
        for f in fs:
            for eps in eps_list:
                for s in seeds:
                    cases.append(_mk("dmrg_cross", f, N, eps, s))
    for N in fi_shapes:
        for eps in eps_list:
            for s in seeds:
                for f in uni_f:
                    cases.append(_mk("fi_uni", f, N, eps, s, bump=0))
                    if not quick:
                        cases.append(_mk("fi_uni", f, N, eps, s, bump=1))
                for f in multi_f:
                    cases.append(_mk("fi_multi", f, N, eps, s))
    # a list of argument tensors whose length differs from the order of the tensors ("a list of them")
    for N in ([[4, 5, 6]] if quick else [[4, 5, 6], [3, 4, 5, 6]]):
        for s in seeds[:2]:
            cases.append(_mk("fi_multi", "sum", N, 1e-6, s, nargs=2))
    # round 3 (a): argument tensors with fast decaying but full numerical rank (smooth + 1e-6 dense perturbation)
    n_shapes = [[6, 7, 8], [5, 6], [4, 5, 4, 5]] if quick else [[6, 7, 8], [5, 6], [12, 11], [4, 5, 4, 5], [3, 4, 3, 4, 3]]
    for N in n_shapes:
        for eps in [1e-3, 1e-5, 1e-9]:
            for s in (seeds[:2] if quick else seeds[:3]):
                for f in (["square", "log", "inv"] if quick else list(UNI)):
                    cases.append(_mk("fi_uni", f, N, eps, s, arg="noisy"))
                for f in (["sum", "inv_sum"] if quick else ["sum", "inv_sum", "first_times_last", "exp_mean"]):
                    cases.append(_mk("fi_multi", f, N, eps, s, arg="noisy"))
    # round 3 (b): user supplied starting tensors (x_start / start_tens), incl. the argument object itself
    for N in ([[4, 4, 4], [5, 6, 7], [3, 4, 5, 6]] if quick else [[4, 4, 4], [2, 3], [5, 6, 7], [3, 4, 5, 6], [2, 2, 2, 2, 2]]):
        for eps in ([1e-6] if quick else [1e-4, 1e-9]):
            for s in seeds[:2]:
                for st in (2, 4):
                    for f in ("sum", "inv", "ttrank3"):
                        cases.append(_mk("dmrg_cross", f, N, eps, s, start=st))
                for st in (3, "arg"):
                    cases.append(_mk("fi_uni", "square", N, eps, s, start=st))
                    cases.append(_mk("fi_uni", "inv", N, eps, s, start=st, arg="noisy"))
                    cases.append(_mk("fi_multi", "inv_sum", N, eps, s, start=st))
                    cases.append(_mk("fi_multi", "sum", N, eps, s, start=st, arg="noisy"))
    # round 3 (c): OVER-RANKED starting tensors (rank 4 next to a mode of size 2 or 3: more than any tensor of that shape needs)
    for N in ([[2, 3, 2]] if quick else [[2, 3, 2], [2, 2, 2, 2, 2], [3, 2, 3]]):
        for s in seeds[:2]:
            cases.append(_mk("dmrg_cross", "sum", N, 1e-6, s, start=4))
            cases.append(_mk("fi_uni", "square", N, 1e-6, s, start=4))
            cases.append(_mk("fi_multi", "sum", N, 1e-6, s, start=4))
    # order-1 arguments
    for s in seeds[:1]:
        cases.append(_mk("fi_uni", "square", [7], 1e-6, s, bump=0))
    return cases


def bound(tier, seed):
    if tier == "quick":
        return ("C14 quick: torchtt.interpolate.dmrg_cross(f,N,eps) (nswp=10, kick=2 defaults) for N in {[4,4,4],[2,2],[2,3],[20,20],"
                "[5,6,7],[3,2,3],[10,10,10],[3,4,5,6],[2,2,2,2],[2,2,2,2,2]} and f in {sum: I.sum(1) (float64), inv: "
                "1/(2+sum), exp: exp(-sum/sum(N)), ttrank2/ttrank3: table lookup in a fixed random tensor of exact TT rank "
                "2/3}; torchtt.interpolate.function_interpolate(f,x,eps) for N in {[4,4,4],[2,3],[12,11],[5,6,7],[3,4,5,6]} with "
                "one argument tensor x = 1+(i1+..+id)/sum(N) and f in {t^2, log t, 1/t}, and with the list of d meshgrid "
                "tensors and f in {sum, 1/(2+sum), first*last}; plus a list of 2 argument tensors of order 3 (N=[4,5,6]) and an "
                "order-1 argument (N=[7]); eps in {1e-4,1e-9}; seeds {%d,1,2}; float64. Every call of the user function is "
                "checked: dmrg_cross -> 2-D integer tensor with d columns and 0 <= I[:,k] < N[k]; function_interpolate -> "
                "every value (column j) is within 1e-12 of an entry of the (j-th) argument tensor. Contract: TT tensor of "
                "shape N, ||dense(result)-exact|| <= (20*eps + 1e-10)*||exact||. ROUND 3: the membership tolerance is relative (1e-12*max|x|); "
                "(a) argument tensors of full numerical rank: torchtt.TT(smooth + 1e-6-relative dense random perturbation, eps=1e-15) "
                "with smooth = 1 + j/2 + 1/(1+sum_k (k+1+j) i_k/n_k), N in {[6,7,8],[5,6],[4,5,4,5]}, eps in {1e-3,1e-5,1e-9}, single "
                "argument with f in {t^2, log, 1/t} and list of d such tensors with f in {sum, 1/(2+sum)}, 2 seeds; (b) user "
                "supplied starting tensors: dmrg_cross(x_start = torchtt.random rank 2 / 4), function_interpolate(start_tens = "
                "torchtt.random rank 3, and start_tens = the argument object itself / the first argument of the list) on "
                "{[4,4,4],[5,6,7],[3,4,5,6]}, eps 1e-6, plus an over-ranked start (rank 4) on N=[2,3,2]; clause guess_unchanged: the starting tensor and every argument tensor are "
                "bit-for-bit unchanged after the call." % seed)
    return ("C14 thorough: as quick with 14 shapes of order 2..5 and sizes 2..20, f additionally sqrt(1+sum) and exact TT ranks "
            "1..4; eps in {1e-3,1e-6,1e-9,1e-10}; seeds {%d,1,2,3,4}; function_interpolate also with a rank-1 bump added to "
            "the argument tensor and f in {t^2, log, sqrt, 1/t, 2t+1} / {sum, 1/(2+sum), first*last, exp(-mean)}." % seed)
