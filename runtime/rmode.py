#!/usr/bin/env python
"""
R-mode: bounded run-time-contract harness for the torchTT accuracy / identity properties C10-C14, C16.

    PYTHONPATH=<repo> /verif/.venv312/bin/python /verif/runtime/rmode.py <PROP> --tier quick|thorough
                      --seed <int> [--repo <path>] [--case '<json args>'] [--jobs N]

The REAL library functions are run on an enumerated family of small inputs through thin sidecar wrappers
that carry icontract pre/postconditions (rt_cXX.py); the postconditions compute dense oracles.
Exactly one line `RMODE-RESULT {json}` is printed on stdout.  The exit status is 0 whenever the harness
itself ran to completion (contract failures are reported in the JSON, not through the exit status).
"""
import argparse
import contextlib
import importlib
import json
import os
import signal
import sys
import time
import traceback
import warnings

sys.dont_write_bytecode = True  # keep /verif/runtime free of __pycache__
HERE = os.path.dirname(os.path.abspath(__file__))
PROPS = {"C10": "rt_c10", "C11": "rt_c11", "C12": "rt_c12", "C13": "rt_c13", "C14": "rt_c14", "C16": "rt_c16"}
CASE_TIMEOUT = {"quick": 120, "thorough": 300}
GLOBAL_BUDGET = {"quick": 600, "thorough": 3000}

_STATE = {}


class CaseTimeout(Exception):
    pass


def _alarm(signum, frame):
    raise CaseTimeout("cpu" if signum == signal.SIGPROF else "wall")


def _setup(prop, repo):
    """Import torch / torchtt / the property module (once per process)."""
    if _STATE.get("prop") == prop:
        return _STATE["mod"]
    if HERE not in sys.path:
        sys.path.insert(0, HERE)
    if repo:
        repo = os.path.abspath(repo)
        if repo in sys.path:
            sys.path.remove(repo)
        sys.path.insert(0, repo)
    warnings.filterwarnings("ignore")
    import torch
    torch.set_num_threads(1)
    try:
        torch.set_num_interop_threads(1)
    except RuntimeError:
        pass
    import torchtt  # noqa: F401
    mod = importlib.import_module(PROPS[prop])
    _STATE.update(prop=prop, mod=mod, repo_root=os.path.dirname(os.path.dirname(os.path.abspath(torchtt.__file__))))
    return mod


def _library_location(tb):
    """file:line (function) of the innermost traceback frame that lies inside the library under test."""
    root = _STATE.get("repo_root", "")
    loc = None
    for fr in traceback.extract_tb(tb):
        if root and os.path.abspath(fr.filename).startswith(os.path.join(root, "torchtt")):
            loc = "%s:%d in %s" % (os.path.relpath(fr.filename, root), fr.lineno, fr.name)
    return loc


def _short(s, n=400):
    s = str(s).replace("\n", " ")
    return s if len(s) <= n else s[:n] + "..."


def run_one(prop, repo, args, timeout):
    """Run one enumerated case; never raises.  Returns dict(id, evaluations, failures, wall_s)."""
    t0 = time.time()
    cid = str(args.get("id", "case"))
    failures = []
    evaluations = 0
    ratios = {}
    try:
        mod = _setup(prop, repo)
        import icontract
        import rt_common
        rt_common.reset_evaluations()

        def fail(label, tag, message):
            name = ".".join([p for p in (cid, label, tag) if p])
            failures.append({"name": name, "message": _short(message), "driver": "rmode",
                             "args": dict(args, prop=prop)})

        def check(label, thunk):
            """Run one contract-wrapped call; translate every outcome into failure records."""
            try:
                return thunk()
            except rt_common.ContractViolation as v:
                for tag, msg in v.failed:
                    fail(label, tag, msg)
            except icontract.ViolationError as v:  # a `require` failed: the harness built an invalid input
                fail(label, "precondition", "harness precondition violated (invalid generated input): %s" % v)
            except CaseTimeout:
                raise
            except Exception as exc:
                loc = _library_location(exc.__traceback__)
                fail(label, "exception", "%s: %s%s" % (type(exc).__name__, exc, (" [at %s]" % loc) if loc else ""))
            return None

        # The time limit is on the CPU time of this (single threaded) worker (ITIMER_PROF): a paused VM / overloaded machine
        # must not produce spurious timeouts.  A wall-clock backstop of 3x the limit catches real blocking hangs; if it fires
        # although hardly any CPU time was used (machine stall), the case is re-run once.
        old_alrm = signal.signal(signal.SIGALRM, _alarm)
        old_prof = signal.signal(signal.SIGPROF, _alarm)
        try:
            for attempt in (1, 2):
                n_fail, cpu0 = len(failures), time.process_time()
                rt_common.reset_evaluations()
                signal.setitimer(signal.ITIMER_PROF, float(timeout))
                signal.setitimer(signal.ITIMER_REAL, 3.0 * float(timeout))
                try:
                    with contextlib.redirect_stdout(sys.stderr):  # library chatter must not pollute stdout
                        mod.run_case(args, check)
                except CaseTimeout as to:
                    signal.setitimer(signal.ITIMER_PROF, 0.0)
                    signal.setitimer(signal.ITIMER_REAL, 0.0)
                    cpu = time.process_time() - cpu0
                    if str(to) == "wall" and cpu < 0.5 * timeout and attempt == 1:
                        del failures[n_fail:]
                        continue        # stall of the machine, not of the case: try once more
                    fail(None, "timeout", "case did not finish within %d s of CPU time / %d s of wall time (%s limit hit, "
                                          "%.0f s CPU used, attempt %d)" % (timeout, 3 * timeout, to, cpu, attempt))
                except Exception as exc:  # input construction (uses library constructors) or harness error
                    loc = _library_location(exc.__traceback__)
                    fail(None, "setup_exception", "%s: %s%s" % (type(exc).__name__, exc, (" [at %s]" % loc) if loc else ""))
                break
        finally:
            signal.setitimer(signal.ITIMER_PROF, 0.0)
            signal.setitimer(signal.ITIMER_REAL, 0.0)
            signal.signal(signal.SIGALRM, old_alrm)
            signal.signal(signal.SIGPROF, old_prof)
        evaluations = rt_common.evaluations()
        ratios = {"%s:%s" % (args.get("op", "?"), k): v for k, v in rt_common.ratios().items()}
    except BaseException as exc:  # pragma: no cover - last line of defence
        failures.append({"name": cid + ".harness_error", "message": _short("%s: %s" % (type(exc).__name__, exc)),
                         "driver": "rmode", "args": dict(args, prop=prop)})
    return {"id": cid, "evaluations": evaluations, "failures": failures, "wall_s": time.time() - t0, "ratios": ratios}


def _worker(payload):
    prop, repo, args, timeout = payload
    return run_one(prop, repo, args, timeout)


def _strip(args):
    return {k: v for k, v in args.items() if k not in ("id", "prop")}


def main(argv=None):
    ap = argparse.ArgumentParser(description=__doc__, formatter_class=argparse.RawDescriptionHelpFormatter)
    ap.add_argument("prop", choices=sorted(PROPS))
    ap.add_argument("--tier", choices=["quick", "thorough"], default="quick")
    ap.add_argument("--seed", type=int, default=0)
    ap.add_argument("--repo", default=None, help="path of the torchTT checkout (default: whatever PYTHONPATH provides)")
    ap.add_argument("--case", default=None, help="JSON args of a single case (from a failure's 'args')")
    ap.add_argument("--jobs", type=int, default=0, help="worker processes (default: min(16, cpu count))")
    ap.add_argument("--list", action="store_true", help="only print the enumerated case ids")
    ns = ap.parse_args(argv)

    t0 = time.time()
    result = {"name": "rmode.%s" % ns.prop, "bound": "", "evaluations": 0, "distinct_inputs": 0,
              "failures": [], "samples": [], "wall_s": 0.0}
    try:
        mod = _setup(ns.prop, ns.repo)
        if ns.case is not None:
            one = json.loads(ns.case)
            one.pop("prop", None)
            if "id" not in one:
                import hashlib
                one["id"] = "%s.case-%s" % (one.get("op", "case"), hashlib.sha1(
                    json.dumps(one, sort_keys=True).encode()).hexdigest()[:8])
            cases = [one]
            result["bound"] = "single case re-run (--case): " + json.dumps(_strip(one), sort_keys=True)
        else:
            cases = mod.enumerate_cases(ns.tier, ns.seed)
            result["bound"] = mod.bound(ns.tier, ns.seed)
        if ns.list:
            for c in cases:
                print(c["id"])
            print("RMODE-RESULT " + json.dumps(dict(result, distinct_inputs=len(cases), wall_s=round(time.time() - t0, 3))))
            return 0

        timeout = CASE_TIMEOUT[ns.tier]
        outs = [None] * len(cases)
        jobs = ns.jobs or min(16, os.cpu_count() or 1)
        if len(cases) == 1 or jobs == 1:
            for i, c in enumerate(cases):
                outs[i] = run_one(ns.prop, ns.repo, c, timeout)
        else:
            import multiprocessing as mp
            ctx = mp.get_context("fork")  # the parent has not run any torch kernel yet
            deadline = time.time() + GLOBAL_BUDGET[ns.tier]
            # one task per case (apply_async), results collected in enumeration order
            with ctx.Pool(processes=jobs, maxtasksperchild=200) as pool:
                pend = [pool.apply_async(_worker, ((ns.prop, ns.repo, c, timeout),)) for c in cases]
                for i, p in enumerate(pend):
                    try:
                        outs[i] = p.get(timeout=max(1.0, deadline - time.time()))
                    except Exception as exc:  # worker died or global budget exhausted
                        outs[i] = {"id": cases[i].get("id", "case"), "evaluations": 0, "wall_s": 0.0, "failures": [{
                            "name": "%s.no_result" % cases[i].get("id", "case"),
                            "message": "no result from worker (%s: %s) - worker died or global budget of %d s exhausted"
                                       % (type(exc).__name__, exc, GLOBAL_BUDGET[ns.tier]),
                            "driver": "rmode", "args": dict(cases[i], prop=ns.prop)}]}
                pool.terminate()

        result["evaluations"] = sum(o["evaluations"] for o in outs)
        result["distinct_inputs"] = len({json.dumps(_strip(c), sort_keys=True) for c in cases})
        for o in outs:
            result["failures"].extend(o["failures"])
        pick = sorted({0, len(cases) // 2, len(cases) - 1})
        result["samples"] = [cases[i] for i in pick if 0 <= i < len(cases)]
        summary = {}
        for f in result["failures"]:
            key = "%s:%s" % (f["args"].get("op", "?"), f["name"].rsplit(".", 1)[-1])
            summary[key] = summary.get(key, 0) + 1
        result["failure_summary"] = summary
        worst = {}
        for o in outs:
            for k, v in o.get("ratios", {}).items():
                worst[k] = max(worst.get(k, 0.0), v)
        # worst observed (measured value)/(contract bound) per inequality clause over ALL evaluations; > 1 means violated
        result["worst_ratio"] = {k: (float("%.3e" % v) if v != float("inf") else "inf") for k, v in sorted(worst.items())}
        slow = sorted(outs, key=lambda o: -o["wall_s"])[:3]
        result["slowest"] = [{"id": o["id"], "wall_s": round(o["wall_s"], 2)} for o in slow]
    except BaseException as exc:  # the harness must not crash
        result["failures"].append({"name": "rmode.%s.harness_error" % ns.prop,
                                   "message": _short("%s: %s | %s" % (type(exc).__name__, exc, traceback.format_exc()), 1500),
                                   "driver": "rmode", "args": {"prop": ns.prop, "tier": ns.tier, "seed": ns.seed}})
    result["wall_s"] = round(time.time() - t0, 3)
    sys.stdout.flush()
    print("RMODE-RESULT " + json.dumps(result))
    sys.stdout.flush()
    return 0


if __name__ == "__main__":
    sys.exit(main())
