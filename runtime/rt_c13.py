"""
C13  elementwise division: x / y, scalar / y, elementwise_divide(x, y, ...) give q with q*y == x within the
solver tolerance (relative Frobenius norm) when all entries of y are bounded away from zero; dividing by
a scalar is exact and leaves x alone.
"""
import icontract
import numpy as np
import torch
import torchtt

from rt_common import (case_id, clause, contract, dense, dense_longdouble, dtype_of, fro, frozen, rand_tt, scale_tag, scale_tt,
                       seed_all, shape_of, snapshot_tt, unchanged, unchanged_named, within)

C = 100.0
TOL_FLOOR = 1e-8       # tolerance used for the `/` operators (library-internal eps is 1e-12)
EXACT = 4 * 2.220446049250313e-16   # "exact": 4*eps(float64), relative; the oracle is evaluated in extended precision


def _bounded_away(y, lo=0.5):
    return float(torch.min(torch.abs(dense(y)))) >= lo


def _quotient(result, xd, y, tol):
    qd = dense(result)
    yd = dense(y)
    if qd.numel() != yd.numel():
        return False, "quotient has %d entries, operands have %d" % (qd.numel(), yd.numel())
    err = fro(qd.reshape(-1) * yd.reshape(-1) - xd.reshape(-1))
    nx = fro(xd)
    return within(err, C * tol * nx, "||q*y - x|| (C=%g, tol=%g, ||x||=%.3e, rel.err=%.3e, ranks of q %s)" % (
        C, tol, nx, err / nx if nx else float("nan"), list(result.R)))


def _shape(result, y):
    return ((not result.is_ttm) and shape_of(result) == list(y.N),
            "expected TT tensor of shape %s, got %s" % (list(y.N), shape_of(result)))


def _is_tt(result):
    return isinstance(result, torchtt.TT), "result is %s" % type(result).__name__


def _finite(result):
    return all(bool(torch.isfinite(c).all()) for c in result.cores), "quotient contains NaN/Inf"


@contract
@icontract.snapshot(lambda x: snapshot_tt(x), name="x")
@icontract.snapshot(lambda y: snapshot_tt(y), name="y")
@clause("operands_unchanged", lambda OLD, x, y: unchanged_named([("x", OLD.x, x), ("y", OLD.y, y)]))
@clause("quotient", lambda result, OLD: _quotient(result, dense(frozen(OLD.x)), frozen(OLD.y), TOL_FLOOR))
@clause("finite", lambda result: _finite(result))
@clause("shape", lambda result, y: _shape(result, y))
@clause("is_tt", lambda result: _is_tt(result))
@icontract.require(lambda y: _bounded_away(y), "all entries of y bounded away from zero")
@icontract.require(lambda x, y: x.N == y.N and not x.is_ttm and not y.is_ttm)
def tt_div_tt(x, y):
    return x / y


@contract
@icontract.snapshot(lambda y: snapshot_tt(y), name="y")
@clause("operands_unchanged", lambda OLD, y: unchanged_named([("y", OLD.y, y)]))
@clause("quotient", lambda result, s, OLD: _quotient(
    result, float(s) * torch.ones_like(dense(frozen(OLD.y))), frozen(OLD.y), TOL_FLOOR))
@clause("finite", lambda result: _finite(result))
@clause("shape", lambda result, y: _shape(result, y))
@clause("is_tt", lambda result: _is_tt(result))
@icontract.require(lambda y: _bounded_away(y), "all entries of y bounded away from zero")
def scalar_div_tt(s, y):
    return s / y


@contract
@icontract.snapshot(lambda starting_tensor: snapshot_tt(starting_tensor), name="guess")
@icontract.snapshot(lambda x: snapshot_tt(x), name="x")
@icontract.snapshot(lambda y: snapshot_tt(y), name="y")
@clause("guess_unchanged", lambda OLD, starting_tensor, x, y: unchanged_named(
    [("starting_tensor (initial guess)", OLD.guess, starting_tensor), ("x", OLD.x, x), ("y", OLD.y, y)]))
@clause("quotient", lambda result, OLD, eps: _quotient(result, dense(frozen(OLD.x)), frozen(OLD.y), eps))
@clause("finite", lambda result: _finite(result))
@clause("shape", lambda result, y: _shape(result, y))
@clause("is_tt", lambda result: _is_tt(result))
@icontract.require(lambda y: _bounded_away(y), "all entries of y bounded away from zero")
@icontract.require(lambda x, y: x.N == y.N and not x.is_ttm and not y.is_ttm)
def elementwise_divide(x, y, eps, starting_tensor, preconditioner):
    return torchtt.elementwise_divide(x, y, eps=eps, starting_tensor=starting_tensor,
                                      preconditioner=preconditioner, verbose=False)


def _exact_scalar(result, x_old, s):
    """||dense(x/s) - dense(x)/float64(s)|| <= 4*eps64*||x/s||; both dense arrays are contracted from the cores in numpy long
    double and the reference divides by the scalar converted to float64 (float(s)), so the only error that is measured is
    the library's.  (dense(x)/float(s) in float64 differs from this reference by < 1 ulp per entry.)"""
    if result.cores[0].dtype != x_old["cores"][0].dtype:
        return False, "dtype of the quotient is %s, dtype of x is %s" % (result.cores[0].dtype, x_old["cores"][0].dtype)
    expected = dense_longdouble(x_old["cores"]) / np.longdouble(float(s))
    got = dense_longdouble(result.cores)
    if got.shape != expected.shape:
        return False, "result has %d entries, expected %d" % (got.size, expected.size)
    err = float(np.linalg.norm(got - expected))
    n = float(np.linalg.norm(expected))
    return within(err, EXACT * n, "||x/s - dense(x)/float64(s)|| (s=%r, ||x/s||=%.3e, rel.err=%.3e = %.2f eps64)" % (
        s, n, err / n if n else 0.0, (err / n / 2.220446049250313e-16) if n else 0.0))


@contract
@icontract.snapshot(lambda x: snapshot_tt(x), name="x")
@clause("x_modified", lambda OLD, x: unchanged(OLD.x, x))
@clause("aliasing", lambda result, x: (
    all(rc is not xc for rc, xc in zip(result.cores[:1], x.cores[:1])), "result shares its first core object with x"))
@clause("exact", lambda result, OLD, s: _exact_scalar(result, OLD.x, s))
@clause("shape", lambda result, x: (shape_of(result) == shape_of(x) and result.is_ttm == x.is_ttm,
                                    "expected shape %s, got %s" % (shape_of(x), shape_of(result))))
@clause("is_tt", lambda result: _is_tt(result))
@icontract.require(lambda s: float(s) != 0.0)
def tt_div_scalar(x, s):
    return x / s


# ---------------------------------------------------------------------------------- cases

def make_y(N, rz, dt):
    """y = 1 + z*z  (all entries >= 1), TT ranks <= rz^2 + 1."""
    z = rand_tt(torchtt, N, rz, dt)
    y = (torchtt.ones(N, dtype=dt) + z * z).round(1e-13)
    return y


def make_scalar(kind, value):
    if kind == "float":
        return float(value)
    if kind == "int":
        return int(value)
    if kind == "np.float64":
        return np.float64(value)
    if kind == "torch0d":
        return torch.tensor(float(value), dtype=torch.float64)
    if kind == "torch1":
        return torch.tensor([float(value)], dtype=torch.float64)
    # round 3: scalars whose own precision is lower than float64 / integer scalars (reference divides by float(scalar))
    if kind == "np.float32":
        return np.float32(value)
    if kind == "np.float16":
        return np.float16(value)
    if kind == "torch0d_f32":
        return torch.tensor(float(value), dtype=torch.float32)
    if kind == "torch1_f32":
        return torch.tensor([float(value)], dtype=torch.float32)
    if kind == "torch0d_i64":
        return torch.tensor(int(value), dtype=torch.int64)
    if kind == "torch1_i64":
        return torch.tensor([int(value)], dtype=torch.int64)
    if kind == "torch0d_i32":
        return torch.tensor(int(value), dtype=torch.int32)
    if kind == "np.int32":
        return np.int32(value)
    if kind == "np.int64":
        return np.int64(value)
    raise ValueError(kind)


def run_case(a, check):
    dt = dtype_of(a.get("dtype", "float64"))
    N = list(a["N"])
    seed_all(a["seed"])
    op = a["op"]
    if op == "tt_div_scalar":
        shape = [tuple(s) for s in a["N"]] if a.get("ttm") else N
        x = scale_tt(torchtt, rand_tt(torchtt, shape, a["rx"], dt), a.get("s_x"))
        s = make_scalar(a["skind"], a["s"])
        check(None, lambda: tt_div_scalar(x, s))
        return
    y = make_y(N, a["rz"], dt)
    if op == "tt_div_tt":
        x = scale_tt(torchtt, rand_tt(torchtt, N, a["rx"], dt), a.get("s_x"))   # round 2: numerator norm far from 1
        seed_all(a["seed"] + 7919)
        check(None, lambda: tt_div_tt(x, y))
    elif op == "scalar_div_tt":
        s = make_scalar(a["skind"], a["s"])
        seed_all(a["seed"] + 7919)
        check(None, lambda: scalar_div_tt(s, y))
    elif op == "elementwise_divide":
        x = scale_tt(torchtt, rand_tt(torchtt, N, a["rx"], dt), a.get("s_x"))
        if a["guess"] == "x":
            g = x                       # round 3: the numerator object itself is the starting tensor
        elif a["guess"] == "y":
            g = y                       # ... or the denominator object
        else:
            g = None if a["guess"] is None else torchtt.random(N, a["guess"], dtype=dt)
        seed_all(a["seed"] + 7919)
        check(None, lambda: elementwise_divide(x, y, a["eps"], g, a["prec"]))
    else:
        raise ValueError("unknown op %r" % op)


def _mk(op, N, seed, **kw):
    a = {"op": op, "N": [list(n) if isinstance(n, tuple) else n for n in N], "seed": seed, "dtype": "float64"}
    a.update(kw)
    parts = [op, "N=%s" % str(a["N"]).replace(" ", "")]
    for k in ("rx", "rz", "eps", "guess", "prec", "skind", "s"):
        if k in kw:
            v = kw[k]
            parts.append("%s=%s" % (k, ("%g" % v) if isinstance(v, float) else v))
    parts.append("seed=%d" % seed)
    if kw.get("s_x"):
        parts.append("x:" + scale_tag(kw["s_x"]))
    a["id"] = ".".join(parts)
    return a


def scaled_cases(tier, seed):
    """Round 2 family: numerators whose norm is 1e-6 / 1e6 (and wildly different core scales); relative contract unchanged."""
    quick = tier == "quick"
    cases = []
    specs = [{"mode": "one", "factor": 1e-6, "core": 0}, {"mode": "one", "factor": 1e6, "core": -1},
             {"mode": "spread", "factor": 1e-6}, {"mode": "spread", "factor": 1e6}, {"mode": "alt", "p": 3}]
    if not quick:
        specs += [{"mode": "one", "factor": 1e6, "core": 0}, {"mode": "one", "factor": 1e-6, "core": -1},
                  {"mode": "alt", "p": -3}, {"mode": "spread", "factor": -1e3}]
    shapes = [[2, 3], [5, 4], [3, 4, 2], [3, 1, 4], [5, 5, 5]] if quick else [[2, 3], [5, 4], [1, 4], [3, 4, 2], [3, 1, 4], [5, 5, 5],
                                                                          [2, 3, 2, 3], [2, 2, 3, 2, 2]]
    seeds = [seed] if quick else [seed, 1]
    for N in shapes:
        for spec in specs:
            for rx in ([2] if quick else [1, 3]):
                for rz in ([1, 2] if quick else [1, 2]):
                    for s in seeds:
                        cases.append(_mk("tt_div_tt", N, s, rx=rx, rz=rz, s_x=spec))
                        for eps in ([1e-4, 1e-8] if quick else [1e-3, 1e-6, 1e-8, 1e-10]):
                            for g in (None, 2):
                                for p in ((None,) if quick and g else (None, "c")):
                                    cases.append(_mk("elementwise_divide", N, s, rx=rx, rz=rz, eps=eps, guess=g, prec=p, s_x=spec))
        for rz in (1, 2):
            for (skind, val) in [("float", 1e-6), ("float", -1e6), ("torch1", 1e6), ("float", 1e3)]:
                for s in seeds:
                    cases.append(_mk("scalar_div_tt", N, s, rz=rz, skind=skind, s=val))
    for N in [[2, 3], [3, 1, 4], [(2, 2), (3, 2)]]:
        ttm = isinstance(N[0], tuple)
        for spec in specs:
            for (skind, val) in [("float", 1e-6), ("float", 1e6), ("int", 3)]:
                kw = dict(rx=2, skind=skind, s=val, s_x=spec)
                if ttm:
                    kw["ttm"] = True
                cases.append(_mk("tt_div_scalar", N, seed, **kw))
    return cases


def enumerate_cases(tier, seed):
    quick = tier == "quick"
    cases = []
    if quick:
        shapes = [[2, 3], [5, 4], [1, 4], [10, 3], [3, 4, 2], [3, 1, 4], [5, 5, 5], [10, 10, 10], [2, 3, 2, 3]]
        rxs, rzs = [1, 2], [1, 2]
        seeds = [seed, 1] if seed != 1 else [1, 2]
        eps_list = [1e-4, 1e-6, 1e-8]
        guesses = [None, 2]
        precs = [None, "c"]
    else:
        shapes = [[2, 3], [5, 4], [1, 4], [10, 3], [7, 1], [3, 4, 2], [3, 1, 4], [5, 5, 5], [10, 2, 6], [2, 3, 2, 3],
                  [4, 1, 1, 4], [6, 5, 4, 3], [2, 2, 3, 2, 2], [3, 3, 3, 3, 3]]
        rxs, rzs = [1, 2, 4], [1, 2]
        seeds = sorted(set([seed, 1, 2]))
        eps_list = [1e-3, 1e-6, 1e-8, 1e-10]
        guesses = [None, 1, 3]
        precs = [None, "c"]
    for N in shapes:
        for rx in rxs:
            for rz in rzs:
                for s in seeds:
                    cases.append(_mk("tt_div_tt", N, s, rx=rx, rz=rz))
                    for eps in eps_list:
                        for g in guesses:
                            for p in precs:
                                cases.append(_mk("elementwise_divide", N, s, rx=rx, rz=rz, eps=eps, guess=g, prec=p))
        for rz in rzs:
            for (skind, val) in [("float", 1.0), ("float", -2.5), ("int", 3), ("torch1", 0.75)]:
                for s in seeds:
                    cases.append(_mk("scalar_div_tt", N, s, rz=rz, skind=skind, s=val))
    # dividing by a scalar: TT tensors and TT matrices, orders 1..4
    for N in [[4], [2, 3], [3, 1, 4], [2, 3, 2, 3]]:
        for (skind, val) in [("float", 2.5), ("int", 3), ("np.float64", -0.3), ("torch0d", 7.0), ("torch1", 2.5)]:
            for s in seeds:
                cases.append(_mk("tt_div_scalar", N, s, rx=2, skind=skind, s=val))
    for N in [[(2, 3)], [(2, 2), (3, 2)], [(2, 1), (1, 3), (2, 2)]]:
        for (skind, val) in [("float", 2.5), ("int", 3)]:
            for s in seeds:
                cases.append(_mk("tt_div_scalar", N, s, rx=2, skind=skind, s=val, ttm=True))
    cases += scaled_cases(tier, seed)
    cases += round3_cases(tier, seed)
    return cases


def round3_cases(tier, seed):
    """Round 3: (a) starting_tensor IS the numerator / denominator object; (b) x / c for scalars c of lower precision than
    float64 (np.float32, float32 0-d / 1-element tensors, np.float16) and integer scalars (int64 / int32 tensors, np.int32,
    np.int64) with values that are not powers of two."""
    quick = tier == "quick"
    cases = []
    shapes = [[2, 3], [5, 4], [3, 4, 2], [3, 1, 4]] if quick else [[2, 3], [5, 4], [1, 4], [3, 4, 2], [3, 1, 4], [5, 5, 5], [2, 3, 2, 3]]
    seeds = [seed] if quick else [seed, 1]
    for N in shapes:
        for which in ("x", "y"):
            for eps in ([1e-4, 1e-8] if quick else [1e-3, 1e-6, 1e-8, 1e-10]):
                for p in (None, "c"):
                    for rz in (1, 2):
                        for s in seeds:
                            cases.append(_mk("elementwise_divide", N, s, rx=2, rz=rz, eps=eps, guess=which, prec=p))
    float_kinds = ["np.float32", "torch0d_f32", "torch1_f32"] + ([] if quick else ["np.float16"])
    int_kinds = ["torch0d_i64", "np.int32"] + ([] if quick else ["torch1_i64", "torch0d_i32", "np.int64"])
    sc_shapes = [[4], [2, 3], [3, 1, 4], [(2, 2), (3, 2)]] if quick else [[4], [2, 3], [3, 1, 4], [2, 3, 2, 3], [(2, 3)],
                                                                          [(2, 2), (3, 2)], [(2, 1), (1, 3), (2, 2)]]
    for N in sc_shapes:
        ttm = isinstance(N[0], tuple)
        for s in seeds:
            todo = [(k, v) for k in float_kinds for v in (3.0, 7.0, 0.3, 1e-3)] + [(k, v) for k in int_kinds for v in (3, 7)]
            for (skind, val) in todo:
                kw = dict(rx=2, skind=skind, s=val)
                if ttm:
                    kw["ttm"] = True
                cases.append(_mk("tt_div_scalar", N, s, **kw))
    return cases


def bound(tier, seed):
    if tier == "quick":
        return ("C13 quick: y = round(ones + z*z, 1e-13) with z random TT of rank rz in {1,2} (all entries of y >= 1, checked "
                "at run time: min|y| >= 0.5), x random TT of rank rx in {1,2}; shapes {[2,3],[5,4],[1,4],[10,3],[3,4,2],"
                "[3,1,4],[5,5,5],[10,10,10],[2,3,2,3]}; ops: x / y (tol 1e-8), s / y for s in {1.0, -2.5, int 3, torch.tensor([0.75])} "
                "(tol 1e-8), torchtt.elementwise_divide(x,y,eps,starting_tensor,preconditioner) with eps in {1e-4,1e-6,1e-8} x "
                "starting_tensor in {None, torchtt.random rank 2} x preconditioner in {None,'c'} (tol = eps); seeds {%d,1}; "
                "float64. Contract: q is a finite TT tensor of the same shape and ||dense(q)*dense(y) - dense(x)|| <= "
                "100*tol*||x||; starting_tensor unchanged. x / s for s in {2.5, int 3, np.float64(-0.3), 0-d tensor 7.0, "
                "1-element tensor 2.5} on TT tensors {[4],[2,3],[3,1,4],[2,3,2,3]} and TT matrices {[(2,3)],[(2,2),(3,2)],"
                "[(2,1),(1,3),(2,2)]}: ||dense(x/s) - dense(x)/s|| <= 1e-14*||x/s||, x bit-for-bit unchanged, result does not "
                "alias x's first core. ROUND-2 FAMILY (numerators far from norm 1): shapes {[2,3],[5,4],[3,4,2],[3,1,4],[5,5,5]}, x "
                "of rank 2 rescaled by {first core x1e-6, last core x1e6, 1e-6 spread, 1e6 spread, core k x10**(3(-1)**k)}, rz in "
                "{1,2}: x / y, elementwise_divide (eps {1e-4,1e-8}, guess {None, rank 2}, preconditioner {None,'c'}), s / y for s in "
                "{1e-6,-1e6,torch.tensor([1e6]),1e3}, and x / s for s in {1e-6,1e6,3} on rescaled x ([2,3],[3,1,4],[(2,2),(3,2)]); "
                "same relative contracts. ROUND 3: elementwise_divide has clause guess_unchanged (starting_tensor, x and y bit-for-bit as "
                "before the call) and all quotient oracles use snapshots taken before the call; x / y and s / y have clause "
                "operands_unchanged; extra cases with starting_tensor = the numerator object x and = the denominator object y "
                "(shapes {[2,3],[5,4],[3,4,2],[3,1,4]}, eps {1e-4,1e-8}, prec {None,'c'}, rz {1,2}); x / c for c in {np.float32, "
                "torch.tensor(c,float32), torch.tensor([c],float32)} x {3,7,0.3,1e-3} and {torch.tensor(c) int64, np.int32} x {3,7} "
                "on {[4],[2,3],[3,1,4],[(2,2),(3,2)]}. The exactness clause of x / c (all scalar kinds) is now "
                "||dense(x/c) - dense(x)/float(c)|| <= 4*eps64*||x/c|| with both sides contracted in numpy long double, and the "
                "quotient must keep the dtype of x." % seed)
    return ("C13 thorough: as quick with 14 shapes of order 2..5 (sizes 1..10), rx in {1,2,4}, rz in {1,2}, eps in "
            "{1e-3,1e-6,1e-8,1e-10} (tol = eps exactly), starting_tensor in {None, rank 1, rank 3}, seeds {%d,1,2}." % seed)
