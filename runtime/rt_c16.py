"""
C16  riemannian_projection(x, .) is linear, idempotent, self-adjoint, fixes x, makes z - P(z) orthogonal to the
range of P, returns ranks <= 2*ranks(x); riemannian_gradient(x, f) == P(dense Euclidean gradient of f at x).
Real TT tensors and TT matrices x with minimal ranks.
"""
import icontract
import torch
import torchtt

from rt_common import (case_id, clause, contract, dense, fro, inner, norm_shape, is_op_shape, rand_tt, scale_tag, scale_tt,
                       seed_all, shape_of, snapshot_tt, unchanged, within)

TOL = 1e-9
P = lambda x, z: torchtt.manifold.riemannian_projection(x, z)   # noqa: E731  (the raw library function)


def _rank_bound(result, x):
    ok = len(result.R) == len(x.R) and all(r <= 2 * rx for r, rx in zip(result.R, x.R))
    return ok, "ranks of the result %s exceed 2 * ranks of x %s" % (list(result.R), list(x.R))


def _same_shape(result, x):
    return (shape_of(result) == shape_of(x) and result.is_ttm == x.is_ttm,
            "expected shape %s, got %s" % (shape_of(x), shape_of(result)))


def _tt_from_dense(full, x):
    """TT object (tensor or matrix, same shape as x) holding the dense array `full`."""
    if x.is_ttm:
        return torchtt.TT(full, [(m, n) for m, n in zip(x.M, x.N)], eps=1e-14)
    if len(x.N) == 1:
        return torchtt.TT(full)
    return torchtt.TT(full, list(x.N), eps=1e-14)


def _minimal_ranks(x):
    """TT ranks of x equal the ranks of the unfoldings of its dense value (x lies on the fixed-rank manifold)."""
    xd = dense(x)
    d = len(x.N)
    if x.is_ttm:
        perm = [i for k in range(d) for i in (k, d + k)]
        xd = xd.permute(perm).reshape([m * n for m, n in zip(x.M, x.N)])
    sizes = list(xd.shape)
    for k in range(1, d):
        mat = xd.reshape(int(torch.tensor(sizes[:k]).prod()), -1)
        s = torch.linalg.svdvals(mat)
        if int((s > 1e-10 * s[0]).sum()) != x.R[k]:
            return False
    return True


# ---------------------------------------------------------------------------------- contracts

@contract
@icontract.snapshot(lambda x: snapshot_tt(x), name="x")
@icontract.snapshot(lambda z: snapshot_tt(z), name="z")
@clause("z_modified", lambda OLD, z: unchanged(OLD.z, z))
@clause("x_modified", lambda OLD, x: unchanged(OLD.x, x))
@clause("residual_orthogonal_self", lambda result, z: within(
    abs(inner(dense(z) - dense(result), dense(result))), TOL * fro(dense(z)) ** 2,
    "|<z - Pz, Pz>| (||z||^2=%.3e)" % fro(dense(z)) ** 2))
@clause("idempotent", lambda result, x: within(
    fro(dense(P(x, result)) - dense(result)), TOL * max(fro(dense(result)), 1e-300),
    "||P(Pz) - Pz|| (||Pz||=%.3e)" % fro(dense(result))))
@clause("rank_bound", lambda result, x: _rank_bound(result, x))
@clause("shape", lambda result, x: _same_shape(result, x))
@clause("is_tt", lambda result: (isinstance(result, torchtt.TT), "result is %s" % type(result).__name__))
@icontract.require(lambda x: _minimal_ranks(x), "x has minimal ranks")
@icontract.require(lambda x, z: x.is_ttm == z.is_ttm and shape_of(x) == shape_of(z))
def projection(x, z):
    return torchtt.manifold.riemannian_projection(x, z)


@contract
@icontract.snapshot(lambda x: snapshot_tt(x), name="x")
@clause("x_modified", lambda OLD, x: unchanged(OLD.x, x))
@clause("fixes_x", lambda result, x: within(
    fro(dense(result) - dense(x)), TOL * fro(dense(x)), "||P(x) - x|| (||x||=%.3e)" % fro(dense(x))))
@clause("rank_bound", lambda result, x: _rank_bound(result, x))
@clause("shape", lambda result, x: _same_shape(result, x))
@icontract.require(lambda x: _minimal_ranks(x), "x has minimal ranks")
def projection_of_base_point(x):
    return torchtt.manifold.riemannian_projection(x, x)


def _lin(result, z, w, alpha, beta):
    Pz, Pw, Pc = [dense(t) for t in result]
    scale = abs(alpha) * fro(dense(z)) + abs(beta) * fro(dense(w))
    return within(fro(Pc - (alpha * Pz + beta * Pw)), TOL * scale,
                  "||P(a z + b w) - a P(z) - b P(w)|| (a=%g, b=%g, |a|*||z||+|b|*||w||=%.3e)" % (alpha, beta, scale))


def _selfadj(result, z, w):
    Pz, Pw, _ = [dense(t) for t in result]
    zd, wd = dense(z), dense(w)
    return within(abs(inner(Pz, wd) - inner(zd, Pw)), TOL * fro(zd) * fro(wd),
                  "|<Pz,w> - <z,Pw>| (<Pz,w>=%.6e, <z,Pw>=%.6e, ||z||*||w||=%.3e)" % (
                      inner(Pz, wd), inner(zd, Pw), fro(zd) * fro(wd)))


def _resorth(result, z, w):
    Pz, Pw, _ = [dense(t) for t in result]
    zd, wd = dense(z), dense(w)
    return within(abs(inner(zd - Pz, Pw)), TOL * fro(zd) * fro(wd),
                  "|<z - Pz, Pw>| (||z||*||w||=%.3e)" % (fro(zd) * fro(wd)))


@contract
@icontract.snapshot(lambda x: snapshot_tt(x), name="x")
@clause("x_modified", lambda OLD, x: unchanged(OLD.x, x))
@clause("residual_orthogonal", lambda result, z, w: _resorth(result, z, w))
@clause("self_adjoint", lambda result, z, w: _selfadj(result, z, w))
@clause("linear", lambda result, z, w, alpha, beta: _lin(result, z, w, alpha, beta))
@icontract.require(lambda x: _minimal_ranks(x), "x has minimal ranks")
def projection_pair(x, z, w, alpha, beta):
    """returns (P z, P w, P(alpha z + beta w)); the combination is assembled densely and re-compressed (eps=1e-14)."""
    comb = _tt_from_dense(alpha * dense(z) + beta * dense(w), x)
    return (torchtt.manifold.riemannian_projection(x, z), torchtt.manifold.riemannian_projection(x, w),
            torchtt.manifold.riemannian_projection(x, comb))


# functions f: TT -> scalar (evaluated through X.full(), which is differentiable w.r.t. the cores)
def make_function(name, target, coeff):
    if name == "quadratic":
        return (lambda X: 0.5 * ((X.full() - target) ** 2).sum()), (lambda Xd: 0.5 * ((Xd - target) ** 2).sum())
    if name == "linear":
        return (lambda X: (coeff * X.full()).sum()), (lambda Xd: (coeff * Xd).sum())
    if name == "quartic":
        return (lambda X: ((X.full() ** 2).sum()) ** 2), (lambda Xd: ((Xd ** 2).sum()) ** 2)
    raise ValueError("unknown function %r" % name)


def _dense_gradient(x, f_dense):
    xd = dense(x).detach().clone().requires_grad_(True)
    val = f_dense(xd)
    val.backward()
    return xd.grad.detach()


def _gradient_clause(result, x, f_dense):
    g = _dense_gradient(x, f_dense)
    Pg = dense(P(x, _tt_from_dense(g, x)))
    ng = fro(g)
    return within(fro(dense(result) - Pg), TOL * max(ng, 1e-300),
                  "||riemannian_gradient - P(dense gradient)|| (||dense gradient||=%.3e, ||P(grad)||=%.3e)" % (ng, fro(Pg)))


@contract
@icontract.snapshot(lambda x: snapshot_tt(x), name="x")
@clause("x_modified", lambda OLD, x: unchanged(OLD.x, x))
@clause("x_requires_grad", lambda x: (not any(c.requires_grad for c in x.cores), "cores of x were switched to requires_grad"))
@clause("gradient", lambda result, x, f_dense: _gradient_clause(result, x, f_dense))
@clause("rank_bound", lambda result, x: _rank_bound(result, x))
@clause("shape", lambda result, x: _same_shape(result, x))
@clause("is_tt", lambda result: (isinstance(result, torchtt.TT), "result is %s" % type(result).__name__))
@icontract.require(lambda x: _minimal_ranks(x), "x has minimal ranks")
def riemannian_gradient(x, f_tt, f_dense):
    return torchtt.manifold.riemannian_gradient(x, f_tt)


# ---------------------------------------------------------------------------------- cases

def base_point(shape, R, dt=torch.float64):
    shape = norm_shape(shape)
    x = torchtt.randn(shape, list(R), dtype=dt)
    return x.round(1e-14)


def run_case(a, check):
    shape = norm_shape(a["shape"])
    seed_all(a["seed"])
    x = scale_tt(torchtt, base_point(shape, a["R"]), a.get("s_x"))       # round 2: base points far from norm 1
    op = a["op"]
    if op == "projection":
        z = scale_tt(torchtt, rand_tt(torchtt, shape, a["rz"], torch.float64), a.get("s_z"))
        w = scale_tt(torchtt, rand_tt(torchtt, shape, a["rw"], torch.float64), a.get("s_w"))
        check("P(z)", lambda: projection(x, z))
        check("P(x)", lambda: projection_of_base_point(x))
        check("pair", lambda: projection_pair(x, z, w, a["alpha"], a["beta"]))
    elif op == "gradient":
        xd = dense(x)
        target = torch.randn(xd.shape, dtype=torch.float64)
        coeff = torch.randn(xd.shape, dtype=torch.float64)
        f_tt, f_dense = make_function(a["f"], target, coeff)
        check(None, lambda: riemannian_gradient(x, f_tt, f_dense))
    else:
        raise ValueError("unknown op %r" % op)


def _mk(op, shape, R, seed, **kw):
    shape = [list(s) if isinstance(s, tuple) else s for s in shape]
    a = {"op": op, "shape": shape, "R": list(R), "seed": seed}
    a.update(kw)
    extra = ["%s=%s" % (k, ("%g" % v) if isinstance(v, float) else v) for k, v in sorted(kw.items())
             if k not in ("s_x", "s_z", "s_w")]
    extra += ["%s:%s" % (k[2:], scale_tag(kw[k])) for k in ("s_x", "s_z", "s_w") if kw.get(k)]
    a["id"] = case_id(op, "ttm" if is_op_shape(shape) else "tt", "N=%s" % str(shape).replace(" ", ""),
                      "R=%s" % str(list(R)).replace(" ", ""), *extra, "seed=%d" % seed)
    return a


QUICK_BASE = [
    ([3, 4], [1, 2, 1]), ([5, 5], [1, 1, 1]), ([4, 3], [1, 3, 1]),
    ([3, 4, 3], [1, 2, 2, 1]), ([4, 5, 6], [1, 3, 4, 1]), ([2, 2, 2], [1, 2, 2, 1]), ([3, 4, 5], [1, 1, 3, 1]),
    ([3, 3, 3, 3], [1, 2, 3, 2, 1]), ([2, 3, 4, 2], [1, 2, 4, 2, 1]),
    ([2, 3, 2, 3, 2], [1, 2, 3, 3, 2, 1]),
    ([(2, 3), (3, 2)], [1, 3, 1]), ([(2, 2), (3, 3), (2, 2)], [1, 2, 3, 1]), ([(3, 2), (2, 3), (2, 2)], [1, 4, 2, 1]),
    ([(2, 2), (2, 2), (2, 2), (2, 2)], [1, 2, 3, 2, 1]),
]
THOROUGH_BASE = QUICK_BASE + [
    ([6, 7], [1, 5, 1]), ([2, 9], [1, 2, 1]), ([7, 3, 5], [1, 3, 5, 1]), ([4, 4, 4, 4], [1, 4, 8, 4, 1]),
    ([3, 2, 4, 2, 3], [1, 3, 4, 4, 3, 1]), ([3, 3, 3, 3, 3], [1, 1, 2, 1, 2, 1]), ([2, 2, 2, 2, 2], [1, 2, 4, 4, 2, 1]),
    ([(4, 4), (4, 4)], [1, 7, 1]), ([(2, 3), (3, 2), (2, 3), (3, 2)], [1, 3, 5, 3, 1]),
    ([(2, 2), (2, 2), (2, 2), (2, 2), (2, 2)], [1, 2, 3, 3, 2, 1]), ([(1, 3), (3, 1), (2, 2)], [1, 2, 2, 1]),
]


def enumerate_cases(tier, seed):
    quick = tier == "quick"
    base = QUICK_BASE if quick else THOROUGH_BASE
    seeds = ([seed, 1] if seed != 1 else [1, 2]) if quick else sorted(set([seed, 1, 2, 3]))
    zw = [(1, 5), (3, 2)] if quick else [(1, 5), (3, 2), (6, 6), (2, 1)]
    ab = [(1.0, 1.0), (-2.5, 0.75)] if quick else [(1.0, 1.0), (-2.5, 0.75), (0.0, 3.0), (1e3, -1e-3)]
    cases = []
    for shape, R in base:
        for s in seeds:
            for (rz, rw) in zw:
                for (al, be) in ab:
                    cases.append(_mk("projection", shape, R, s, rz=rz, rw=rw, alpha=al, beta=be))
            for f in ("quadratic", "linear", "quartic"):
                cases.append(_mk("gradient", shape, R, s, f=f))
    cases += scaled_cases(tier, seed)
    return cases


def scaled_cases(tier, seed):
    """Round 2 family: base points and directions scaled by 1e-4 / 1e4 (one core, spread, alternating per core)."""
    quick = tier == "quick"
    one = lambda f, k: {"mode": "one", "factor": f, "core": k}    # noqa: E731
    spread = lambda f: {"mode": "spread", "factor": f}            # noqa: E731
    alt = lambda p: {"mode": "alt", "p": p}                       # noqa: E731
    combos = [(one(1e-4, 0), None, None), (one(1e4, -1), None, None), (spread(1e4), spread(1e-4), spread(1e4)),
              (spread(1e-4), spread(1e4), spread(1e4)), (alt(3), one(1e4, 0), one(1e-4, -1)), (None, spread(1e4), spread(1e-4)),
              (alt(-2), alt(2), alt(-2))]
    if not quick:
        combos += [(one(1e4, 0), one(1e-4, 0), None), (spread(-1e-4), None, spread(-1e4)), (one(1e-4, 1), alt(3), alt(3))]
    base = [QUICK_BASE[i] for i in (0, 3, 4, 7, 9, 10, 11, 13)] if quick else THOROUGH_BASE
    seeds = [seed] if quick else [seed, 1]
    cases = []
    for shape, R in base:
        for (sx, sz, sw) in combos:
            for s in seeds:
                kw = {k: v for k, v in (("s_x", sx), ("s_z", sz), ("s_w", sw)) if v}
                cases.append(_mk("projection", shape, R, s, rz=3, rw=2, alpha=-2.5, beta=0.75, **kw))
                if sx:
                    for f in ("quadratic", "linear", "quartic"):
                        cases.append(_mk("gradient", shape, R, s, f=f, s_x=sx))
    return cases


def bound(tier, seed):
    if tier == "quick":
        return ("C16 quick: base points x = torchtt.randn(shape,R).round(1e-14) (minimal ranks checked at run time by SVD of all "
                "unfoldings) for 10 TT-tensor (shape,R) pairs of order 2..5 {[3,4]/[1,2,1], [5,5]/[1,1,1], [4,3]/[1,3,1], "
                "[3,4,3]/[1,2,2,1], [4,5,6]/[1,3,4,1], [2,2,2]/[1,2,2,1], [3,4,5]/[1,1,3,1], [3,3,3,3]/[1,2,3,2,1], "
                "[2,3,4,2]/[1,2,4,2,1], [2,3,2,3,2]/[1,2,3,3,2,1]} and 4 TT-matrix pairs of order 2..4 {[(2,3),(3,2)]/[1,3,1], "
                "[(2,2),(3,3),(2,2)]/[1,2,3,1], [(3,2),(2,3),(2,2)]/[1,4,2,1], [(2,2)]*4/[1,2,3,2,1]}; z, w random TT of ranks "
                "(rz,rw) in {(1,5),(3,2)}; (alpha,beta) in {(1,1),(-2.5,0.75)}; f in {0.5||X-T||^2, <C,X>, (<X,X>)^2} with random "
                "dense T, C; seeds {%d,1}; float64. Contracts (relative tolerance 1e-9, dense inner products): "
                "P(az+bw)=aPz+bPw, P(Pz)=Pz, <Pz,w>=<z,Pw>, P(x)=x, <z-Pz,Pw>=0 and <z-Pz,Pz>=0, ranks(Pz)<=2*ranks(x), same "
                "shape, x and z bit-for-bit unchanged; riemannian_gradient(x,f) == P(TT(autograd gradient of f at dense x, "
                "eps=1e-14)), x unchanged and not left with requires_grad. ROUND-2 FAMILY: 8 of the base points (orders 2..5, tensors and "
                "operators) with (x, z, w) rescaled by {(first core x1e-4,-,-), (last core x1e4,-,-), (1e4 spread, 1e-4 spread, 1e4 "
                "spread), (1e-4 spread, 1e4 spread, 1e4 spread), (core k x10**(3(-1)**k), first core x1e4, last core x1e-4), "
                "(-, 1e4 spread, 1e-4 spread), (core k x10**(-+2(-1)**k) on all three)}; all identities and the three gradient "
                "functions at the rescaled base points; same relative tolerance 1e-9." % seed)
    return ("C16 thorough: as quick with 25 base points (orders 2..5, ranks up to 8, TT matrices up to order 5 incl. "
            "non-square modes), (rz,rw) in {(1,5),(3,2),(6,6),(2,1)}, (alpha,beta) in {(1,1),(-2.5,0.75),(0,3),(1e3,-1e-3)}, "
            "seeds {%d,1,2,3}." % seed)
