#!/usr/bin/env python
"""
Negative controls for the R-mode harness: every contract must FAIL on a library that is wrong in the way the
contract is meant to detect.  A scratch copy of <repo>/torchtt is made under a temporary directory, a mutation
hook (selected through the environment variable RT_MUT) is appended to its __init__.py, and rmode.py is run
against the copy with --repo.  Nothing under <repo> is modified.

    /verif/.venv312/bin/python /verif/runtime/selftest_rmode.py [--repo /repo]

prints one line per mutant and `SELFTEST-RESULT {json}`; exit status 0 iff every mutant was caught by the
expected clause.
"""
import argparse
import json
import os
import shutil
import subprocess
import sys
import tempfile

HERE = os.path.dirname(os.path.abspath(__file__))

HOOK = r'''

# ---- R-mode self-test mutation hook (scratch copy only) ----
import os as _os
_mut = _os.environ.get("RT_MUT", "")
if _mut:
    import sys as _sys
    _me = _sys.modules[__name__]

    def _scaled(t, f):
        c = [k.clone() for k in t.cores]
        c[0] = c[0] * f
        return TT(c)
    if _mut == "C10_sign":
        _o = permute
        _me.permute = lambda input, dims, eps=1e-12: _scaled(_o(input, dims, eps), -1.0)
    elif _mut == "C10_shape":
        _o = reshape
        _me.reshape = lambda tens, shape, eps=1e-16, rmax=2**62: _o(tens, list(shape)[::-1], eps, rmax)
    elif _mut == "C11_scale":
        _o = amen_mv
        _me.amen_mv = lambda A, b, **kw: _scaled(_o(A, b, **kw), 1.0 + 1e-3)
    elif _mut == "C12_scale":
        _o = solvers.amen_solve
        solvers.amen_solve = lambda A, b, **kw: _scaled(_o(A, b, **kw), 1.0 + 1e-1)
    elif _mut == "C13_scale":
        _o = elementwise_divide
        _me.elementwise_divide = lambda x, y, **kw: _scaled(_o(x, y, **kw), 1.0 + 1e-2)
    elif _mut == "C14_index":
        _o = interpolate.dmrg_cross
        interpolate.dmrg_cross = lambda function, N, **kw: _o(lambda I: function(I + 1), N, **kw)
    elif _mut == "C16_scale":
        _o = manifold.riemannian_projection
        manifold.riemannian_projection = lambda Xspace, z: _scaled(_o(Xspace, z), 1.0 + 1e-6)
    elif _mut == "C16_grad":
        _o = manifold.riemannian_gradient
        manifold.riemannian_gradient = lambda x, func: _scaled(_o(x, func), 1.0 + 1e-6)
'''

MUTANTS = [
    # (mutant, property, clause tags of which at least one must be reported)
    ("C10_sign", "C10", ["permute:value"]),
    ("C10_shape", "C10", ["reshape:shape"]),
    ("C11_scale", "C11", ["amen_mv:accuracy"]),
    ("C12_scale", "C12", ["amen_solve:residual"]),
    ("C13_scale", "C13", ["elementwise_divide:quotient"]),
    ("C14_index", "C14", ["dmrg_cross:wellformed_calls"]),
    ("C16_scale", "C16", ["projection:idempotent", "projection:fixes_x"]),
    ("C16_grad", "C16", ["gradient:gradient"]),
]

# source-level mutants (round 2): truncation thresholds computed from the wrong scale.
# (name, file, old text, new text, property, clause tags of which at least one must be reported)
SOURCE_MUTANTS = [
    # permute: absolute threshold instead of relative to the local norm of the singular values
    ("C10_permute_abs", "_extras.py", "rank_chop(S.numpy(), tn.linalg.norm(S).numpy()*eps)",
     "rank_chop(S.numpy(), 1.0*eps)", "C10", ["permute:value"]),
    # permute: threshold relative to the GLOBAL norm of the tensor (wrong for swaps away from position 0,
    # where the local super-core is orthonormal and the norm sits in core 0)
    ("C10_permute_global", "_extras.py", "rank_chop(S.numpy(), tn.linalg.norm(S).numpy()*eps)",
     "rank_chop(S.numpy(), tn.linalg.norm(cores[0]).numpy()*eps)", "C10", ["permute:value"]),
    # rounding (used by reshape): absolute threshold
    ("C10_round_abs", "_decomposition.py", "rank_chop(S.numpy(),tn.linalg.norm(S).numpy()*eps)",
     "rank_chop(S.numpy(),1.0*eps)", "C10", ["reshape:value"]),
    # TT-SVD (used by reshape splits and to_qtt): absolute threshold
    ("C10_ttsvd_abs", "_decomposition.py", "rank_chop(s.cpu().numpy(), ep*tn.linalg.norm(s).cpu().numpy())",
     "rank_chop(s.cpu().numpy(), ep*1.0)", "C10", ["to_qtt:value", "reshape:value"]),
    # DMRG products: absolute threshold
    ("C11_dmrg_abs", "_dmrg.py", "(b.cpu()*eps/(d**(0.5 if last else 1.5))).numpy()",
     "(0*b.cpu()+eps/(d**(0.5 if last else 1.5))).numpy()", "C11", ["fast_matvec:accuracy", "dmrg_hadamard:accuracy"]),
    # ---- round 3 ----
    # amen_solve sweeps directly over the core list of the user supplied x0
    ("C12_x0_alias", "solvers.py", "    x_cores = x.cores.copy()", "    x_cores = x.cores", "C12", ["amen_solve:guess_unchanged"]),
    # amen_divide (elementwise_divide) does the same with starting_tensor
    ("C13_guess_alias", "_division.py", "        x_cores = x.cores.copy()", "        x_cores = x.cores", "C13",
     ["elementwise_divide:guess_unchanged"]),
    # x / c computed as x * (1 / c): reciprocal formed in the scalar's own precision
    ("C13_reciprocal", "_tt_base.py", "cores_new[0] = cores_new[0] / other", "cores_new[0] = cores_new[0] * (1 / other)", "C13",
     ["tt_div_scalar:exact"]),
    # function_interpolate rounds the argument tensor(s) before sampling
    ("C14_round_args", "interpolate.py", "    device = None\n    \n    if not eval_mv and len(N)==1:",
     "    device = None\n    x = [t.round(eps) for t in x] if eval_mv else x.round(eps)\n    if not eval_mv and len(N)==1:", "C14",
     ["fi_uni:wellformed_calls", "fi_multi:wellformed_calls"]),
    # (aliasing `cores = start_tens.cores` / `cores = x_start.cores` in interpolate.py is an equivalent mutant: the very next
    #  statement re-orthogonalises into fresh lists, the user's object is never written - verified, 0 failures.)
    # AMEn products: absolute threshold.  INFORMATIONAL ONLY (not required to be caught): AMEn renormalises the local
    # core (normx / nrmsc), so in all but the very first sweep the local norm is O(1), absolute == relative up to a
    # factor <= 4, and the sweeps after the first one repair the early over-truncation: observationally equivalent mutant.
    ("C11_amen_abs_equivalent", "_amen.py", "(norm_solution.cpu()\n                              * eps / (d**(0.5 if last else 1.5))).numpy()",
     "(0*norm_solution.cpu()\n                              + eps / (d**(0.5 if last else 1.5))).numpy()", "C11",
     ["amen_mv:accuracy", "amen_mm:accuracy"]),
]


def main():
    ap = argparse.ArgumentParser()
    ap.add_argument("--repo", default="/repo")
    ap.add_argument("--only", default=None, help="comma separated substrings; run only the mutants whose name contains one")
    ns = ap.parse_args()
    tmp = tempfile.mkdtemp(prefix="rmode_selftest_", dir="/var/tmp" if os.path.isdir("/var/tmp") else None)
    results = []
    try:
        shutil.copytree(os.path.join(ns.repo, "torchtt"), os.path.join(tmp, "torchtt"),
                        ignore=shutil.ignore_patterns("__pycache__"))
        with open(os.path.join(tmp, "torchtt", "__init__.py"), "a") as fh:
            fh.write(HOOK)
        sel = (lambda name: True) if not ns.only else (lambda name: any(t in name for t in ns.only.split(",")))
        for mut, prop, tags in [m for m in MUTANTS if sel(m[0])]:
            env = dict(os.environ, RT_MUT=mut, PYTHONPATH=tmp)
            out = subprocess.run([sys.executable, os.path.join(HERE, "rmode.py"), prop, "--tier", "quick", "--seed", "0",
                                  "--repo", tmp], env=env, capture_output=True, text=True)
            lines = [l for l in out.stdout.splitlines() if l.startswith("RMODE-RESULT ")]
            caught, summary = False, {}
            if len(lines) == 1:
                summary = json.loads(lines[0][len("RMODE-RESULT "):]).get("failure_summary", {})
                caught = any(summary.get(t, 0) > 0 for t in tags)
            results.append({"mutant": mut, "prop": prop, "expected_any_of": tags, "caught": caught,
                            "hits": {t: summary.get(t, 0) for t in tags}})
            print("%-10s %-4s %s %s" % (mut, prop, "CAUGHT" if caught else "MISSED", results[-1]["hits"]))
        for mut, fname, old, new, prop, tags in [m for m in SOURCE_MUTANTS if sel(m[0])]:
            sub = os.path.join(tmp, "src_" + mut)
            shutil.copytree(os.path.join(ns.repo, "torchtt"), os.path.join(sub, "torchtt"),
                            ignore=shutil.ignore_patterns("__pycache__"))
            path = os.path.join(sub, "torchtt", fname)
            with open(path) as fh:
                text = fh.read()
            applied = text.count(old)
            with open(path, "w") as fh:
                fh.write(text.replace(old, new))
            env = dict(os.environ, PYTHONPATH=sub)
            env.pop("RT_MUT", None)
            out = subprocess.run([sys.executable, os.path.join(HERE, "rmode.py"), prop, "--tier", "quick", "--seed", "0",
                                  "--repo", sub], env=env, capture_output=True, text=True)
            lines = [l for l in out.stdout.splitlines() if l.startswith("RMODE-RESULT ")]
            caught, summary = False, {}
            if len(lines) == 1 and applied:
                summary = json.loads(lines[0][len("RMODE-RESULT "):]).get("failure_summary", {})
                caught = any(summary.get(t, 0) > 0 for t in tags)
            results.append({"mutant": mut, "prop": prop, "expected_any_of": tags, "caught": caught,
                            "sites_mutated": applied, "hits": {t: summary.get(t, 0) for t in tags},
                            "all_failed_clauses": summary})
            print("%-18s %-4s %s sites=%d %s" % (mut, prop, "CAUGHT" if caught else "MISSED", applied, results[-1]["hits"]))
    finally:
        shutil.rmtree(tmp, ignore_errors=True)
    ok = all(r["caught"] for r in results if not r["mutant"].endswith("_equivalent"))
    print("SELFTEST-RESULT " + json.dumps({"ok": ok, "mutants": results}))
    return 0 if ok else 1


if __name__ == "__main__":
    sys.exit(main())
