"""
Shared helpers of the R-mode (bounded run-time contract) harness.

* dense oracles that do NOT go through ``TT.full()`` / ``TT.norm()`` (those are themselves under
  verification in other properties); everything is recomputed from ``tt.cores`` with plain matmuls;
* a tiny layer on top of ``icontract`` so that *all* violated clauses of one contract evaluation are
  reported (icontract on its own stops at the first violated postcondition):

      @contract                      # outermost: raises ContractViolation listing every failed clause
      @clause("shape", lambda result, x: ...)          # -> icontract.ensure(...)
      @clause("accuracy", lambda result, x, eps: ...)  # -> icontract.ensure(...)
      @icontract.require(lambda x, eps: ...)
      def sidecar(x, eps): return library_function(x, eps)

  a clause returns ``True``/``False`` or ``(bool, "message with numbers")``.  An exception inside a
  clause (e.g. the result object is so malformed that it cannot be densified) is a failed clause too.
"""
import functools
import itertools
import math

import icontract
import numpy as np
import torch

DTYPES = {
    "float64": torch.float64,
    "float32": torch.float32,
    "complex128": torch.complex128,
}


def dtype_of(name):
    return DTYPES[name]


def is_complex(name):
    return name.startswith("complex")


# --------------------------------------------------------------------------------------------------
# dense oracles
# --------------------------------------------------------------------------------------------------

def dense(t):
    """Dense value of a TT tensor (shape N) or TT matrix (shape M1..Md x N1..Nd), from the cores only."""
    cores = t.cores
    if len(cores) == 0:
        raise ValueError("TT object without cores")
    is_ttm = cores[0].dim() == 4
    acc = None
    modes = []
    for c in cores:
        if c.dim() not in (3, 4):
            raise ValueError("core with %d dims" % c.dim())
        r0, r1 = c.shape[0], c.shape[-1]
        modes.append(tuple(c.shape[1:-1]))
        mat = c.reshape(r0, -1)
        if acc is None:
            if r0 != 1:
                raise ValueError("first rank is %d" % r0)
            acc = mat
        else:
            if acc.shape[-1] != r0:
                raise ValueError("rank mismatch between consecutive cores")
            acc = acc @ mat
        acc = acc.reshape(-1, r1)
    if acc.shape[-1] != 1:
        raise ValueError("last rank is %d" % acc.shape[-1])
    if is_ttm:
        d = len(modes)
        full = acc.reshape([s for mn in modes for s in mn])
        perm = [2 * i for i in range(d)] + [2 * i + 1 for i in range(d)]
        return full.permute(perm).contiguous()
    return acc.reshape([m[0] for m in modes]).contiguous()


def fro(a):
    return float(torch.linalg.norm(a.reshape(-1)))


def inner(a, b):
    """Real Euclidean inner product of two dense real arrays."""
    return float(torch.sum(a.reshape(-1) * b.reshape(-1)))


def as_matrix(A):
    """Dense TT-matrix (M1..Md x N1..Nd) as a (prod M) x (prod N) matrix."""
    Ad = dense(A)
    d = Ad.dim() // 2
    m = int(np.prod(Ad.shape[:d])) if d else 1
    return Ad.reshape(m, -1)


def shape_of(t):
    """Requested-shape view of a TT object: list of ints or list of (m, n) tuples."""
    if t.is_ttm:
        return [(int(m), int(n)) for m, n in zip(t.M, t.N)]
    return [int(n) for n in t.N]


def norm_shape(shape):
    """JSON round trip turns tuples into lists; normalise to list[int] / list[tuple]."""
    out = []
    for s in shape:
        if isinstance(s, (list, tuple)):
            out.append((int(s[0]), int(s[1])))
        else:
            out.append(int(s))
    return out


def is_op_shape(shape):
    return len(shape) > 0 and isinstance(shape[0], (list, tuple))


def snapshot_tt(t):
    """Deep, detached copy of what makes up a TT object (cores, ranks, shape) for OLD comparisons."""
    if t is None:
        return None
    return {
        "cores": [c.detach().clone() for c in t.cores],
        "R": list(t.R),
        "N": list(t.N),
        "M": list(t.M) if t.is_ttm else None,
        "n_cores": len(t.cores),
    }


def unchanged(old, t):
    """(ok, message) : the TT object `t` is bit-for-bit what `old` (from snapshot_tt) recorded."""
    if old is None:
        return True, ""
    if len(t.cores) != old["n_cores"]:
        return False, "number of cores changed %d -> %d" % (old["n_cores"], len(t.cores))
    shapes_old = [list(c.shape) for c in old["cores"]]
    shapes_new = [list(c.shape) for c in t.cores]
    if shapes_old != shapes_new:
        return False, "core shapes changed %s -> %s (recorded R %s -> cores now imply %s)" % (
            shapes_old, shapes_new, old["R"], [s[0] for s in shapes_new] + [shapes_new[-1][-1]])
    if list(t.R) != old["R"] or list(t.N) != old["N"]:
        return False, "R/N changed %s/%s -> %s/%s" % (old["R"], old["N"], list(t.R), list(t.N))
    worst = 0.0
    for a, b in zip(old["cores"], t.cores):
        if a.numel():
            worst = max(worst, float(torch.max(torch.abs(a - b.detach()))))
    if worst != 0.0:
        return False, "core entries changed, max abs difference %.3e" % worst
    return True, ""


# --------------------------------------------------------------------------------------------------
# contract layer on top of icontract
# --------------------------------------------------------------------------------------------------

class ContractViolation(icontract.ViolationError):
    """All failed clauses of one contract evaluation: list of (tag, message)."""

    def __init__(self, failed):
        self.failed = list(failed)
        super().__init__("; ".join("%s: %s" % (t, m) for t, m in self.failed))


class _Ledger:
    failed = []
    evaluations = 0
    ratios = {}     # inequality clause -> worst observed err/bound (1.0 = at the bound), passing or not


def _run_clause(tag, fn, kwargs):
    try:
        out = fn(**kwargs)
    except Exception as exc:  # malformed result etc.: the clause cannot even be evaluated
        _Ledger.failed.append((tag, "clause could not be evaluated: %s: %s" % (type(exc).__name__, _short(exc))))
        return True
    if isinstance(out, tuple):
        ok, msg = bool(out[0]), str(out[1])
    else:
        ok, msg = bool(out), "clause is false"
    if not ok:
        _Ledger.failed.append((tag, msg))
    return True  # never stop icontract here; the outermost `contract` clause reports everything


def clause(tag, fn):
    """One postcondition. `fn` takes any subset of the wrapped function's arguments + result + OLD."""
    import inspect
    params = list(inspect.signature(fn).parameters)

    # icontract resolves the condition's arguments by *name*; build a lambda with the same names.
    src = "lambda %s: _run(_tag, _fn, dict(%s))" % (
        ", ".join(params), ", ".join("%s=%s" % (p, p) for p in params))
    cond = eval(src, {"_run": _run_clause, "_tag": tag, "_fn": fn})
    return icontract.ensure(cond, "clause " + tag)


def contract(func):
    """Outermost decorator: after all clauses ran, raise ContractViolation if any of them failed."""
    checked = icontract.ensure(
        lambda: not _Ledger.failed, "all clauses hold",
        error=lambda: ContractViolation(_Ledger.failed))(func)

    @functools.wraps(func)
    def wrapper(*args, **kwargs):
        _Ledger.failed = []
        _Ledger.evaluations += 1
        return checked(*args, **kwargs)

    return wrapper


def evaluations():
    return _Ledger.evaluations


def reset_evaluations():
    _Ledger.evaluations = 0
    _Ledger.ratios = {}


def ratios():
    return dict(_Ledger.ratios)


def _short(exc, n=300):
    s = str(exc).replace("\n", " ")
    return s if len(s) <= n else s[:n] + "..."


def within(err, bound, what):
    """(ok, message) for an inequality err <= bound; NaN counts as a violation."""
    ok = (err <= bound) and not math.isnan(err)
    key = what.split(" (")[0]
    ratio = float("inf") if (math.isnan(err) or bound <= 0.0 and err > 0.0) else (err / bound if bound > 0.0 else 0.0)
    _Ledger.ratios[key] = max(_Ledger.ratios.get(key, 0.0), ratio)
    return ok, "%s = %.6e exceeds bound %.6e" % (what, err, bound)


# --------------------------------------------------------------------------------------------------
# enumeration helpers
# --------------------------------------------------------------------------------------------------

def ordered_factorisations(n, max_len=None):
    """All tuples of integers >= 2 with product n (order matters); () for n == 1."""
    if n == 1:
        return [()]
    out = []
    for f in range(2, n + 1):
        if n % f == 0:
            for rest in ordered_factorisations(n // f):
                out.append((f,) + rest)
    if max_len is not None:
        out = [o for o in out if len(o) <= max_len]
    return out


def with_singletons(shape, max_extra=1):
    """shape itself plus all variants with up to `max_extra` singleton modes inserted anywhere."""
    shape = tuple(shape)
    res = {shape} if len(shape) else set()
    frontier = {shape}
    for _ in range(max_extra):
        nxt = set()
        for s in frontier:
            for pos in range(len(s) + 1):
                nxt.add(s[:pos] + (1,) + s[pos:])
        res |= nxt
        frontier = nxt
    return sorted(res, key=lambda s: (len(s), s))


def all_permutations(d):
    return [list(p) for p in itertools.permutations(range(d))]


def seed_all(seed):
    torch.manual_seed(int(seed))
    np.random.seed(int(seed) % (2 ** 32))


def rand_tt(torchtt, shape, rank, dtype, scale_cores=True):
    """Random TT / TT-matrix with (maximal) rank `rank` (int or full list) and unit-order entries."""
    shape = norm_shape(shape)
    d = len(shape)
    if isinstance(rank, int):
        R = [1] + [rank] * (d - 1) + [1]
    else:
        R = list(rank)
    t = torchtt.random(shape, R, dtype=dtype)
    if scale_cores:
        # keep the dense entries O(1): divide every core by sqrt of its left rank
        cores = [c / math.sqrt(max(1, c.shape[0])) for c in t.cores]
        t = torchtt.TT(cores)
    return t


def case_id(*parts):
    out = []
    for p in parts:
        if isinstance(p, float):
            out.append("%g" % p)
        elif isinstance(p, (list, tuple)):
            out.append(str(p).replace(" ", ""))
        else:
            out.append(str(p))
    return ".".join(out)


# --------------------------------------------------------------------------------------------------
# operands far from norm 1 (round 2)
# --------------------------------------------------------------------------------------------------

def scale_tt(torchtt, t, spec):
    """
    Rescale a TT object through its cores.  spec is None or a dict:
      {"mode": "one",    "factor": f, "core": k}  core (k mod d) multiplied by f
      {"mode": "spread", "factor": f}             every core multiplied by |f|**(1/d) (sign on core 0)
      {"mode": "alt",    "p": p}                  core k multiplied by 10**((-1)**k * p)  (wildly different core scales)
    """
    if not spec:
        return t
    cores = [c.clone() for c in t.cores]
    d = len(cores)
    mode = spec["mode"]
    if mode == "one":
        k = int(spec.get("core", 0)) % d
        cores[k] = cores[k] * float(spec["factor"])
    elif mode == "spread":
        f = float(spec["factor"])
        g = abs(f) ** (1.0 / d)
        cores = [c * g for c in cores]
        if f < 0:
            cores[0] = -cores[0]
    elif mode == "alt":
        p = float(spec.get("p", 3))
        cores = [c * (10.0 ** (((-1) ** k) * p)) for k, c in enumerate(cores)]
    else:
        raise ValueError("unknown scale mode %r" % mode)
    return torchtt.TT(cores)


def scale_tag(spec):
    if not spec:
        return "scale=none"
    if spec["mode"] == "one":
        return "scale=one@%d*%g" % (int(spec.get("core", 0)), float(spec["factor"]))
    if spec["mode"] == "spread":
        return "scale=spread*%g" % float(spec["factor"])
    return "scale=alt^%g" % float(spec.get("p", 3))


def inflate_tt(torchtt, t):
    """The same dense value stored with doubled (redundant) TT ranks: x = x/2 + x/2 assembled block-wise by hand."""
    cores = t.cores
    d = len(cores)
    if d == 1:
        return t
    new = []
    for k, c in enumerate(cores):
        if k == 0:
            new.append(torch.cat((c, c), -1) * 0.5)
        elif k == d - 1:
            new.append(torch.cat((c, c), 0))
        else:
            z = torch.zeros_like(c)
            new.append(torch.cat((torch.cat((c, z), -1), torch.cat((z, c), -1)), 0))
    return torchtt.TT(new)


SCALES_ONE_CORE = [1e-6, 1e-3, 1e3, 1e6]


# --------------------------------------------------------------------------------------------------
# round 3: "the call did not modify its arguments" for several objects at once
# --------------------------------------------------------------------------------------------------

def unchanged_named(triples):
    """triples = [(label, snapshot_tt(obj) taken before the call, obj after the call)] -> (ok, message).
    Compares number of cores, core shapes, recorded R/N, and every core entry (bit for bit)."""
    bad = []
    for label, old, obj in triples:
        if old is None or obj is None:
            continue
        ok, msg = unchanged(old, obj)
        if not ok:
            bad.append("%s was modified by the call: %s" % (label, msg))
    return (not bad), "; ".join(bad)


class FrozenTT:
    """Read-only TT-like view on a snapshot_tt() record: the operand AS IT WAS BEFORE the call (cores, R, N, M, is_ttm).
    Oracles are computed from these views so that a call which overwrites one of its operands cannot pass trivially."""

    def __init__(self, snap):
        self.cores = snap["cores"]
        self.R = list(snap["R"])
        self.N = list(snap["N"])
        self.is_ttm = snap["M"] is not None
        self.M = list(snap["M"]) if snap["M"] is not None else None


def frozen(snap):
    return None if snap is None else FrozenTT(snap)


def dense_longdouble(cores):
    """Dense value of a real TT object contracted in numpy extended precision (80-bit long double on x86-64), flattened in
    the same core-by-core order as `dense` WITHOUT the TT-matrix mode permutation.  Used where the contract is at the level
    of a few ulps, so that the oracle's own float64 roundoff does not eat the tolerance."""
    acc = None
    for c in cores:
        a = c.detach().cpu().numpy().astype(np.longdouble)
        mat = a.reshape(a.shape[0], -1)
        acc = mat if acc is None else acc @ mat
        acc = acc.reshape(-1, a.shape[-1])
    return acc.reshape(-1)
