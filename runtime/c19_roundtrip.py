#!/usr/bin/env python
"""
Bounded stand-in for the ASSUMED contract of torch.save / torch.load used by the C19 proof: real round trips through real files
for objects whose rank list holds numpy integers (TT-SVD), objects produced by slicing (non-contiguous core views), TT matrices,
float32 / float64 / complex128.  Run-time contract (icontract) on a sidecar wrapper of the real save/load.
prints: RMODE-RESULT {json}
"""
import json, os, sys, tempfile, time, warnings
warnings.filterwarnings('ignore')
import icontract
import torch as tn
import torchtt


def same(x, y):
    return (x.is_ttm == y.is_ttm and list(x.N) == list(y.N) and list(x.R) == list(y.R) and (not x.is_ttm or list(x.M) == list(y.M))
            and len(x.cores) == len(y.cores) and all(a.dtype == b.dtype and a.shape == b.shape and tn.equal(a, b) for a, b in zip(x.cores, y.cores)))


@icontract.ensure(lambda x, result: same(x, result), 'load(save(x)) has identical kind, shape, ranks, dtype and bit-identical cores')
def roundtrip(x):
    d = tempfile.mkdtemp(prefix='ttvc_c19_')
    p = os.path.join(d, 'x.TT')
    try:
        torchtt.save(x, p)
        return torchtt.load(p)
    finally:
        if os.path.exists(p):
            os.remove(p)
        os.rmdir(d)


def cases(tier, seed):
    g = tn.Generator().manual_seed(seed)
    out = []
    dts = [tn.float64, tn.float32, tn.complex128]
    shapes = [[4], [3, 4], [6, 6, 6], [2, 3, 4, 2]] + ([[2, 2, 2, 2, 2, 2], [5, 1, 4]] if tier == 'thorough' else [])
    for N in shapes:
        for dt in dts:
            A = tn.randn(N, dtype=dt, generator=g) if not dt.is_complex else tn.randn(N, dtype=dt, generator=g)
            for eps in (1e-12, 0.7):
                out.append(('ttsvd N=%s %s eps=%g' % (N, dt, eps), lambda A=A, eps=eps: torchtt.TT(A, eps=eps)))
            out.append(('random N=%s %s' % (N, dt), lambda N=N, dt=dt: torchtt.random(N, 2, dtype=dt)))
            if len(N) >= 2:
                out.append(('sliced N=%s %s' % (N, dt), lambda N=N, dt=dt: torchtt.random(N, 2, dtype=dt)[tuple([slice(0, None, 2)] + [slice(None)] * (len(N) - 1))]))
    for dt in (tn.float64, tn.complex128):
        B = tn.randn([2, 3, 4, 5], dtype=dt, generator=g)
        out.append(('ttm-svd %s' % dt, lambda B=B: torchtt.TT(B, [(2, 4), (3, 5)], eps=0.5)))
        out.append(('ttm-random %s' % dt, lambda dt=dt: torchtt.random([(2, 3), (4, 2)], [1, 3, 1], dtype=dt)))
    return out


def main():
    tier = sys.argv[sys.argv.index('--tier') + 1] if '--tier' in sys.argv else 'quick'
    seed = int(sys.argv[sys.argv.index('--seed') + 1]) if '--seed' in sys.argv else 0
    t0 = time.time()
    fails, n, samples = [], 0, []
    for name, mk in cases(tier, seed):
        n += 1
        try:
            x = mk()
            if len(samples) < 3:
                samples.append({'case': name, 'R': [int(r) for r in x.R], 'rank_types': sorted({type(r).__name__ for r in x.R})})
            roundtrip(x)
        except icontract.ViolationError as e:
            fails.append({'name': 'save_load.' + name, 'message': str(e)[:300], 'driver': 'none', 'args': {'case': name}})
        except Exception as e:
            fails.append({'name': 'save_load.' + name, 'message': '%s: %s' % (type(e).__name__, str(e)[:200]), 'driver': 'none', 'args': {'case': name}})
    print('RMODE-RESULT ' + json.dumps({'name': 'rmode.C19', 'bound': 'real save/load round trips: TT-SVD results (numpy-int ranks), random, sliced (non-contiguous) tensors of the listed shapes, TT matrices; float32/float64/complex128; seed %d' % seed,
                                       'evaluations': n, 'distinct_inputs': n, 'failures': fails, 'samples': samples, 'wall_s': round(time.time() - t0, 2)}))


if __name__ == '__main__':
    main()
