"""
C12  amen_solve(A, b, eps) on well conditioned square TT-matrices: x of the right shape with
||A x - b|| <= C*eps*||b||, every preconditioner (None, 'c', 'r'), direct and both iterative local
solvers, with or without initial guess, any internal seed.
"""
import icontract
import torch
import torchtt

from rt_common import (as_matrix, case_id, clause, contract, dense, dtype_of, fro, rand_tt, seed_all,
                       shape_of, snapshot_tt, frozen, unchanged_named, within)

C = 100.0
COND_MAX = 1e3


def tt_matvec_dense(A, xd):
    """dense vector A x for a TT-matrix A, core by core (the (prod M) x (prod N) matrix is never formed)"""
    M, N = [int(m) for m in A.M], [int(n) for n in A.N]
    y = xd.reshape(1, 1, -1)                       # (P, r, rest)
    for k, core in enumerate(A.cores):
        P, r = y.shape[0], y.shape[1]
        y = y.reshape(P, r, N[k], -1)
        y = torch.einsum('prnq,rmnR->pmRq', y, core)
        y = y.reshape(P * M[k], core.shape[3], -1)
    return y.reshape(-1)


BIG = 5000         # above this number of unknowns the dense matrix is not formed


def _residual(result, A, b, eps):
    Am = as_matrix(A)
    bd = dense(b).reshape(-1)
    xd = dense(result).reshape(-1)
    if xd.numel() != bd.numel():
        return False, "solution has %d entries, rhs has %d" % (xd.numel(), bd.numel())
    res = fro(Am @ xd - bd)
    nb = fro(bd)
    return within(res, C * eps * nb, "||A x - b|| (C=%g, eps=%g, ||b||=%.3e, relative residual %.3e, ranks of x %s)" % (
        C, eps, nb, res / nb if nb else float("nan"), list(result.R)))


def _well_conditioned(A):
    if list(A.M) != list(A.N):
        return False
    n = 1
    for m in A.M:
        n *= int(m)
    if n > BIG:
        # too large for a dense condition number: sufficient condition ||A - I||_F <= 0.31  =>  cond_2(A) <= 1.31 / 0.69
        # (the norm is the library's TT norm of A - eye: C04 / C07)
        return float((A - torchtt.eye([int(m) for m in A.M], dtype=A.cores[0].dtype)).norm()) <= 0.31
    Am = as_matrix(A)
    return Am.shape[0] == Am.shape[1] and float(torch.linalg.cond(Am)) <= COND_MAX


def _residual_old(result, OLD, eps):
    """residual w.r.t. the operands AS THEY WERE BEFORE the call (a call that overwrites b must not pass trivially)."""
    A0 = frozen(OLD.A)
    bd = dense(frozen(OLD.b)).reshape(-1)
    xd = dense(result).reshape(-1)
    if xd.numel() != bd.numel():
        return False, "solution has %d entries, rhs has %d" % (xd.numel(), bd.numel())
    res = fro((as_matrix(A0) @ xd if xd.numel() <= BIG else tt_matvec_dense(A0, xd)) - bd)
    nb = fro(bd)
    return within(res, C * eps * nb, "||A x - b|| (C=%g, eps=%g, ||b||=%.3e, relative residual %.3e, ranks of x %s)" % (
        C, eps, nb, res / nb if nb else float("nan"), list(result.R)))


@contract
@icontract.snapshot(lambda x0: snapshot_tt(x0), name="x0")
@icontract.snapshot(lambda A: snapshot_tt(A), name="A")
@icontract.snapshot(lambda b: snapshot_tt(b), name="b")
@clause("guess_unchanged", lambda OLD, x0, A, b: unchanged_named(
    [("x0 (initial guess)", OLD.x0, x0), ("A", OLD.A, A), ("b", OLD.b, b)]))
@clause("residual", lambda result, OLD, eps: _residual_old(result, OLD, eps))
@clause("finite", lambda result: (all(bool(torch.isfinite(c).all()) for c in result.cores), "solution contains NaN/Inf"))
@clause("shape", lambda result, b: ((not result.is_ttm) and shape_of(result) == list(b.N),
                                    "expected TT tensor of shape %s, got %s" % (list(b.N), shape_of(result))))
@clause("is_tt", lambda result: (isinstance(result, torchtt.TT), "result is %s" % type(result).__name__))
@icontract.require(lambda A: _well_conditioned(A), "A is square and cond(A) <= 1e3")
@icontract.require(lambda A, b: A.is_ttm and not b.is_ttm and A.M == A.N and A.N == b.N)
def amen_solve(A, b, eps, x0, preconditioner, max_full, local_solver, nswp=22, kickrank=4, kick2=0,
               local_iterations=40, resets=2, trunc_norm="res"):
    # real signature (solvers.py:211): amen_solve(A, b, nswp=22, x0=None, eps=1e-10, rmax=32768, max_full=500,
    #   kickrank=4, kick2=0, trunc_norm='res', local_solver=1, local_iterations=40, resets=2, verbose=False,
    #   preconditioner=None, use_cpp=True, band_diagonal=-1, use_single_precision=False)
    return torchtt.solvers.amen_solve(A, b, nswp=nswp, x0=x0, eps=eps, max_full=max_full, kickrank=kickrank,
                                      kick2=kick2, trunc_norm=trunc_norm, local_solver=local_solver,
                                      local_iterations=local_iterations, resets=resets, verbose=False,
                                      preconditioner=preconditioner, use_cpp=False)


# ---------------------------------------------------------------------------------- operators

def laplace_1d(n, dt):
    L = 2.0 * torch.eye(n, dtype=dt)
    if n > 1:
        L = L - torch.diag(torch.ones(n - 1, dtype=dt), 1) - torch.diag(torch.ones(n - 1, dtype=dt), -1)
    return L


def build_operator(kind, N, rA, dt):
    d = len(N)
    sq = [(n, n) for n in N]
    I = torchtt.eye(N, dtype=dt)
    if kind == "lap":
        # discrete Laplacian: sum_k I x .. x L_k x .. x I   (TT rank 2 after rounding)
        A = None
        for k in range(d):
            factors = [torch.eye(n, dtype=dt) for n in N]
            factors[k] = laplace_1d(N[k], dt)
            term = torchtt.TT([f.reshape(1, f.shape[0], f.shape[1], 1) for f in factors])
            A = term if A is None else A + term
        return A.round(1e-13)
    if kind == "conv":
        # convection dominated, strictly diagonally dominant, strongly non-normal: sum_k I x .. x tridiag(-(1+a), 2+shift, -(1-a)) x .. x I
        a_, shift = 0.8, 1.0
        A = None
        for k in range(d):
            n = N[k]
            Tk = (2.0 + shift / d) * torch.eye(n, dtype=dt)
            if n > 1:
                Tk = Tk - (1 + a_) * torch.diag(torch.ones(n - 1, dtype=dt), -1) - (1 - a_) * torch.diag(torch.ones(n - 1, dtype=dt), 1)
            factors = [torch.eye(m, dtype=dt) for m in N]
            factors[k] = Tk
            term = torchtt.TT([f.reshape(1, f.shape[0], f.shape[1], 1) for f in factors])
            A = term if A is None else A + term
        return A.round(1e-13)
    if kind == "sddR":
        # round 7: symmetric, strictly diagonally dominant, operator ranks given as a list: I + 0.3 * sym(P) / ||P||_F
        P = torchtt.random(sq, list(rA), dtype=dt)
        P = P * (1.0 / float(P.norm()))
        return I + 0.3 * 0.5 * (P + P.t())
    B = rand_tt(torchtt, sq, rA, dt)
    if kind == "spd":
        S = B + B.t()
        c = 0.3 / fro(dense(S))
        return (I + c * S).round(1e-13)      # symmetric, eigenvalues in [0.7, 1.3]
    if kind == "dd":
        c = 0.3 / fro(dense(B))
        return (I + c * B).round(1e-13)      # non symmetric, ||A - I||_2 <= 0.3
    raise ValueError("unknown operator kind %r" % kind)


def run_case(a, check):
    dt = dtype_of(a.get("dtype", "float64"))
    N = list(a["N"])
    seed_all(a["seed"])
    A = build_operator(a["kind"], N, a["rA"], dt)
    b = rand_tt(torchtt, N, a["rb"], dt)
    if a.get("rhs") == "alt":
        # round 4: rank-one right-hand side whose last mode alternates in sign (zero projection on the all-ones default guess)
        cores = [torch.rand(1, n, 1, dtype=dt) + 0.5 for n in N]
        cores[-1] = torch.tensor([(-1.0) ** i for i in range(N[-1])], dtype=dt).reshape(1, -1, 1)
        b = torchtt.TT(cores)
    if a["x0"] == "disjoint":
        # round 4: b vanishes on the slice i_d = 0 and the initial guess lives only there
        bc = [torch.rand(1, n, 1, dtype=dt) + 0.5 for n in N]
        bc[-1][0, 0, 0] = 0.0
        b = torchtt.TT(bc)
        xc = [torch.rand(1, n, 1, dtype=dt) + 0.5 for n in N]
        xc[-1][:] = 0.0
        xc[-1][0, 0, 0] = 1.0
        x0 = torchtt.TT(xc)
    elif a["x0"] is None:
        x0 = None
    elif a["x0"] == "b":
        x0 = b                      # round 3: the right-hand side object itself is passed as initial guess
    else:
        x0 = torchtt.random(N, a["x0"], dtype=dt)
    seed_all(a["seed"] + 7919)
    if a.get("twice"):
        # round 3: one guess object re-used for two solves
        check("first", lambda: amen_solve(A, b, a["eps"], x0, a["prec"], a["max_full"], a["local_solver"]))
        seed_all(a["seed"] + 2 * 7919)
        check("second", lambda: amen_solve(A, b, a["eps"], x0, a["prec"], a["max_full"], a["local_solver"]))
    else:
        check(None, lambda: amen_solve(A, b, a["eps"], x0, a["prec"], a["max_full"], a["local_solver"]))


def _mk(kind, N, rA, rb, eps, x0, prec, max_full, local_solver, seed, twice=False, rhs=None):
    a = {"op": "amen_solve", "kind": kind, "N": list(N), "rA": rA, "rb": rb, "eps": eps, "x0": x0, "prec": prec,
         "max_full": max_full, "local_solver": local_solver, "seed": seed, "dtype": "float64"}
    if rhs:
        a["rhs"] = rhs
    a["id"] = case_id("amen_solve", kind, "N=%s" % str(list(N)).replace(" ", ""), "rA=%s" % (rA if isinstance(rA, int) else "-".join(str(r_) for r_ in rA)), "rb=%s" % (rhs or rb),
                      "eps=%g" % eps, "x0=%s" % ("none" if x0 is None else (x0 if isinstance(x0, str) else "rank%d" % x0)),
                      "prec=%s" % prec, "max_full=%d" % max_full, "ls=%d" % local_solver, "seed=%d" % seed)
    if twice:
        a["twice"] = True
        a["id"] += ".twice"
    return a


def enumerate_cases(tier, seed):
    quick = tier == "quick"
    cases = []
    if quick:
        shapes = [[2, 3], [4, 4], [3, 2, 4], [3, 3, 3], [4, 4, 4]]
        kinds = [("spd", 1), ("dd", 2), ("lap", 0)]
        eps_list = [1e-4, 1e-8]
        rbs = [2]
        x0s = [None, 2]
        seeds = [seed, 1] if seed != 1 else [1, 2]
        combos = [(p, mf, ls) for p in (None, "c", "r") for mf in (0, 500) for ls in (1, 2)]
    else:
        shapes = [[2, 3], [4, 4], [12, 2], [3, 2, 4], [3, 3, 3], [2, 7, 3], [2, 3, 2, 3], [4, 4, 4, 4],
                  [2, 2, 3, 2, 2], [3, 3, 3, 3, 3]]
        kinds = [("spd", 1), ("dd", 1), ("dd", 3), ("lap", 0)]
        eps_list = [1e-3, 1e-6, 1e-10]
        rbs = [1, 4]
        x0s = [None, 1, 3]
        seeds = sorted(set([seed, 1, 2]))
        combos = [(p, mf, ls) for p in (None, "c", "r") for mf in (0, 500) for ls in (1, 2)]
    for kind, rA in kinds:
        for N in shapes:
            for rb in rbs:
                for eps in eps_list:
                    for x0 in x0s:
                        for (p, mf, ls) in combos:
                            for s in seeds:
                                if not quick and len(N) >= 5 and (s != seeds[0] or x0 == 1):
                                    continue
                                cases.append(_mk(kind, N, rA, rb, eps, x0, p, mf, ls, s))
    # round 3: x0 = b (the same object) and one x0 object re-used for two consecutive solves
    r3_shapes = shapes[:4] if quick else shapes
    r3_combos = [(None, 500, 1), (None, 0, 1), ("c", 0, 2), ("r", 0, 1)]
    for kind, rA in kinds:
        for N in r3_shapes:
            for eps in eps_list:
                for (p, mf, ls) in r3_combos:
                    for s in seeds[:1] if quick else seeds[:2]:
                        cases.append(_mk(kind, N, rA, rbs[-1], eps, "b", p, mf, ls, s))
                        cases.append(_mk(kind, N, rA, rbs[-1], eps, "b", p, mf, ls, s, twice=True))
                        cases.append(_mk(kind, N, rA, rbs[-1], eps, 2, p, mf, ls, s, twice=True))
    # round 4: (a) structured right-hand sides / guesses for which an interface of the projected rhs is EXACTLY zero,
    # (b) Laplacians with mode sizes 10..12 at eps=1e-10 without preconditioner: the local problems need more than one GMRES cycle
    r4_shapes = [[6, 5, 4], [8, 8]] if quick else [[6, 5, 4], [8, 8], [4, 4, 4, 4], [5, 4, 3]]
    for kind, rA in (("lap", 0), ("dd", 3)):
        for N in r4_shapes:
            for mf in (500, 0):
                cases.append(_mk(kind, N, rA, 1, 1e-8, None, None, mf, 1, seeds[0], rhs="alt"))
                cases.append(_mk(kind, N, rA, 1, 1e-6, "disjoint", None, mf, 1, seeds[0]))
    # round 6: non-symmetric, strongly non-normal operators with a preconditioner and the iterative local solvers (the preconditioned
    # local matvec must use the A core, not its transpose)
    for N in ([[10, 12]] if quick else [[10, 12], [8, 9, 10]]):
        for p in ("c", "r"):
            for ls in (1, 2):
                cases.append(_mk("conv", N, 0, 2, 1e-6, None, p, 0, ls, seeds[0]))
    # round 7: systems of order 5 whose solution has TT ranks above 1 + 22*kickrank = 89: the default number of sweeps is exhausted
    # (known finding KF-nswp-C12)
    for s in ([0] if quick else [0, 1, 2]):
        for (p, mf, ls) in ([(None, 500, 1)] if quick else [(None, 500, 1), ("r", 0, 2)]):
            cases.append(_mk("sddR", [10, 11, 12, 8, 4], [1, 3, 4, 3, 3, 1], 4, 1.6e-10, None, p, mf, ls, s))
    for N in ([[12, 12], [10, 11, 12]] if quick else [[12, 12], [10, 11, 12], [12, 12, 12]]):
        for ls in (1, 2):
            for s in range(3 if quick else 6):          # whether a local solve needs a restart depends on the data
                cases.append(_mk("lap", N, 0, 2, 1e-10, None, None, 0, ls, seeds[0] + 10 + s))
    return cases


def bound(tier, seed):
    if tier == "quick":
        return ("C12 quick: torchtt.solvers.amen_solve(A,b,eps,x0,preconditioner,max_full,local_solver,use_cpp=False) with "
                "shapes N in {[2,3],[4,4],[3,2,4],[3,3,3],[4,4,4]}; operators {spd: round(I + 0.3*(B+B^T)/||B+B^T||_F) with B random "
                "TT-matrix of rank 1; dd: round(I + 0.3*B/||B||_F) with B random non-symmetric of rank 2; lap: "
                "sum_k I x..x tridiag(-1,2,-1) x..x I}; rhs b random TT of rank 2; eps in {1e-4,1e-8}; x0 in {None, "
                "torchtt.random rank 2}; preconditioner in {None,'c','r'} x max_full in {0,500} x local_solver in {1,2} (all "
                "12 combinations); seeds {%d, 1}; float64; other arguments at library defaults (nswp=22, kickrank=4). "
                "Precondition checked at run time: cond(A) <= 1e3. Contract: x is a TT tensor with N == b.N, finite, "
                "||A x - b|| <= 100*eps*||b|| (dense residual, A and b taken from snapshots made BEFORE the call); clause "
                "guess_unchanged: x0, A and b are bit-for-bit what they were before the call (number of cores, core shapes, R/N, "
                "entries). ROUND-3 FAMILY: for the first 4 shapes, every operator kind and eps, (prec,max_full,local_solver) in "
                "{(None,500,1),(None,0,1),('c',0,2),('r',0,1)}: x0 = b (the very same object), x0 = b solved twice, and one random "
                "rank-2 x0 object re-used for two consecutive solves (each solve is one contract evaluation). ROUND-4 FAMILY: lap and dd(rank 3) on "
                "[6,5,4] and [8,8] with a rank-one rhs whose last mode alternates in sign (eps 1e-8) and with rhs / initial guess of disjoint "
                "support (eps 1e-6), max_full in {0,500}; lap [12,12] and [10,11,12] at eps=1e-10, max_full=0, no preconditioner, both iterative "
                "local solvers, 3 seeds (local problems need several GMRES cycles). ROUND-6 FAMILY: conv = sum_k I x..x tridiag(-1.8, 2+1/d, -0.2) x..x I on "
                "[10,12], preconditioner in {'c','r'}, max_full=0, both iterative local solvers, eps 1e-6. ROUND-7 FAMILY (known finding KF-nswp-C12): "
                "sddR = I + 0.3*sym(P)/||P||_F with P random of ranks [1,3,4,3,3,1] on [10,11,12,8,4], rhs rank 4, eps 1.6e-10, direct local solver, seed 0 "
                "(42240 unknowns: residual computed core by core without forming the matrix; conditioning from ||A-I||_F <= 0.31)." % seed)
    return ("C12 thorough: shapes of order 2..5 with mode sizes 2..12 (10 shapes), operators spd(rank-1 B), dd (rank 1 and 3 B), "
            "lap; rhs ranks {1,4}; eps in {1e-3,1e-6,1e-10}; x0 in {None, random rank 1, rank 3}; all 12 combinations of "
            "preconditioner x max_full x local_solver; seeds {%d,1,2}. Same contract as quick (incl. guess_unchanged and the "
            "round-3 x0=b / x0-used-twice cases on all shapes, 2 seeds; round-4, round-6 families on more shapes; round-7 family sddR with seeds 0..2 and "
            "(None,500,1), ('r',0,2))." % seed)
