"""
C19 -- copies and save/load round-trips reproduce the object exactly.
Contracts on _extras.save/load, TT.clone/detach/to/cpu/numpy.   torch.save/torch.load are an assumed contract:
load(save(obj)) is a deep copy of obj with bit-identical tensors (for any strides / integer types held in the dict).
"""
import z3
from ttvc import harness as H, tensors as T, interp as I
from ttvc.tensors import STensor, SymScalar, is_sym, to_int
from ttvc.terms import Term
from ttvc.oblig import scenario
from .common import *

LEVEL = 'proof'
TRUSTED = TRUSTED_COMMON + ['torch.save / torch.load: identity on a dict of tensors, lists and python/numpy integers (assumed contract; exercised only by the replay driver)',
                            'Tensor.clone returns fresh storage; Tensor.to(dtype) converts the dtype and keeps the (real) value']
ASSUMPTIONS = ['orders 1..6 enumerated; sizes, ranks, entries symbolic', 'bit-identity is modelled as: every loaded core is the image under torch.load of the corresponding saved core (ghost link) and has an equal value term']
EXPLANATION = 'round-trip and copy postconditions on the real save/load/clone/detach/to/cpu/numpy'


def bounded_checks(tier, seed, repo):
    """validates the assumed torch.save / torch.load contract on real files (never counted as proved)"""
    import json, os, subprocess
    here = os.path.dirname(os.path.dirname(os.path.abspath(__file__)))
    py = os.path.join(here, '.venv312', 'bin', 'python')
    if not os.path.exists(py):
        subprocess.run(['sh', os.path.join(here, 'setup.sh')], capture_output=True, text=True, timeout=600)
    env = dict(os.environ, PYTHONPATH=repo, PYTHONWARNINGS='ignore')
    p = subprocess.run([py, os.path.join(here, 'runtime', 'c19_roundtrip.py'), '--tier', tier, '--seed', str(seed)], env=env, capture_output=True, text=True, timeout=900)
    lines = [l for l in p.stdout.splitlines() if l.startswith('RMODE-RESULT ')]
    if not lines:
        return [{'name': 'rmode.C19', 'error': (p.stdout + p.stderr)[-800:], 'evaluations': 0, 'failures': []}]
    d = json.loads(lines[-1][len('RMODE-RESULT '):])
    d['kind'] = 'bounded run-time contract (icontract) on real save/load round trips; validates the assumed torch.save/load contract; NOT counted as proved'
    return [d]


def grid(dmax):
    return [dict(d=d, ttm=t) for d in range(1, dmax + 1) for t in (False, True) if not (t and d > 4)]


@scenario('C19', 'save_load', ['torchtt._extras.save', 'torchtt._extras.load'], quick=grid(3), thorough=grid(6), replay='save_load')
def save_load(ob, d, ttm):
    ex = ob.ex
    x = ob.tt('x', d, ttm=ttm, dtype='float32' if d == 2 else 'float64')
    ob.replay_args = {'x': 'x'}
    E = ex.module('torchtt._extras').env
    ex.call(E['save'], [x, 'path'])
    saved = [e for e in ex.events if e[0] == 'torch.save']
    ob.prove('saved_once', len(saved) == 1)
    y = ex.call(E['load'], ['path'])
    ob.wf(y)
    f = fields(ob, y)
    ob.prove('kind', f['is_ttm'] is ttm)
    all_eq(ob, 'N', f['N'], x.N_)
    all_eq(ob, 'R', f['R'], x.R_, 'rank')
    if ttm and f['is_ttm']:
        all_eq(ob, 'M', f['M'], x.M_)
    prove_dtype(ob, y, x._spec['dtype'])
    ycores, xcores = y.attrs['cores'], x.attrs['cores']
    ob.prove('n_cores', len(ycores) == len(xcores))
    for k, (a, b) in enumerate(zip(ycores, xcores)):
        ob.prove('core%d_is_loaded_image' % k, a.ghost.get('loaded_from') is b)
        all_eq(ob, 'core%d_shape' % k, a.shape, b.shape)
        if len(a.shape) == len(b.shape):
            idx = H.fresh_axis_index(ex, a)
            ob.prove_eq('core%d_value' % k, a.at(idx), b.at(idx))
    ob.frame()


OPS = ['clone', 'detach', 'cpu', 'to_dtype', 'to_none', 'to_device', 'to_both', 'to_positional', 'to_complex', 'numpy', 'numpy_of_conj', 'is_cuda']


@scenario('C19', 'copies', ['torchtt._tt_base.TT.clone', 'torchtt._tt_base.TT.detach', 'torchtt._tt_base.TT.to', 'torchtt._tt_base.TT.cpu', 'torchtt._tt_base.TT.numpy'],
          quick=[dict(op=o, d=d, ttm=t) for o in OPS for d in (1, 2) for t in (False, True)],
          thorough=[dict(op=o, d=d, ttm=t) for o in OPS for d in (1, 2, 3, 4) for t in (False, True)], replay='copies')
def copies(ob, op, d, ttm):
    ex = ob.ex
    x = ob.tt('x', d, ttm=ttm, dtype='complex128' if op in ('numpy_of_conj', 'to_complex') else None)
    ob.replay_args = {'x': 'x', 'op': op}
    if op == 'is_cuda':
        r = ex.call(ex.getattr(x, 'is_cuda'), [])
        ob.prove('on_cpu', r is False or (isinstance(r, bool) and not r))
        ob.frame()
        return
    if op == 'numpy_of_conj':
        # history: numpy() of an object produced by conj() (torch.conj is lazy: for order 1 full() is a view that keeps the bit)
        xc = ex.call(ex.getattr(x, 'conj'), [])
        r = ex.call(ex.getattr(xc, 'numpy'), [])
        if not isinstance(r, STensor) or r.lib != 'numpy':
            ob.fail('numpy_array', 'post', 'numpy() returned %r' % (r,))
            return
        want = (x.M_ + x.N_) if ttm else x.N_
        all_eq(ob, 'shape', r.shape, want)
        if len(r.shape) == len(want):
            ix = H.fresh_axis_index(ex, r)
            flat = [i[0] for i in ix]
            ob.prove_eq('value', r.at(ix), val(ob, x, list(zip(flat[:d], flat[d:])) if ttm else flat).conj())
        ob.frame()
        return
    if op == 'to_dtype':
        r = ex.call(ex.getattr(x, 'to'), [], {'dtype': I.DType('float32')})
    elif op == 'to_complex':
        r = ex.call(ex.getattr(x, 'to'), [], {'dtype': I.DType('complex64')})      # complex128 -> complex64
    elif op == 'to_none':
        r = ex.call(ex.getattr(x, 'to'), [])
    elif op == 'to_device':
        r = ex.call(ex.getattr(x, 'to'), [], {'device': I.CPU})
    elif op == 'to_both':
        r = ex.call(ex.getattr(x, 'to'), [], {'device': I.CPU, 'dtype': I.DType('float32')})
    elif op == 'to_positional':
        r = ex.call(ex.getattr(x, 'to'), [I.CPU, I.DType('float32')])
    else:
        r = ex.call(ex.getattr(x, op), [])
    if op == 'numpy':
        if not isinstance(r, STensor) or r.lib != 'numpy':
            ob.fail('numpy_array', 'post', 'numpy() returned %r' % (r,))
            return
        want = (x.M_ + x.N_) if ttm else x.N_
        all_eq(ob, 'shape', r.shape, want)
        if len(r.shape) == len(want):
            ix = H.fresh_axis_index(ex, r)
            flat = [i[0] for i in ix]
            ob.prove_eq('value', r.at(ix), val(ob, x, list(zip(flat[:d], flat[d:])) if ttm else flat))
        ob.frame()
        return
    ob.wf(r)
    f = fields(ob, r)
    ob.prove('kind', f['is_ttm'] is ttm)
    all_eq(ob, 'N', f['N'], x.N_)
    all_eq(ob, 'R', f['R'], x.R_, 'rank')
    prove_dtype(ob, r, 'float32' if op in ('to_dtype', 'to_both', 'to_positional') else 'complex64' if op == 'to_complex' else 'float64')
    idx = mode_index(ob, r)
    ob.prove_eq('value', val(ob, r, idx), val(ob, x, idx))
    ob.prove('new_object', r is not x)
    if op == 'clone':
        shared = [k for k, (a, b) in enumerate(zip(r.attrs['cores'], x.attrs['cores'])) if a.storage is b.storage]
        ob.prove('no_shared_storage', not shared)
        ob.prove('own_core_list', r.attrs['cores'] is not x.attrs['cores'])
    if op == 'detach':
        ob.prove('detached', all(not c.deps and not c.requires_grad for c in r.attrs['cores']))
    ob.frame()


@scenario('C19', 'detach.tracked', 'torchtt._tt_base.TT.detach', quick=[dict(d=2)], replay='copies')
def detach_tracked(ob, d):
    """detach of a tracked tensor: same value, no autograd link, operand still tracked"""
    ex = ob.ex
    x = ob.tt('x', d)
    for c in x.attrs['cores']:
        c.requires_grad = True
    ob.replay_args = {'x': 'x', 'op': 'detach_tracked'}
    r = ex.call(ex.getattr(x, 'detach'), [])
    ob.prove('detached', all(not c.deps and not c.requires_grad for c in r.attrs['cores']))
    ob.prove('operand_still_tracked', all(c.requires_grad for c in x.attrs['cores']))
    idx = mode_index(ob, r)
    ob.prove_eq('value', val(ob, r, idx), val(ob, x, idx))
    ob.frame()


@scenario('C19', 'clone.tracked', 'torchtt._tt_base.TT.clone', quick=[dict(d=1), dict(d=2)], replay='copies')
def clone_tracked(ob, d):
    """clone of a tensor whose cores are watched by autograd: still no storage shared with the original, same value"""
    ex = ob.ex
    x = ob.tt('x', d)
    for c in x.attrs['cores']:
        c.requires_grad = True
    ob.replay_args = {'x': 'x', 'op': 'clone_tracked'}
    r = ex.call(ex.getattr(x, 'clone'), [])
    ob.wf(r)
    shared = [k for k, (a, b) in enumerate(zip(r.attrs['cores'], x.attrs['cores'])) if a.storage is b.storage]
    ob.prove('no_shared_storage', not shared)
    idx = mode_index(ob, r)
    ob.prove_eq('value', val(ob, r, idx), val(ob, x, idx))
    ob.frame()


@scenario('C19', 'canary.load_returns_other_cores', 'torchtt._extras.load', quick=[dict()], replay=None)
def canary(ob):
    ex = ob.ex
    x = ob.tt('x', 2)
    E = ex.module('torchtt._extras').env
    ex.call(E['save'], [x, 'p'])
    y = ex.call(E['load'], ['p'])
    a = y.attrs['cores'][0]
    idx = H.fresh_axis_index(ex, a)
    ob.prove_eq('value', a.at(idx), x.attrs['cores'][1].at(idx))


canary.canary = True
