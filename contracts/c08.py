"""
C08 -- indexing and pointwise evaluation agree with dense indexing.
Contracts on TT.__getitem__, TT.reduce_dims (through __getitem__), TT.apply_mask / _aux_ops.apply_mask.
"""
import itertools
import z3
from ttvc import harness as H, tensors as T, interp as I
from ttvc.tensors import STensor, SymScalar, is_sym, to_int
from ttvc.terms import Term, ite, fresh_int
from ttvc.oblig import scenario
from .common import *

LEVEL = 'proof'
TRUSTED = TRUSTED_COMMON
ASSUMPTIONS = ['index-kind patterns enumerated (int / full slice / bounded slice with step 1,2,3 / None / leading or trailing Ellipsis) for orders d<=3 quick, d<=5 thorough (d=4,5: representative patterns); '
               'integer indices symbolic in [-N, N), slice bounds symbolic with 0 <= start < stop <= N; mode sizes (singleton included), ranks, entries symbolic',
               'apply_mask: the index matrix is a symbolic integer tensor with M rows whose column k lies in [0, N_k)']
EXPLANATION = 'result.N == spec_shape(index, N) and result[j] == val(x)[map(j)] for every index pattern, proved on all paths of __getitem__ and reduce_dims'

KINDS = ['i', 'f', 's1', 's2', 'n']      # int, full slice, slice step 1, slice step 2, None


def make_index(ob, pattern, N, tag=''):
    """returns (python index tuple, list of spec entries).  spec entry per *source mode*: ('int', i_norm) | ('slice', start, length, step)
    and a list `layout` describing the result axes: ('mode', k) | ('new',)"""
    ex = ob.ex
    index = []
    spec = []
    layout = []
    desc = []
    k = 0
    d = len(N)
    n_consume = sum(1 for p in pattern if p in ('i', 'f', 's1', 's2', 's3'))
    for p in pattern:
        if p == 'e':
            index.append(Ellipsis)
            desc.append('Ellipsis')
            for _ in range(d - n_consume):
                spec.append(('slice', 0, N[k], 1))
                layout.append(('mode', k))
                k += 1
        elif p == 'n':
            index.append(None)
            desc.append(None)
            layout.append(('new',))
        elif p == 'i':
            i = z3.Int('%sidx%d' % (tag, k))
            ex.assume(i >= -N[k])
            ex.assume(i < N[k])
            index.append(i)
            desc.append(i)
            spec.append(('int', z3.If(i < 0, i + N[k], i)))
            k += 1
        elif p == 'f':
            index.append(slice(None, None, None))
            desc.append({'slice': [None, None, None]})
            spec.append(('slice', 0, N[k], 1))
            layout.append(('mode', k))
            k += 1
        else:
            step = int(p[1])
            a = z3.Int('%sa%d' % (tag, k))
            b = z3.Int('%sb%d' % (tag, k))
            ex.assume(a >= 0)
            ex.assume(a < b)
            ex.assume(b <= N[k])
            index.append(slice(a, b, None if step == 1 else step))
            desc.append({'slice': [a, b, None if step == 1 else step]})
            if step == 1:
                length = b - a
            else:
                length = (b - a + step - 1) / step
            spec.append(('slice', a, length, step))
            layout.append(('mode', k))
            k += 1
    return tuple(index), spec, layout, desc, k


def patterns(d, quick):
    out = []
    base = ['i', 'f', 's1', 'n']
    if d <= 2 or (d == 3 and not quick):
        # all patterns with exactly d consuming entries and up to one None
        for cons in itertools.product(['i', 'f', 's1', 's2'] if d <= 2 else ['i', 'f', 's1'], repeat=d):
            out.append(tuple(cons))
            for pos in range(d + 1):
                if pos in (0, d) or d <= 2:
                    out.append(tuple(cons[:pos]) + ('n',) + tuple(cons[pos:]))
        # ellipsis front / back
        for m in range(0, d):
            for cons in itertools.product(['i', 's1'], repeat=m):
                out.append(('e',) + tuple(cons))
                out.append(tuple(cons) + ('e',))
    else:
        reps = [('i',) * d, ('f',) * d, ('s1',) * d, ('i', 'f') * (d // 2) + ('i',) * (d % 2), ('f', 'i') * (d // 2) + ('f',) * (d % 2),
                ('s1', 'i', 's2') + ('f',) * (d - 3), ('n',) + ('f',) * d, ('f',) * d + ('n',), ('i', 'n') + ('s1',) * (d - 1),
                ('e', 'i'), ('i', 'e'), ('e', 's1', 'i'), ('s2', 'e'), ('i',) * (d - 1) + ('s1',), ('s1',) + ('i',) * (d - 1),
                ('f', 'n', 'i') + ('f',) * (d - 2)]
        out = [r for r in reps]
    seen = []
    for p in out:
        if p not in seen:
            seen.append(p)
    return seen


def grid_getitem(dmax, quick):
    out = []
    for d in range(1, dmax + 1):
        for p in patterns(d, quick):
            out.append(dict(d=d, pattern=p))
    return out


@scenario('C08', 'getitem.tensor', ['torchtt._tt_base.TT.__getitem__', 'torchtt._tt_base.TT.reduce_dims'],
          quick=grid_getitem(3, True), thorough=grid_getitem(5, False), replay='getitem', max_paths=1500)
def getitem_tensor(ob, d, pattern):
    ex = ob.ex
    x = ob.tt('x', d)
    index, spec, layout, desc, consumed = make_index(ob, pattern, x.N_)
    ob.describe('index', desc)
    ob.replay_args = {'x': 'x'}
    if len(index) == 1 and pattern[0] in ('i', 'f', 's1', 's2', 'e') and d == 1:
        pass
    r = ex.optable.subscript(ex, x, index if len(index) != 1 or pattern[0] == 'n' else index)
    check_result(ob, x, r, spec, layout)


@scenario('C08', 'getitem.bare', 'torchtt._tt_base.TT.__getitem__',
          quick=[dict(kind=k) for k in ('int', 'slice', 'slice2', 'ellipsis')], replay='getitem')
def getitem_bare(ob, kind):
    """non-tuple index on an order-1 tensor: x[i], x[a:b], x[a:b:2], x[...]"""
    ex = ob.ex
    x = ob.tt('x', 1)
    N = x.N_
    if kind == 'ellipsis':
        index, spec, layout, desc = Ellipsis, [('slice', 0, N[0], 1)], [('mode', 0)], ['Ellipsis']
    else:
        pat = {'int': 'i', 'slice': 's1', 'slice2': 's2'}[kind]
        tup, spec, layout, desc, _ = make_index(ob, (pat,), N)
        index = tup[0]
    ob.describe('index', desc)
    ob.describe('bare', True)
    ob.replay_args = {'x': 'x'}
    r = ex.optable.subscript(ex, x, index)
    check_result(ob, x, r, spec, layout)
    if kind == 'ellipsis' and is_tt(r):
        shared = [k for k, (a, b) in enumerate(zip(r.attrs['cores'], x.attrs['cores'])) if a.storage is b.storage]
        if shared:
            ob.fail('copy', 'frame', 'x[...] shares storage with x')
        else:
            ob.ok('copy', 'frame')


def check_result(ob, x, r, spec, layout):
    ex = ob.ex
    want = []
    for l in layout:
        if l[0] == 'new':
            want.append(1)
        else:
            want.append(spec[l[1]][2])
    if not want:
        if not isinstance(r, STensor):
            ob.fail('scalar_result', 'post', 'fully integer index returned %s' % type(r).__name__)
            return
        all_eq(ob, 'shape', r.shape, [])
        if r.ndim == 0:
            ob.prove_eq('value', r.at([]), val(ob, x, [s[1] for s in spec]))
    else:
        if not is_tt(r):
            ob.fail('tt_result', 'post', 'index with slices returned %s (dense indexing gives shape of order %d)' % (type(r).__name__, len(want)))
            return
        ob.wf(r)
        f = fields(ob, r)
        all_eq(ob, 'N', f['N'], want)
        ob.prove('kind', f['is_ttm'] is False)
        if len(f['N']) == len(want) and f['is_ttm'] is False:
            idx = mode_index(ob, r)
            src = []
            for k, s in enumerate(spec):
                if s[0] == 'int':
                    src.append(s[1])
                else:
                    pos = [j for j, l in enumerate(layout) if l == ('mode', k)][0]
                    src.append(s[1] + idx[pos] * s[3])
            ob.prove_eq('value', val(ob, r, idx), val(ob, x, src))
    ob.frame()


def grid_ttm(dmax):
    out = []
    for d in range(1, dmax + 1):
        for cons in itertools.product(['i', 'f', 's1'], repeat=d):
            out.append(dict(d=d, pattern=tuple(cons)))
    return out


@scenario('C08', 'getitem.operator', ['torchtt._tt_base.TT.__getitem__', 'torchtt._tt_base.TT.reduce_dims'],
          quick=grid_ttm(2), thorough=grid_ttm(3), replay='getitem', max_paths=1500)
def getitem_operator(ob, d, pattern):
    """operators: int/int or slice/slice pairs (row index list followed by column index list)"""
    ex = ob.ex
    x = ob.tt('x', d, ttm=True)
    ri, rspec, rlayout, rdesc, _ = make_index(ob, pattern, x.M_, 'r')
    ci, cspec, clayout, cdesc, _ = make_index(ob, pattern, x.N_, 'c')
    ob.describe('index', rdesc + cdesc)
    ob.replay_args = {'x': 'x'}
    r = ex.optable.subscript(ex, x, tuple(ri) + tuple(ci))
    wantM = [rspec[l[1]][2] for l in rlayout]
    wantN = [cspec[l[1]][2] for l in clayout]
    if not wantM:
        if not isinstance(r, STensor):
            ob.fail('scalar_result', 'post', 'fully integer index returned %s' % type(r).__name__)
            return
        all_eq(ob, 'shape', r.shape, [])
        if r.ndim == 0:
            ob.prove_eq('value', r.at([]), val(ob, x, [(a[1], b[1]) for a, b in zip(rspec, cspec)]))
    else:
        if not is_tt(r):
            ob.fail('tt_result', 'post', 'index with slices returned %s' % type(r).__name__)
            return
        ob.wf(r)
        f = fields(ob, r)
        ob.prove('kind', f['is_ttm'] is True)
        if f['is_ttm']:
            all_eq(ob, 'M', f['M'], wantM)
            all_eq(ob, 'N', f['N'], wantN)
            if len(f['N']) == len(wantN):
                idx = mode_index(ob, r)
                src = []
                for k in range(d):
                    if rspec[k][0] == 'int':
                        src.append((rspec[k][1], cspec[k][1]))
                    else:
                        pos = [j for j, l in enumerate(rlayout) if l == ('mode', k)][0]
                        src.append((rspec[k][1] + idx[pos][0] * rspec[k][3], cspec[k][1] + idx[pos][1] * cspec[k][3]))
                ob.prove_eq('value', val(ob, r, idx), val(ob, x, src))
    ob.frame()


@scenario('C08', 'apply_mask', ['torchtt._tt_base.TT.apply_mask', 'torchtt._aux_ops.apply_mask'],
          quick=orders(1, 3), thorough=orders(1, 5), replay='apply_mask')
def apply_mask(ob, d):
    """x.apply_mask(indices)[j] == val(x)[indices[j, :]]"""
    ex = ob.ex
    x = ob.tt('x', d)
    Mrows = z3.Int('Mrows')
    ex.assume(Mrows >= 1)
    IDX = z3.Function('IDX', z3.IntSort(), z3.IntSort(), z3.IntSort())
    ind = STensor([T.Axis(Mrows), T.Axis(d)], 'int64', None, ival=lambda idx: IDX(to_int(idx[0][0]), to_int(idx[1][0])))
    ind.nonneg = True
    ex.register_arg(ind, 'indices')
    # precondition of the property: every column k of the index matrix lies in [0, N_k)
    j = z3.Int('jq')
    for k in range(d):
        ex.assume(z3.ForAll([j], z3.Implies(z3.And(j >= 0, j < Mrows), z3.And(IDX(j, k) >= 0, IDX(j, k) < x.N_[k]))))
    ob.describe('Mrows', Mrows)
    ob.replay_args = {'x': 'x'}
    r = ex.call(ex.getattr(x, 'apply_mask'), [ind])
    if not isinstance(r, STensor):
        ob.fail('tensor_result', 'post', 'apply_mask returned %s' % type(r).__name__)
        return
    all_eq(ob, 'shape', r.shape, [Mrows])
    if r.ndim == 1:
        jj = H.fresh_axis_index(ex, r)
        ob.prove_eq('value', r.at(jj), val(ob, x, [IDX(jj[0][0], k) for k in range(d)]))
    ob.frame()


@scenario('C08', 'canary.getitem_off_by_one', 'torchtt._tt_base.TT.__getitem__', quick=[dict(d=2)], replay=None)
def canary(ob, d):
    ex = ob.ex
    x = ob.tt('x', d)
    index, spec, layout, desc, _ = make_index(ob, ('s1', 'i'), x.N_)
    r = ex.optable.subscript(ex, x, index)
    idx = mode_index(ob, r)
    ob.prove_eq('value', val(ob, r, idx), val(ob, x, [spec[0][1] + idx[0] + 1, spec[1][1]]))


canary.canary = True
