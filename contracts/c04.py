"""
C04 -- TT-matrix algebra equals dense linear-operator algebra.
Contracts on TT.__matmul__ (4 branches), TT.t, operator branches of + - * and scalar ops, _aux_ops.dense_matvec.
"""
import z3
from ttvc import harness as H, tensors as T, interp as I
from ttvc.tensors import STensor, SymScalar, is_sym, to_int
from ttvc.terms import Term, ite, fresh_int
from ttvc.oblig import scenario
from .common import *
from . import c03 as _c03

LEVEL = 'proof'
TRUSTED = TRUSTED_COMMON
ASSUMPTIONS = ['orders enumerated up to the property bound (d<=4 thorough, d<=2/3 quick), batch dims 0..3 (quick 0..1); row, column and inner mode sizes are independent symbols (rectangular), ranks and entries symbolic']
EXPLANATION = 'value postconditions against the dense operator expression, discharged by the Sigma-term prover on the terms produced by the real einsum/tensordot calls'


def sum_over(ex, sizes, f):
    """SUM over all index tuples n (one bound variable per size) of f(n)"""
    vs = [fresh_int('n') for _ in sizes]
    t = f(vs)
    for v, s in zip(vs, sizes):
        t = t.summed(v, s)
    return t


def grid_mm(dmax):
    return [dict(kind=k, d=d) for k in ('mv', 'vm', 'mm') for d in range(1, dmax + 1)]


@scenario('C04', 'matmul', 'torchtt._tt_base.TT.__matmul__', quick=grid_mm(3), thorough=grid_mm(4), dtypes=('float64', 'float32'), replay='tt_op')
def matmul(ob, kind, d):
    ex = ob.ex
    if kind == 'mv':
        A = ob.tt('A', d, ttm=True)
        x = ob.tt('x', d, N=A.N_)
        l, r = A, x
    elif kind == 'vm':
        A = ob.tt('A', d, ttm=True)
        x = ob.tt('x', d, N=A.M_)
        l, r = x, A
    else:
        A = ob.tt('A', d, ttm=True)
        B = ob.tt('B', d, ttm=True, M=A.N_)
        l, r = A, B
    ob.replay_args = {'op': 'matmul', 'x': l._spec['name'], 'y': r._spec['name']}
    res = ex.binop('MatMult', l, r)
    ob.wf(res)
    f = fields(ob, res)
    all_eq(ob, 'R', f['R'], [a * b for a, b in zip(l.R_, r.R_)], 'rank')
    prove_dtype(ob, res, ob.dt())
    if kind == 'mv':
        all_eq(ob, 'N', f['N'], A.M_)
        ob.prove('is_tensor', f['is_ttm'] is False)
        j = H.fresh_index(ex, A.M_, 'j')
        rhs = sum_over(ex, A.N_, lambda n: val(ob, A, list(zip(j, n))) * val(ob, x, n))
        ob.prove_eq('value', val(ob, res, j), rhs)
    elif kind == 'vm':
        all_eq(ob, 'N', f['N'], A.N_)
        ob.prove('is_tensor', f['is_ttm'] is False)
        j = H.fresh_index(ex, A.N_, 'j')
        rhs = sum_over(ex, A.M_, lambda m: val(ob, x, m) * val(ob, A, list(zip(m, j))))
        ob.prove_eq('value', val(ob, res, j), rhs)
    else:
        ob.prove('is_operator', f['is_ttm'] is True)
        if f['is_ttm']:
            all_eq(ob, 'M', f['M'], A.M_)
            all_eq(ob, 'N', f['N'], B.N_)
            i = H.fresh_index(ex, A.M_, 'i')
            j = H.fresh_index(ex, B.N_, 'j')
            rhs = sum_over(ex, A.N_, lambda k: val(ob, A, list(zip(i, k))) * val(ob, B, list(zip(k, j))))
            ob.prove_eq('value', val(ob, res, list(zip(i, j))), rhs)
    ob.frame()


def grid_dense(dmax, bmax):
    return [dict(d=d, nb=nb) for d in range(1, dmax + 1) for nb in range(0, bmax + 1)]


@scenario('C04', 'matmul_dense', ['torchtt._tt_base.TT.__matmul__', 'torchtt._aux_ops.dense_matvec'],
          quick=grid_dense(2, 1), thorough=grid_dense(4, 3), dtypes=('float64', 'float32'), replay='tt_op')
def matmul_dense(ob, d, nb):
    """A @ dense with nb leading batch dimensions: result[b, m] = SUM_n A[m, n] dense[b, n]"""
    ex = ob.ex
    A = ob.tt('A', d, ttm=True)
    B = H.sym_sizes(ex, 'B', nb)
    D = T.atom_tensor('D', B + A.N_, ob.dt())
    ex.register_arg(D, 'D')
    ob.describe('D', {'kind': 'dense', 'shape': B + A.N_, 'dtype': ob.dt()})
    ob.replay_args = {'op': 'matmul', 'x': 'A', 'y': 'D', 'check_dtype': False}
    res = ex.binop('MatMult', A, D)
    if not isinstance(res, STensor):
        ob.fail('is_tensor', 'post', 'A @ dense returned %s' % type(res).__name__)
        return
    all_eq(ob, 'shape', res.shape, B + A.M_)
    if len(res.shape) != nb + d:
        return
    ix = H.fresh_axis_index(ex, res)
    flat = [i[0] if len(i) == 1 else i for i in ix]
    b, m = flat[:nb], flat[nb:]
    rhs = sum_over(ex, A.N_, lambda n: val(ob, A, list(zip(m, n))) * D.at(b + n))
    ob.prove_eq('value', res.at(ix), rhs)
    if res.dtype != ob.dt():
        ob.fail('dtype', 'dtype', 'result dtype %s, operands %s' % (res.dtype, ob.dt()))
    else:
        ob.ok('dtype', 'dtype')
    ob.frame()


@scenario('C04', 'transpose', 'torchtt._tt_base.TT.t', quick=orders(1, 3), thorough=orders(1, 4), dtypes=('float64', 'float32'), replay='unary')
def transpose(ob, d):
    ex = ob.ex
    A = ob.tt('A', d, ttm=True)
    ob.replay_args = {'op': 't', 'x': 'A'}
    res = ex.call(ex.getattr(A, 't'), [])
    ob.wf(res)
    f = fields(ob, res)
    ob.prove('is_operator', f['is_ttm'] is True)
    if not f['is_ttm']:
        return
    all_eq(ob, 'M', f['M'], A.N_)
    all_eq(ob, 'N', f['N'], A.M_)
    all_eq(ob, 'R', f['R'], A.R_, 'rank')
    prove_dtype(ob, res, ob.dt())
    idx = mode_index(ob, res)
    ob.prove_eq('value', val(ob, res, idx), val(ob, A, [(n, m) for m, n in idx]))
    ob.frame()


def grid_same(dmax):
    return [dict(op=op, d=d) for op in ('add', 'sub', 'mul') for d in range(1, dmax + 1)]


@scenario('C04', 'binop.operators', ['torchtt._tt_base.TT.__add__', 'torchtt._tt_base.TT.__sub__', 'torchtt._tt_base.TT.__mul__'],
          quick=grid_same(2), thorough=grid_same(4), dtypes=('float64', 'float32'), replay='tt_op')
def binop_operators(ob, op, d):
    x = ob.tt('x', d, ttm=True)
    y = ob.tt('y', d, ttm=True, N=x.N_, M=x.M_)
    ob.replay_args = {'op': op, 'x': 'x', 'y': 'y'}
    r = ob.ex.binop(_c03.OPN[op], x, y)
    ob.wf(r)
    f = fields(ob, r)
    ob.prove('is_operator', f['is_ttm'] is True)
    if not f['is_ttm']:
        return
    all_eq(ob, 'N', f['N'], x.N_)
    all_eq(ob, 'M', f['M'], x.M_)
    if op in ('add', 'sub'):
        want = [1] + [x.R_[k] + y.R_[k] for k in range(1, d)] + [1]
    else:
        want = [1] + [x.R_[k] * y.R_[k] for k in range(1, d)] + [1]
    all_eq(ob, 'R', f['R'], want, 'rank')
    prove_dtype(ob, r, ob.dt())
    idx = mode_index(ob, r)
    ob.prove_eq('value', val(ob, r, idx), _c03.dense_op(op, val(ob, x, idx), val(ob, y, idx)))
    ob.frame()


@scenario('C04', 'scalar.operators', ['torchtt._tt_base.TT.__add__', 'torchtt._tt_base.TT.__radd__', 'torchtt._tt_base.TT.__sub__', 'torchtt._tt_base.TT.__rsub__',
                                      'torchtt._tt_base.TT.__mul__', 'torchtt._tt_base.TT.__rmul__', 'torchtt._tt_base.TT.__truediv__'],
          quick=[g for g in _c03.grid_scalar(2) if g['kind'] in ('float', 'tensor0', 'np.int64')],
          thorough=_c03.grid_scalar(4), dtypes=('float64', 'float32'), replay='tt_op')
def scalar_operators(ob, op, kind, d):
    _c03.scalar_body(ob, op, kind, d, ttm=True)


@scenario('C04', 'canary.transpose_is_identity', 'torchtt._tt_base.TT.t', quick=[dict(d=2)], replay=None)
def canary(ob, d):
    A = ob.tt('A', d, ttm=True)
    res = ob.ex.call(ob.ex.getattr(A, 't'), [])
    idx = mode_index(ob, res)
    ob.prove_eq('value', val(ob, res, idx), val(ob, A, idx))


canary.canary = True
