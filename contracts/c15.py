"""
C15 -- gradients through TT operations match the dense derivative.

Argument (DESIGN.md C15):  (i) F_TT == F_dense as functions of the core entries for ALL real values (value postconditions of
C03 C04 C07 C08 C09 C20), hence their derivatives coincide;  (ii) the implementation reaches its result from the tracked
cores only through autograd-transparent primitives -- the obligations of this module (kind `transparent`): no value that
depends on a tracked core passes through item()/float()/numpy()/detach()/torch.tensor(...) or an in-place write on a leaf,
and the result depends on every tracked core;  (iii) torch.autograd is exact on compositions of differentiable primitives
(assumed).  grad.grad / grad.grad_list / watch / unwatch get their own contracts.
"""
import itertools
import z3
from ttvc import harness as H, tensors as T, interp as I
from ttvc.tensors import STensor, SymScalar, is_sym, to_int, PyRaise
from ttvc.terms import Term
from ttvc.oblig import scenario
from .common import *

LEVEL = 'proof'
TRUSTED = TRUSTED_COMMON + ['torch.autograd computes the exact derivative of a composition of differentiable primitives and raises on in-place writes to leaves that require grad (assumed contract)',
                            'which torch primitives are differentiable / cut the graph is part of the op table (item, float, numpy, detach, torch.tensor(data) cut; arithmetic, einsum, reshape, indexing, pad, cat ... do not)']
ASSUMPTIONS = ['orders d<=3 (quick d<=2); every choice of tracked operand (first / second / both); real float64', 'value equality is taken from the proofs of C03 C04 C07 C08 C09 C20']
EXPLANATION = 'autograd-transparency obligations on the data path from every tracked core to the result'


def track(obj):
    for c in obj.attrs['cores']:
        c.requires_grad = True
    return [c.tid for c in obj.attrs['cores']]


def result_tensors(r):
    if isinstance(r, STensor):
        return [r]
    if is_tt(r):
        return list(r.attrs['cores'])
    if isinstance(r, (list, tuple)):
        return [t for x in r for t in result_tensors(x)]
    return []


def check_transparent(ob, r, leaves, name='transparent'):
    ex = ob.ex
    ts = result_tensors(r)
    if not ts:
        ob.fail(name, 'transparent', 'no tensor result (%s)' % type(r).__name__)
        return
    deps = frozenset().union(*[t.deps | (frozenset([t.tid]) if t.requires_grad and t.is_leaf else frozenset()) for t in ts])
    missing = [l for l in leaves if l not in deps]
    cuts = list(ex.grad_cuts)
    if missing:
        ob.fail(name + '.depends_on_every_tracked_core', 'transparent', 'result does not depend on %d of %d tracked cores' % (len(missing), len(leaves)))
    else:
        ob.ok(name + '.depends_on_every_tracked_core', 'transparent')
    if cuts or any(t.grad_cut for t in ts):
        ob.fail(name + '.no_graph_cut', 'transparent', 'value left the autograd graph: %s' % (cuts[:3],))
    else:
        ob.ok(name + '.no_graph_cut', 'transparent')


OPS = ['full', 'add', 'sub', 'mul', 'neg', 'scalar_mul', 'scalar_add', 'scalar_rsub', 'scalar_div', 'tensor_scalar_mul', 'tensor_scalar_add', 'tensor_scalar_div', 'tensor_scalar_sub', 'tensor_scalar_rsub', 'kron', 'matvec', 'vecmat', 'matmat',
       'matdense', 'sum_all', 'sum_partial', 'dot', 'dot_axis', 'norm', 'norm_sq', 'bilinear', 'getitem', 'apply_mask', 'cat', 'pad', 'diag', 'mprod', 'transpose', 'nn_forward']


def grid_ops(dmax):
    out = []
    for op in OPS:
        for d in range(1, dmax + 1):
            if op in ('sum_partial', 'dot_axis', 'getitem') and d < 2:
                continue
            for who in ('first', 'second', 'both'):
                if who != 'first' and op in ('full', 'neg', 'scalar_mul', 'scalar_add', 'scalar_rsub', 'scalar_div', 'sum_all', 'sum_partial', 'norm', 'norm_sq',
                                             'getitem', 'apply_mask', 'pad', 'diag', 'mprod', 'transpose', 'nn_forward'):
                    continue
                out.append(dict(op=op, d=d, who=who))
    return out


@scenario('C15', 'transparent', ['torchtt._tt_base.TT', 'torchtt._extras', 'torchtt._aux_ops', 'torchtt.nn.LinearLayerTT.forward'],
          quick=grid_ops(2), thorough=grid_ops(3), replay='grad_op', max_paths=600)
def transparent(ob, op, d, who):
    ex = ob.ex
    E = lambda n: ex.module('torchtt._extras').env[n]
    leaves = []
    ob.replay_args = {'op': op, 'who': who}

    def mk(name, **kw):
        return ob.tt(name, d, dtype='float64', **kw)

    def tr(*objs):
        sel = {'first': objs[:1], 'second': objs[1:2], 'both': objs[:2]}[who]
        for o in sel:
            leaves.extend(track(o))
    if op in ('full', 'neg', 'scalar_mul', 'scalar_add', 'scalar_rsub', 'scalar_div', 'sum_all', 'sum_partial', 'norm', 'norm_sq', 'getitem', 'apply_mask', 'pad', 'diag', 'mprod'):
        x = mk('x')
        tr(x)
        c = SymScalar(z3.Real('c'), 'float', 'float')
        if op in ('scalar_div', 'scalar_mul'):
            ex.assume(c.expr != 0)        # 0 * x is the (constant) zero tensor: its zero gradient agrees with the dense one trivially
        call = lambda name, *a: ex.call(ex.getattr(x, name), list(a))
        r = {'full': lambda: call('full'), 'neg': lambda: ex.optable.neg(ex, x), 'scalar_mul': lambda: ex.binop('Mult', x, c), 'scalar_add': lambda: ex.binop('Add', c, x),
             'scalar_rsub': lambda: ex.binop('Sub', c, x), 'scalar_div': lambda: ex.binop('Div', x, c), 'sum_all': lambda: call('sum'),
             'sum_partial': lambda: call('sum', [0]), 'norm': lambda: call('norm'), 'norm_sq': lambda: call('norm', True),
             'getitem': lambda: ex.optable.subscript(ex, x, tuple([0] + [slice(None)] * (d - 1))),
             'apply_mask': lambda: call('apply_mask', _mask(ex, x, d)),
             'pad': lambda: ex.call(E('pad'), [x, ((1, 1),) * d, 2.0]), 'diag': lambda: ex.call(E('diag'), [x]),
             'mprod': lambda: call('mprod', T.atom_tensor('F', [z3.Int('L'), x.N_[0]]), 0)}[op]()
    elif op in ('add', 'sub', 'mul', 'dot', 'cat', 'tensor_scalar_mul', 'tensor_scalar_add', 'tensor_scalar_div', 'tensor_scalar_sub', 'tensor_scalar_rsub'):
        x = mk('x')
        y = mk('y', N=x.N_)
        tr(x, y)
        if op.startswith('tensor_scalar_'):
            # the scalar is itself a tensor computed from tracked cores: d(scalar)/d(core) must flow through
            s = ex.call(E('dot'), [x, y])
            if op == 'tensor_scalar_rsub':
                r = ex.binop('Sub', s, x)
            else:
                r = ex.binop({'tensor_scalar_mul': 'Mult', 'tensor_scalar_add': 'Add', 'tensor_scalar_div': 'Div', 'tensor_scalar_sub': 'Sub'}[op], x, s)
        else:
            r = {'add': lambda: ex.binop('Add', x, y), 'sub': lambda: ex.binop('Sub', x, y), 'mul': lambda: ex.binop('Mult', x, y),
                 'dot': lambda: ex.call(E('dot'), [x, y]), 'cat': lambda: ex.call(E('cat'), [(x, y), 0])}[op]()
    elif op == 'dot_axis':
        x = mk('x')
        y = ob.tt('y', 1, N=[x.N_[0]], dtype='float64')
        tr(x, y)
        r = ex.call(E('dot'), [x, y, [0]])
    elif op == 'kron':
        x = mk('x')
        y = mk('y')
        tr(x, y)
        r = ex.binop('Pow', x, y)
    elif op in ('matvec', 'vecmat', 'matmat', 'matdense', 'bilinear', 'transpose'):
        A = ob.tt('A', d, ttm=True, dtype='float64')
        if op == 'matvec':
            x = mk('x', N=A.N_)
            tr(A, x)
            r = ex.binop('MatMult', A, x)
        elif op == 'vecmat':
            x = mk('x', N=A.M_)
            tr(x, A)
            r = ex.binop('MatMult', x, A)
        elif op == 'matmat':
            B = ob.tt('B', d, ttm=True, M=A.N_, dtype='float64')
            tr(A, B)
            r = ex.binop('MatMult', A, B)
        elif op == 'matdense':
            D = T.atom_tensor('D', A.N_)
            tr(A, A)
            if who != 'first':
                D.requires_grad = True
                leaves.append(D.tid)
            r = ex.binop('MatMult', A, D)
        elif op == 'transpose':
            tr(A)
            r = ex.call(ex.getattr(A, 't'), [])
        else:
            x = mk('x', N=A.M_)
            y = mk('y', N=A.N_)
            tr(x, y)
            leaves.extend(track(A))
            r = ex.call(E('bilinear_form'), [x, A, y])
    elif op == 'nn_forward':
        from . import c20
        n_in = H.sym_sizes(ex, 'in', d)
        n_out = H.sym_sizes(ex, 'out', d)
        R = [1] + H.sym_sizes(ex, 'r', d - 1) + [1]
        layer = ex.instantiate(c20.layer_class(ex), [list(n_in), list(n_out), list(R)], {'dtype': I.DType('float64')})
        for c in list(layer.attrs['cores']) + [layer.attrs['bias']]:
            leaves.append(c.tid)
        r = ex.call(ex.getattr(layer, 'forward'), [T.atom_tensor('X', n_in)])
    else:
        raise ValueError(op)
    check_transparent(ob, r, leaves)


def _mask(ex, x, d):
    IDX = z3.Function('IDX', z3.IntSort(), z3.IntSort(), z3.IntSort())
    Mrows = z3.Int('Mrows')
    ex.assume(Mrows >= 1)
    ind = STensor([T.Axis(Mrows), T.Axis(d)], 'int64', None, ival=lambda idx: IDX(to_int(idx[0][0]), to_int(idx[1][0])))
    ind.nonneg = True
    j = z3.Int('jq')
    for k in range(d):
        ex.assume(z3.ForAll([j], z3.Implies(z3.And(j >= 0, j < Mrows), z3.And(IDX(j, k) >= 0, IDX(j, k) < x.N_[k]))))
    return ind


@scenario('C15', 'grad_api', ['torchtt.grad.watch', 'torchtt.grad.unwatch', 'torchtt.grad.grad', 'torchtt.grad.grad_list', 'torchtt.grad.watch_list'],
          quick=[dict(case=c) for c in ('watch_all', 'watch_some', 'unwatch', 'grad_all', 'grad_indices', 'grad_indices_permuted', 'grad_list_flat', 'grad_list_nested', 'grad_list_nested_rev', 'watch_list', 'grad_twice', 'grad_list_twice', 'grad_of_constant', 'grad_list_of_constant', 'grad_then_indices', 'grad_partial_watch', 'grad_partial_watch_indices', 'grad_list_partial_watch', 'grad_of_clone', 'grad_list_of_clone', 'grad_independent', 'grad_indices_independent', 'grad_list_independent', 'grad_list_nested_independent')],
          replay='grad_api')
def grad_api(ob, case):
    """watch/unwatch toggle requires_grad of the selected cores and nothing else; grad / grad_list return the .grad of the cores, in the
    requested order, with the shapes of the cores"""
    ex = ob.ex
    G = ex.module('torchtt.grad').env
    d = 3
    x = ob.tt('x', d, dtype='float64')
    cores = x.attrs['cores']
    ob.replay_args = {'case': case}
    if case in ('watch_all', 'watch_some', 'unwatch', 'watch_list'):
        if case == 'watch_all':
            ex.call(G['watch'], [x])
            want = [True] * d
        elif case == 'watch_some':
            ex.call(G['watch'], [x, [2, 0]])
            want = [True, False, True]
        elif case == 'watch_list':
            y = ob.tt('y', 2, dtype='float64')
            ex.call(G['watch_list'], [[x, y]])
            want = [True] * d
            ob.prove('second_watched', all(c.requires_grad for c in y.attrs['cores']))
        else:
            for c in cores:
                c.requires_grad = True
            ex.call(G['unwatch'], [x])
            want = [False] * d
        ob.prove('flags', [bool(c.requires_grad) for c in cores] == want)
        ob.prove('same_cores', all(a is b for a, b in zip(x.attrs['cores'], cores)))
        bad = [w for w in ex.writes if w[0] != 'requires_grad']
        ob.prove('only_requires_grad_changes', not bad)
        return
    if case in ('grad_partial_watch', 'grad_partial_watch_indices', 'grad_list_partial_watch'):
        # only some cores are watched (an unwatched core PRECEDES the watched ones): every requested position holds the derivative
        # w.r.t. the core at THAT position -- zeros of its shape for the unwatched core
        cores[1].requires_grad = True
        cores[2].requires_grad = True
        v = ex.call(ex.getattr(x, 'sum'), [])
        if case == 'grad_partial_watch':
            g, want = ex.call(G['grad'], [v, x]), [0, 1, 2]
        elif case == 'grad_partial_watch_indices':
            g, want = ex.call(G['grad'], [v, x, [0, 2]]), [0, 2]
        else:
            y = ob.tt('y', 2, dtype='float64')
            for c in y.attrs['cores']:
                c.requires_grad = True
            v = ex.binop('Add', v, ex.call(ex.getattr(y, 'sum'), []))
            g, want = ex.call(G['grad_list'], [v, [x, y]]), [0, 1, 2]
            ycs = y.attrs['cores']
            ok = isinstance(g, list) and len(g) == d + 2
            ob.prove('structure', ok)
            if ok:
                for j, (gt, ct) in enumerate(zip(g[d:], ycs)):
                    tag = gt.ghost.get('grad_of') if isinstance(gt, STensor) else None
                    ob.prove('second_tensor.entry%d_is_the_derivative' % j, bool(tag is not None and tag[0] is v and tag[1] is ct))
                g = g[:d]
        ob.prove('is_list', isinstance(g, list) and len(g) == len(want))
        if isinstance(g, list) and len(g) == len(want):
            for j, (gt, kk) in enumerate(zip(g, want)):
                ct = cores[kk]
                ok = isinstance(gt, STensor)
                ob.prove('entry%d_is_tensor' % j, ok)
                if not ok:
                    continue
                all_eq(ob, 'entry%d_shape' % j, gt.shape, ct.shape)
                if kk == 0:
                    if gt._val is not None and len(gt.shape) == len(ct.shape):
                        ob.prove_eq('entry%d_unwatched_core_has_zero_derivative' % j, gt.at(H.fresh_axis_index(ex, gt)), Term.zero())
                    else:
                        ob.fail('entry%d_unwatched_core_has_zero_derivative' % j, 'value', 'not a zero tensor')
                else:
                    tag = gt.ghost.get('grad_of')
                    ob.prove('entry%d_is_the_derivative_w.r.t._core_%d' % (j, kk), bool(tag is not None and tag[0] is v and tag[1] is ct))
        return
    for c in cores:
        c.requires_grad = True
    val_ = ex.call(ex.getattr(x, 'sum'), [])
    if case in ('grad_of_constant', 'grad_list_of_constant'):
        # a value built from TT operations that does not depend on the cores (x * 0 is the detached zero tensor): the dense derivative is
        # zero, so grad returns zero tensors with the shapes of the cores (and does not raise)
        zero = ex.binop('Mult', x, 0)
        v0 = ex.call(ex.getattr(zero, 'sum'), [])
        g = ex.call(G['grad'], [v0, x]) if case == 'grad_of_constant' else ex.call(G['grad_list'], [v0, [x]])
        ob.prove('is_list', isinstance(g, list) and len(g) == d)
        if isinstance(g, list) and len(g) == d:
            for j, (gt, ct) in enumerate(zip(g, cores)):
                ok = isinstance(gt, STensor)
                ob.prove('entry%d_is_tensor' % j, ok)
                if ok:
                    all_eq(ob, 'entry%d_shape' % j, gt.shape, ct.shape)
                    if gt._val is not None and len(gt.shape) == len(ct.shape):
                        ob.prove_eq('entry%d_is_zero' % j, gt.at(H.fresh_axis_index(ex, gt)), Term.zero())
                    else:
                        ob.fail('entry%d_is_zero' % j, 'value', 'gradient of a constant is not a zero tensor')
        return
    if case in ('grad_independent', 'grad_indices_independent', 'grad_list_independent', 'grad_list_nested_independent'):
        # two watched tensors, the value depends on the second only: the derivative w.r.t. the cores of the first is zero (dense: a zero
        # array of the core's shape), the derivative w.r.t. the second is the .grad of its cores
        y = ob.tt('y', 2, dtype='float64')
        ycores = y.attrs['cores']
        for c in ycores:
            c.requires_grad = True
        vy = ex.call(ex.getattr(y, 'sum'), [])
        if case == 'grad_independent':
            g = ex.call(G['grad'], [vy, x])
            zero_of, dep_of = list(zip(g, cores)) if isinstance(g, list) and len(g) == d else None, []
        elif case == 'grad_indices_independent':
            g = ex.call(G['grad'], [vy, x, [2, 0]])
            zero_of, dep_of = list(zip(g, [cores[2], cores[0]])) if isinstance(g, list) and len(g) == 2 else None, []
        elif case == 'grad_list_independent':
            g = ex.call(G['grad_list'], [vy, [x, y]])
            ok = isinstance(g, list) and len(g) == d + 2
            zero_of, dep_of = (list(zip(g[:d], cores)), list(zip(g[d:], ycores))) if ok else (None, [])
        else:
            g = ex.call(G['grad_list'], [vy, [y, x]], {'all_in_one': False})
            ok = isinstance(g, list) and len(g) == 2 and all(isinstance(q, list) for q in g) and len(g[0]) == 2 and len(g[1]) == d
            zero_of, dep_of = (list(zip(g[1], cores)), list(zip(g[0], ycores))) if ok else (None, [])
        ob.prove('structure', zero_of is not None)
        for j, (gt, ct) in enumerate(zero_of or []):
            ok = isinstance(gt, STensor)
            ob.prove('independent.entry%d_is_tensor' % j, ok)
            if ok:
                all_eq(ob, 'independent.entry%d_shape' % j, gt.shape, ct.shape)
                if gt._val is not None and len(gt.shape) == len(ct.shape):
                    ob.prove_eq('independent.entry%d_is_zero' % j, gt.at(H.fresh_axis_index(ex, gt)), Term.zero())
                else:
                    ob.fail('independent.entry%d_is_zero' % j, 'value', 'gradient w.r.t. a core the value does not depend on is not a zero tensor')
        for j, (gt, ct) in enumerate(dep_of):
            tag = gt.ghost.get('grad_of') if isinstance(gt, STensor) else None
            ob.prove('dependent.entry%d_is_the_derivative' % j, bool(tag is not None and tag[0] is vy and tag[1] is ct))
        return
    if case in ('grad_of_clone', 'grad_list_of_clone'):
        # cores that are tracked by autograd but are not leaves (the cores of x.clone() for a watched x): the derivative of a value
        # built from them w.r.t. THESE cores is returned (not zeros, not None)
        z = ex.call(ex.getattr(x, 'clone'), [])
        zc = list(z.attrs['cores'])
        ob.prove('clone_cores_are_tracked_non_leaves', all(isinstance(c, STensor) and c.deps and not c.is_leaf for c in zc))
        sq = ex.binop('Mult', z, z)
        vz = ex.call(ex.getattr(sq, 'sum'), [])
        g = ex.call(G['grad'], [vz, z]) if case == 'grad_of_clone' else ex.call(G['grad_list'], [vz, [z]])
        ob.prove('is_list', isinstance(g, list) and len(g) == d)
        if isinstance(g, list) and len(g) == d:
            for j, (gt, ct) in enumerate(zip(g, zc)):
                tag = gt.ghost.get('grad_of') if isinstance(gt, STensor) else None
                ob.prove('entry%d_is_the_derivative_w.r.t._the_non_leaf_core' % j, bool(tag is not None and tag[0] is vz and tag[1] is ct))
        return
    if case == 'grad_then_indices':
        # history with the core_indices option: a full gradient, then the gradient of another value w.r.t. ONE core.  The list
        # returned first keeps its value for EVERY core (backward() of the second call accumulates into the .grad of all cores)
        sq = ex.binop('Mult', x, x)
        val2 = ex.call(ex.getattr(sq, 'sum'), [])
        g1 = ex.call(G['grad'], [val_, x])
        g1_tags = [t.ghost.get('grad_of') if isinstance(t, STensor) else None for t in g1]
        g = ex.call(G['grad'], [val2, x, [0]])
        ob.prove('is_list', isinstance(g, list) and len(g) == 1)
        if isinstance(g, list) and len(g) == 1:
            tag = g[0].ghost.get('grad_of') if isinstance(g[0], STensor) else None
            ob.prove('second_call.entry0_is_the_derivative_of_the_second_value', bool(tag is not None and tag[0] is val2 and tag[1] is cores[0]))
        for j, (t1, tag1) in enumerate(zip(g1, g1_tags)):
            now = t1.ghost.get('grad_of') if isinstance(t1, STensor) else None
            if now is not tag1:
                ob.fail('first_result.entry%d_keeps_its_value' % j, 'frame', 'the tensor returned by the first call was updated in place by the second call')
            else:
                ob.ok('first_result.entry%d_keeps_its_value' % j, 'frame')
        return
    if case in ('grad_twice', 'grad_list_twice'):
        # history: two gradients of two different values w.r.t. the same watched tensor.  The second call returns the derivative of
        # the SECOND value (torch accumulates into .grad unless it is cleared), and the list returned first keeps its value.
        sq = ex.binop('Mult', x, x)
        val2 = ex.call(ex.getattr(sq, 'sum'), [])
        if case == 'grad_twice':
            g1 = ex.call(G['grad'], [val_, x])
            g1_tags = [t.ghost.get('grad_of') if isinstance(t, STensor) else None for t in g1]
            g = ex.call(G['grad'], [val2, x])
        else:
            g1 = ex.call(G['grad_list'], [val_, [x]])
            g1_tags = [t.ghost.get('grad_of') if isinstance(t, STensor) else None for t in g1]
            g = ex.call(G['grad_list'], [val2, [x]])
        ob.prove('is_list', isinstance(g, list) and len(g) == d)
        if isinstance(g, list) and len(g) == d:
            for j, (gt, ct) in enumerate(zip(g, cores)):
                tag = gt.ghost.get('grad_of') if isinstance(gt, STensor) else None
                if tag is not None and tag[0] == 'accumulated':
                    ob.fail('second_call.entry%d_is_the_derivative_of_the_second_value' % j, 'post', 'the returned tensor holds the SUM of the gradients of both calls (accumulated .grad)')
                else:
                    ob.prove('second_call.entry%d_is_the_derivative_of_the_second_value' % j, bool(tag is not None and tag[0] is val2 and tag[1] is ct))
            for j, (t1, tag1) in enumerate(zip(g1, g1_tags)):
                now = t1.ghost.get('grad_of') if isinstance(t1, STensor) else None
                if now is not tag1:
                    ob.fail('first_result.entry%d_keeps_its_value' % j, 'frame', 'the tensor returned by the first call was updated in place by the second call')
                else:
                    ob.ok('first_result.entry%d_keeps_its_value' % j, 'frame')
        return
    if case == 'grad_all':
        g = ex.call(G['grad'], [val_, x])
        order = [0, 1, 2]
    elif case == 'grad_indices':
        g = ex.call(G['grad'], [val_, x, [0, 2]])
        order = [0, 2]
    elif case == 'grad_indices_permuted':
        g = ex.call(G['grad'], [val_, x, [2, 0]])
        order = [2, 0]
    elif case == 'grad_list_flat':
        y = ob.tt('y', 2, dtype='float64')
        for c in y.attrs['cores']:
            c.requires_grad = True
        v2 = ex.binop('Add', val_, ex.call(ex.getattr(y, 'sum'), []))
        g = ex.call(G['grad_list'], [v2, [x, y]])
        order = None
        want_t = list(cores) + list(y.attrs['cores'])
    else:
        y = ob.tt('y', 2, dtype='float64')
        for c in y.attrs['cores']:
            c.requires_grad = True
        v2 = ex.binop('Add', val_, ex.call(ex.getattr(y, 'sum'), []))
        # operands with different numbers of cores, in both orders
        tensors = [x, y] if case == 'grad_list_nested' else [y, x]
        g = ex.call(G['grad_list'], [v2, tensors], {'all_in_one': False})
        ob.prove('nested', isinstance(g, list) and len(g) == 2 and all(isinstance(q, list) for q in g))
        if isinstance(g, list) and len(g) == 2 and all(isinstance(q, list) for q in g):
            ob.prove('one_list_per_tensor', [len(q) for q in g] == [len(t.attrs['cores']) for t in tensors])
        g = [t for q in g for t in q] if isinstance(g, list) and all(isinstance(q, list) for q in g) else g
        order = None
        want_t = [c for t in tensors for c in t.attrs['cores']]
    if order is not None:
        want_t = [cores[k] for k in order]
    ob.prove('is_list', isinstance(g, list) and len(g) == len(want_t))
    if isinstance(g, list) and len(g) == len(want_t):
        for j, (gt, ct) in enumerate(zip(g, want_t)):
            ok = isinstance(gt, STensor) and gt.ghost.get('grad_of') is not None and gt.ghost['grad_of'][1] is ct
            ob.prove('entry%d_is_grad_of_requested_core' % j, bool(ok))
            if isinstance(gt, STensor):
                all_eq(ob, 'entry%d_shape' % j, gt.shape, ct.shape)


@scenario('C15', 'canary.item_is_transparent', 'torchtt._tt_base.TT.sum', quick=[dict()], replay=None)
def canary(ob):
    ex = ob.ex
    x = ob.tt('x', 2, dtype='float64')
    leaves = track(x)
    s = ex.call(ex.getattr(x, 'sum'), [])
    v = ex.optable.tensor_method(ex, s, 'item', [], {})
    r = ex.binop('Mult', x, v)
    check_transparent(ob, ex.call(ex.getattr(r, 'sum'), []), leaves)
    if not ex.grad_cuts:
        ob.ok('dummy')


canary.canary = True
