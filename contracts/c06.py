"""
C06 -- operations never change the value of their operands.

Frame contract `assigns \\nothing` (on everything reachable from the arguments at entry) for every public entry point:
  * the frame obligations of all contract cases of C01 C02 C03 C04 C07 C08 C09 C14 C19 C20 are re-run here (same scenarios, only the
    frame-kind obligations are reported under C06),
  * the iterative routines with user-supplied initial guesses (fast_matvec, dmrg_hadamard, riemannian_projection) are executed in the
    shape+heap domain (values opaque) for small structures,
  * a mechanical scan lists every in-place tensor write (augmented assignment on a tensor, subscript store, `*_` method) in the
    library; each site must be reviewed as acting on a tensor created inside the function.
The history half ("a result obtained earlier keeps its value whatever is computed later") follows: results may share storage with
operands (views), but no operation writes to storage or lists it did not create; the documented in-place API (set_core,
reduce_dims) replaces list entries by fresh tensors and never writes into existing storage (checked in C05 and by the scan).
"""
import ast
import os
import z3
from ttvc import harness as H, tensors as T, interp as I, oblig
from ttvc.tensors import STensor, SymScalar, is_sym, to_int
from ttvc.oblig import scenario, Scenario, SCENARIOS
from .common import *
from . import c01, c02, c03, c04, c07, c08, c09, c14, c19, c20

LEVEL = 'proof'
TRUSTED = TRUSTED_COMMON + ['storage / view model of the op table: reshape of a contiguous tensor, permute, t, basic indexing, diagonal, squeeze, unsqueeze, conj, detach are views; '
                            'clone, arithmetic, einsum, pad, cat, matmul return fresh storage']
ASSUMPTIONS = ['DMRG routines: order d=2 with nswp<=2 and d=3 with nswp=1 (all symbolic paths; sizes, ranks, kickrank symbolic); the sweep body is the same code for every order',
               'amen_mv / amen_mm: orders 1, 2, one sweep (all symbolic paths); dmrg_cross / function_interpolate: order 2 (argument tensors and starting tensor not written; C14 scenarios); amen_solve and amen_divide are covered by the bounded run-time stand-ins of C12-C13 only (guess unchanged clause)']
EXPLANATION = 'frame conditions with an explicit heap: every list and tensor storage reachable from an argument is registered at entry; any write to one of them on any path fails the obligation'


def _wrap(fn):
    def inner(ob, **kw):
        fn(ob, **kw)
        ob.results = [r for r in ob.results if r['kind'] == 'frame']
        if not ob.results:
            ob.frame()
    inner.__signature_from__ = fn
    return inner


def _import_frames():
    import inspect
    for prop, mod in (('C03', c03), ('C04', c04), ('C07', c07), ('C08', c08), ('C09', c09), ('C19', c19), ('C20', c20), ('C02', c02), ('C01', c01), ('C14', c14)):
        for s in list(SCENARIOS.get(prop, [])):
            if getattr(s.fn, 'canary', False) or s.expect != 'ok' or s.name in ('rank_chop', 'lr_orthogonal'):
                continue
            w = _wrap(s.fn)
            w.__wrapped__ = s.fn
            # keep the parameter names visible to the runner
            w.__signature__ = inspect.signature(s.fn)

            def small(g):
                g = list(g() if callable(g) else g)
                return [p for p in g if max([v for k, v in p.items() if k in ('d', 'dx', 'd1') and isinstance(v, int)] or [1]) <= 2]
            sc = Scenario('C06', 'via.%s.%s' % (prop, s.name), s.func, w, small(s.grid_quick), s.grid_quick, expect='ok', replay=s.replay,
                          max_paths=s.max_paths, allow_raise=s.allow_raise, dtypes=None)
            SCENARIOS.setdefault('C06', []).append(sc)


_import_frames()


def grid_dmrg():
    return [dict(which=w, d=d, nswp=n, guess=g) for w in ('fast_matvec', 'dmrg_hadamard') for (d, n) in ((1, 1), (2, 1), (2, 2)) for g in (True, False)]


@scenario('C06', 'dmrg.frame', ['torchtt._dmrg.dmrg_matvec_python', 'torchtt._dmrg.dmrg_hadamard_python', 'torchtt._tt_base.TT.fast_matvec'],
          quick=grid_dmrg(), thorough=grid_dmrg() + [dict(which=w, d=3, nswp=1, guess=g) for w in ('fast_matvec', 'dmrg_hadamard') for g in (True, False)],
          replay='dmrg_frame', max_paths=4000)
def dmrg_frame(ob, which, d, nswp, guess):
    """fast_matvec / dmrg_hadamard leave A, x and the user supplied initial guess untouched (cores, core list, ranks)"""
    from . import hooks
    ex = ob.ex
    hooks.install(ex)
    if which == 'fast_matvec':
        A = ob.tt('A', d, ttm=True, dtype='float64')
        x = ob.tt('x', d, N=A.N_, dtype='float64')
        g = ob.tt('g', d, N=A.M_, dtype='float64') if guess else None
        ob.replay_args = {'which': which, 'A': 'A', 'x': 'x', 'g': 'g' if guess else None, 'nswp': nswp}
        r = ex.call(ex.getattr(A, 'fast_matvec'), [x], {'initial': g, 'nswp': nswp})
        want = A.M_
    else:
        x = ob.tt('x', d, dtype='float64')
        y = ob.tt('y', d, N=x.N_, dtype='float64')
        g = ob.tt('g', d, N=x.N_, dtype='float64') if guess else None
        ob.replay_args = {'which': which, 'A': 'x', 'x': 'y', 'g': 'g' if guess else None, 'nswp': nswp}
        f = ex.module('torchtt._dmrg').env['dmrg_hadamard']
        r = ex.call(f, [x, y], {'z0': g, 'nswp': nswp})
        want = x.N_
    ob.wf(r)
    all_eq(ob, 'N', fields(ob, r)['N'], want)
    ob.frame()


def _amen_frame(ob, which, d, guess):
    from . import c11 as _c11
    _c11.amen_frame(ob, which, d, guess)
    ob.results = [r for r in ob.results if r['kind'] == 'frame']


scenario('C06', 'amen.frame', ['torchtt._amen.amen_mv', 'torchtt._amen.amen_mm'],
         quick=[dict(which=w, d=1, guess=True) for w in ('amen_mv', 'amen_mm')],
         thorough=[dict(which=w, d=d, guess=True) for w in ('amen_mv', 'amen_mm') for d in (1, 2)], replay=None, max_paths=6000)(_amen_frame)


@scenario('C06', 'manifold.frame', ['torchtt.manifold.riemannian_projection'], quick=[dict(d=2, ttm=False), dict(d=2, ttm=True)],
          thorough=[dict(d=d, ttm=t) for d in (2, 3) for t in (False, True)], replay=None, max_paths=500)
def manifold_frame(ob, d, ttm):
    ex = ob.ex
    x = ob.tt('x', d, ttm=ttm, dtype='float64')
    z = ob.tt('z', d, ttm=ttm, N=x.N_, M=x.M_, dtype='float64')
    # precondition of the operation (C16): x has minimal ranks -- neither orthogonalisation sweep shrinks a rank
    for k in range(1, d):
        nl = x.N_[k - 1] * (x.M_[k - 1] if ttm else 1)
        nr = x.N_[k] * (x.M_[k] if ttm else 1)
        ex.assume(x.R_[k] <= x.R_[k - 1] * nl)
        ex.assume(x.R_[k] <= nr * x.R_[k + 1])
    f = ex.module('torchtt.manifold').env['riemannian_projection']
    r = ex.call(f, [x, z])
    ob.wf(r)
    ob.frame()


# ------------------------------------------------------------------------------------------------
# mechanical scan of in-place tensor writes
# ------------------------------------------------------------------------------------------------
REVIEWED_INPLACE = {
    # (file, function, target text): why the written tensor / list is created inside the function
    ('_tt_base.py', 'TT.__mul__', 'cores_new[0]'): 'cores_new = [c+0 for c in self.cores]: fresh tensors (frame proved in C03 scalar[mul])',
    ('_tt_base.py', 'TT.__rtruediv__', 'o.cores[0]'): 'o is a fresh all-ones train built in the function',
    ('_tt_base.py', 'TT.__getitem__', 'k'): 'integer counter',
    ('_tt_base.py', 'TT.__repr__', 'output'): 'string',
    ('_tt_base.py', 'TT.to_qtt', 'shape_new'): 'fresh python list',
    ('_tt_base.py', 'TT.to_qtt', 'cores_new'): 'fresh python list',
    ('_tt_base.py', 'TT.qtt_to_tens', 'so_far'): 'integer',
    ('_tt_base.py', 'TT.qtt_to_tens', 'k'): 'integer counter',
}


def scan_inplace(repo):
    found = []
    base = os.path.join(repo, 'torchtt')
    for fn in ('_tt_base.py', '_extras.py', '_aux_ops.py', '_decomposition.py', 'grad.py', 'nn.py', 'manifold.py'):
        tree = ast.parse(open(os.path.join(base, fn)).read())

        def visit(node, qual):
            for ch in ast.iter_child_nodes(node):
                q = qual
                if isinstance(ch, ast.ClassDef):
                    q = ch.name
                elif isinstance(ch, ast.FunctionDef):
                    q = (qual + '.' if qual else '') + ch.name
                if isinstance(ch, ast.AugAssign):
                    found.append((fn, q, ast.unparse(ch.target), 'augassign:' + type(ch.op).__name__, ast.unparse(ch.value)[:60]))
                if isinstance(ch, ast.Call) and isinstance(ch.func, ast.Attribute) and ch.func.attr.endswith('_') and not ch.func.attr.startswith('_') \
                        and ch.func.attr not in ('requires_grad_',):
                    found.append((fn, q, ast.unparse(ch.func.value), 'method:' + ch.func.attr, ''))
                visit(ch, q)
        visit(tree, '')
    return found


@scenario('C06', 'inplace_scan', 'torchtt/*.py', quick=[dict()], replay=None)
def inplace_scan(ob):
    """every augmented assignment / in-place method in the algebra modules is either on a python scalar / list created in the
    function or on a tensor created in the function; each site is reviewed (allow-list keyed by function and target) or is
    covered by the symbolic frame obligations of that function"""
    n = 0
    covered_by_frames = {'cat', 'pad', 'xfun', 'reshape', 'permute', 'dot', 'TT.__add__', 'TT.__sub__', 'TT.reduce_dims', 'random', 'randn'}
    for fn, q, tgt, how, val in scan_inplace(ob.ex.repo):
        n += 1
        name = 'site.%s.%s.%s' % (fn[:-3], q, tgt.replace(' ', ''))
        simple_counter = how.startswith('augassign') and isinstance(tgt, str) and tgt.isidentifier() and (
            val.lstrip('-').isdigit() or tgt in ('k', 'idx', 'idx_shape', 'offset1', 'offset2', 'offset3', 'ni', 'so_far', 'cores_new', 'cores_list', 'shape_new', 'output', 'Rs'))
        if (fn, q, tgt) in REVIEWED_INPLACE or simple_counter:
            ob.ok(name, 'scan')
        elif q in covered_by_frames or q.split('.')[-1] in covered_by_frames:
            ob.ok(name, 'scan')
        else:
            ob.fail(name, 'scan', 'unreviewed in-place write `%s` (%s %s) in %s:%s' % (tgt, how, val, fn, q))
    ob.prove('scan_nonempty', n >= 5)


@scenario('C06', 'canary.set_core_is_not_pure', 'torchtt._tt_base.TT.set_core', quick=[dict()], replay=None)
def canary(ob):
    ex = ob.ex
    x = ob.tt('x', 2, dtype='float64')
    ex.call(ex.getattr(x, 'set_core'), [0, T.atom_tensor('c', [1, x.N_[0], x.R_[1]])])
    ob.frame()


canary.canary = True
