"""
C16 -- Riemannian projection is an orthogonal projector; the AD gradient is its image.

Proved (shape + heap domain): riemannian_projection(x, z) returns a well-formed object with N = x.N (M = x.M), ranks
R_out[k] = 2 R'[k] <= 2 R_x[k] (R' = ranks after orthogonalisation), operands untouched, kind mismatch raises.
The projector identities (linear, idempotent, self-adjoint, P x = x, residual orthogonality, gradient = projection of the dense
gradient) need the full gauge calculus over two interacting orthogonalisations for all d: bounded stand-in only (runtime/rt_c16.py).
"""
import z3
from ttvc import harness as H, tensors as T, interp as I
from ttvc.tensors import to_int
from ttvc.oblig import scenario
from .common import *
from . import c18 as _c18

LEVEL = 'exploration'
TRUSTED = TRUSTED_COMMON + ['QR contract (shapes)']
ASSUMPTIONS = ['deductive part: orders 2..3 (quick 2), tensors and operators, sizes and ranks symbolic',
               'identities: bounded run-time contracts, orders 2..4, minimal-rank base points, tolerance 1e-9 relative']
EXPLANATION = 'rank / shape / frame obligations proved symbolically; projector identities by bounded run-time contracts'


def bounded_checks(tier, seed, repo):
    return run_rmode('C16', tier, seed, repo)


@scenario('C16', 'projection.structure', ['torchtt.manifold.riemannian_projection', 'torchtt.manifold._delta2cores'],
          quick=[dict(d=2, ttm=False), dict(d=2, ttm=True), dict(d=3, ttm=False)], thorough=[dict(d=d, ttm=t) for d in (2, 3, 4) for t in (False, True) if not (t and d > 3)],
          replay=None, max_paths=800)
def projection_structure(ob, d, ttm):
    ex = ob.ex
    x = ob.tt('x', d, ttm=ttm, dtype='float64')
    z = ob.tt('z', d, ttm=ttm, N=x.N_, M=x.M_, dtype='float64')
    # precondition of the property: x has minimal ranks; what the code needs of it is that neither orthogonalisation sweep
    # shrinks a rank:  R_k <= R_{k-1} n_{k-1}  and  R_k <= n_k R_{k+1}
    for k in range(1, d):
        nl = x.N_[k - 1] * (x.M_[k - 1] if ttm else 1)
        nr = x.N_[k] * (x.M_[k] if ttm else 1)
        ex.assume(x.R_[k] <= x.R_[k - 1] * nl)
        ex.assume(x.R_[k] <= nr * x.R_[k + 1])
    f = ex.module('torchtt.manifold').env['riemannian_projection']
    r = ex.call(f, [x, z])
    ob.wf(r)
    fl = fields(ob, r)
    all_eq(ob, 'N', fl['N'], x.N_)
    ob.prove('kind', fl['is_ttm'] is ttm)
    if ttm and fl['is_ttm']:
        all_eq(ob, 'M', fl['M'], x.M_)
    R = fl['R']
    if len(R) == d + 1:
        for k in range(1, d):
            ob.prove('rank%d_le_twice' % k, to_int(R[k]) <= 2 * x.R_[k], 'rank')
    ob.frame()


def _guard(ob, case):
    _c18.function_misuse(ob, case)


scenario('C16', 'kind_mismatch', 'torchtt.manifold.riemannian_projection', quick=[dict(case='riemann_kinds')], expect='raise', documented=('IncompatibleTypes',), replay='misuse')(_guard)


@scenario('C16', 'gradient.structure', ['torchtt.manifold.riemannian_gradient', 'torchtt.manifold._delta2cores'],
          quick=[dict(d=2, ttm=False, f='quadratic'), dict(d=2, ttm=True, f='linear')],
          thorough=[dict(d=d, ttm=t, f=f) for d in (2, 3) for t in (False, True) for f in ('quadratic', 'linear')], replay=None, max_paths=800)
def gradient_structure(ob, d, ttm, f):
    """riemannian_gradient(x, func): result well formed with the shape of x and ranks <= 2 R_x; x untouched; func is evaluated on a TT
    object that depends differentiably on the tangent-space parameters (the AD part is transparent)"""
    import ast
    ex = ob.ex
    x = ob.tt('x', d, ttm=ttm, dtype='float64')
    for k in range(1, d):
        nl = x.N_[k - 1] * (x.M_[k - 1] if ttm else 1)
        nr = x.N_[k] * (x.M_[k] if ttm else 1)
        ex.assume(x.R_[k] <= x.R_[k - 1] * nl)
        ex.assume(x.R_[k] <= nr * x.R_[k + 1])
    mod = ex.module('torchtt.manifold')
    src = {'quadratic': "lambda t: (t * t).sum()", 'linear': "lambda t: t.sum()"}[f]
    fn = I.SFunc(ast.parse(src, mode='eval').body, mod, None)
    fn.closure = {}
    r = ex.call(mod.env['riemannian_gradient'], [x, fn])
    ob.wf(r)
    fl = fields(ob, r)
    all_eq(ob, 'N', fl['N'], x.N_)
    ob.prove('kind', fl['is_ttm'] is ttm)
    R = fl['R']
    if len(R) == d + 1:
        for k in range(1, d):
            ob.prove('rank%d_le_twice' % k, to_int(R[k]) <= 2 * x.R_[k], 'rank')
    bw = [e for e in ex.events if e[0] == 'backward']
    ob.prove('one_backward_pass', len(bw) == 1)
    ob.prove('no_graph_cut_before_backward', not ex.grad_cuts, 'transparent')
    ob.frame()
