"""
C03 -- TT-tensor arithmetic equals dense arithmetic entry for entry.

Contracts (property-level postconditions, proved on every symbolic path of the real functions, for each
order d in the property's range, with mode sizes, ranks and core entries symbolic):
  TT.__add__/__radd__/__sub__/__rsub__/__mul__/__rmul__/__neg__/__pos__/__truediv__(scalar)/__pow__/__rpow__/full
  _extras.kron/ones/zeros/eye/rank1TT/meshgrid
"""
import itertools
import z3
from ttvc import harness as H, tensors as T, interp as I
from ttvc.tensors import STensor, SymScalar, is_sym, to_int
from ttvc.terms import Term, ite, fresh_int
from ttvc.oblig import scenario
from .common import *

LEVEL = 'proof'
TRUSTED = TRUSTED_COMMON
ASSUMPTIONS = [
    'orders enumerated up to the property bound (d<=5 thorough, d<=3 quick); mode sizes, ranks, scalar values and core entries are symbolic (unbounded)',
    'numpy scalars as LEFT operands are not modelled (numpy dispatches to its own ufunc machinery)',
]
EXPLANATION = ('value postconditions val(op(x,y)) == dense_op(val x, val y) are discharged by the Sigma-term prover '
               '(range splitting at block boundaries + z3) on the terms produced by symbolically executing the real code')

OPN = {'add': 'Add', 'sub': 'Sub', 'mul': 'Mult', 'div': 'Div'}


def dense_op(op, a, b):
    return {'add': lambda: a + b, 'sub': lambda: a - b, 'mul': lambda: a * b, 'div': lambda: a / b}[op]()


def grid_same(dmax):
    return [dict(op=op, d=d) for op in ('add', 'sub', 'mul') for d in range(1, dmax + 1)]


@scenario('C03', 'binop.same', ['torchtt._tt_base.TT.__add__', 'torchtt._tt_base.TT.__sub__', 'torchtt._tt_base.TT.__mul__'],
          quick=grid_same(3), thorough=grid_same(5), dtypes=('float64', 'float32'), replay='tt_op')
def binop_same(ob, op, d):
    x = ob.tt('x', d)
    y = ob.tt('y', d, N=x.N_)
    ob.replay_args = {'op': op, 'x': 'x', 'y': 'y'}
    r = ob.ex.binop(OPN[op], x, y)
    ob.wf(r)
    f = fields(ob, r)
    all_eq(ob, 'N', f['N'], x.N_)
    if op in ('add', 'sub'):
        want = [1] + [x.R_[k] + y.R_[k] for k in range(1, d)] + [1]
    else:
        want = [1] + [x.R_[k] * y.R_[k] for k in range(1, d)] + [1]
    all_eq(ob, 'R', f['R'], want, 'rank')
    prove_dtype(ob, r, ob.dt())
    idx = mode_index(ob, r)
    ob.prove_eq('value', val(ob, r, idx), dense_op(op, val(ob, x, idx), val(ob, y, idx)))
    ob.frame()


def grid_bcast(dmax):
    out = []
    for op in ('add', 'sub', 'mul'):
        for dx in range(1, dmax + 1):
            for dy in range(1, dx + 1):
                out.append(dict(op=op, dx=dx, dy=dy))
    return out


@scenario('C03', 'binop.broadcast', ['torchtt._tt_base.TT.__add__', 'torchtt._tt_base.TT.__sub__', 'torchtt._tt_base.TT.__mul__'],
          quick=grid_bcast(3), thorough=grid_bcast(5), dtypes=('float64', 'float32'), replay='tt_op', max_paths=600)
def binop_broadcast(ob, op, dx, dy):
    """torch-style broadcasting: y has at most as many modes as x; each aligned mode of y equals x's or is 1"""
    ex = ob.ex
    x = ob.tt('x', dx)
    y = ob.tt('y', dy)
    off = dx - dy
    for k in range(dy):
        ex.assume(z3.Or(y.N_[k] == x.N_[k + off], y.N_[k] == 1))
    ob.replay_args = {'op': op, 'x': 'x', 'y': 'y'}
    r = ex.binop(OPN[op], x, y)
    ob.wf(r)
    f = fields(ob, r)
    all_eq(ob, 'N', f['N'], x.N_)
    want = [1]
    for k in range(1, dx):
        ry = y.R_[k - off] if k - off >= 1 else 1
        want.append(x.R_[k] + ry if op in ('add', 'sub') else x.R_[k] * ry)
    want.append(1)
    all_eq(ob, 'R', f['R'], want, 'rank')
    prove_dtype(ob, r, ob.dt())
    idx = mode_index(ob, r)
    yidx = []
    for k in range(dy):
        i = idx[k + off]
        if ex.pc.implied(y.N_[k] == 1):
            yidx.append(0)
        elif ex.pc.implied(y.N_[k] == x.N_[k + off]):
            yidx.append(i)
        else:
            yidx.append(z3.If(y.N_[k] == 1, 0, i))
    ob.prove_eq('value', val(ob, r, idx), dense_op(op, val(ob, x, idx), val(ob, y, yidx)))
    ob.frame()


SCALAR_KINDS = ['int', 'float', 'np.float64', 'np.int64', 'np.float32', 'tensor0', 'tensor1', 'tensor0_f32', 'tensor1_f64', 'np.uint8']
SCALAR_OPS = ['add', 'radd', 'sub', 'rsub', 'mul', 'rmul', 'div']


def grid_scalar(dmax, ttm=False):
    out = []
    for op in SCALAR_OPS:
        for kind in SCALAR_KINDS:
            if op.startswith('r') and kind.startswith('np.'):
                continue          # numpy scalar on the left: numpy's own dispatch, not modelled
            if kind == 'complex' and op == 'div':
                pass
            for d in range(1, dmax + 1):
                out.append(dict(op=op, kind=kind, d=d))
    return out


def scalar_body(ob, op, kind, d, ttm=False, prop_dtype='float64'):
    ex = ob.ex
    x = ob.tt('x', d, ttm=ttm)
    c, cterm = sym_scalar(ob, kind)
    base = op[1:] if op.startswith('r') else op
    rev = op.startswith('r')
    ob.replay_args = {'op': base, 'x': 'x', 'y': 'c', 'reverse': rev}
    if base == 'div':
        ex.assume(cterm.simple_expr() != 0)
    r = ex.binop(OPN[base], c, x) if rev else ex.binop(OPN[base], x, c)
    ob.wf(r)
    f = fields(ob, r)
    all_eq(ob, 'N', f['N'], x.N_)
    if ttm:
        all_eq(ob, 'M', f['M'], x.M_)
    want_dt = ob.dt()
    prove_dtype(ob, r, want_dt)
    idx = mode_index(ob, r)
    xv = val(ob, x, idx)
    rhs = dense_op(base, cterm, xv) if rev else dense_op(base, xv, cterm)
    ob.prove_eq('value', val(ob, r, idx), rhs)
    ob.frame()


@scenario('C03', 'scalar', ['torchtt._tt_base.TT.__add__', 'torchtt._tt_base.TT.__radd__', 'torchtt._tt_base.TT.__sub__', 'torchtt._tt_base.TT.__rsub__',
                            'torchtt._tt_base.TT.__mul__', 'torchtt._tt_base.TT.__rmul__', 'torchtt._tt_base.TT.__truediv__'],
          quick=grid_scalar(2), thorough=grid_scalar(5), dtypes=('float64', 'float32'), replay='tt_op')
def scalar(ob, op, kind, d):
    scalar_body(ob, op, kind, d)


@scenario('C03', 'unary', ['torchtt._tt_base.TT.__neg__', 'torchtt._tt_base.TT.__pos__'],
          quick=[dict(op=o, d=d) for o in ('neg', 'pos') for d in (1, 2, 3)],
          thorough=[dict(op=o, d=d) for o in ('neg', 'pos') for d in range(1, 6)], dtypes=('float64', 'float32'), replay='unary')
def unary(ob, op, d):
    ex = ob.ex
    x = ob.tt('x', d)
    ob.replay_args = {'op': op, 'x': 'x'}
    r = ex.optable.neg(ex, x) if op == 'neg' else ex.optable.pos(ex, x)
    ob.wf(r)
    f = fields(ob, r)
    all_eq(ob, 'N', f['N'], x.N_)
    all_eq(ob, 'R', f['R'], x.R_, 'rank')
    prove_dtype(ob, r, ob.dt())
    idx = mode_index(ob, r)
    xv = val(ob, x, idx)
    ob.prove_eq('value', val(ob, r, idx), -xv if op == 'neg' else xv)
    ob.frame()
    # the result is a copy: no storage shared with the operand
    shared = [k for k, (a, b) in enumerate(zip(r.attrs['cores'], x.attrs['cores'])) if a.storage is b.storage]
    if shared:
        ob.fail('fresh_storage', 'frame', 'cores %s share storage with the operand' % shared)
    else:
        ob.ok('fresh_storage', 'frame')


def grid_kron(dmax):
    out = []
    for via in ('pow', 'kron'):
        for d1 in range(1, dmax + 1):
            for d2 in range(1, dmax + 1):
                if d1 + d2 <= dmax + 1:
                    out.append(dict(via=via, d1=d1, d2=d2, ttm=False))
    out += [dict(via='pow', d1=1, d2=1, ttm=True), dict(via='kron', d1=2, d2=1, ttm=True)]
    out += [dict(via=v, d1=d, d2=0, ttm=False) for v in ('pow', 'kron', 'rpow') for d in (1, 2)]
    return out


@scenario('C03', 'kron', ['torchtt._tt_base.TT.__pow__', 'torchtt._tt_base.TT.__rpow__', 'torchtt._extras.kron'],
          quick=grid_kron(3), thorough=grid_kron(5), dtypes=('float64', 'float32'), replay='tt_op')
def kron(ob, via, d1, d2, ttm):
    """x ** y is the outer (tensor Kronecker) product: modes are concatenated, value is the product"""
    ex = ob.ex
    x = ob.tt('x', d1, ttm=ttm)
    y = ob.tt('y', d2, ttm=ttm) if d2 > 0 else None
    if y is None:
        ob.describe('y', {'kind': 'none'})
    ob.replay_args = {'op': 'kron', 'x': 'x', 'y': 'y', 'reverse': via == 'rpow'}
    if via == 'pow':
        r = ex.binop('Pow', x, y)
    elif via == 'rpow':
        r = ex.binop('Pow', y, x)      # None ** x  ->  x.__rpow__(None)
    else:
        kr = ex.module('torchtt._extras').env['kron']
        r = ex.call(kr, [x, y])
    ob.wf(r)
    f = fields(ob, r)
    all_eq(ob, 'N', f['N'], x.N_ + (y.N_ if y is not None else []))
    all_eq(ob, 'R', f['R'], x.R_ + (y.R_[1:] if y is not None else []), 'rank')
    if ttm:
        all_eq(ob, 'M', f['M'], x.M_ + (y.M_ if y is not None else []))
    idx = mode_index(ob, r)
    rhs = val(ob, x, idx[:d1])
    if y is not None:
        rhs = rhs * val(ob, y, idx[d1:])
    ob.prove_eq('value', val(ob, r, idx), rhs)
    ob.frame()
    shared = [k for k, a in enumerate(r.attrs['cores']) if a.storage.id in ex.arg_storages]
    if shared:
        ob.fail('fresh_storage', 'frame', 'cores %s share storage with an operand' % shared)
    else:
        ob.ok('fresh_storage', 'frame')


def grid_full(dmax_t, dmax_m):
    return [dict(d=d, ttm=False) for d in range(1, dmax_t + 1)] + [dict(d=d, ttm=True) for d in range(1, dmax_m + 1)]


@scenario('C03', 'full', 'torchtt._tt_base.TT.full', quick=grid_full(3, 2), thorough=grid_full(5, 4), replay='full')
def full(ob, d, ttm):
    """full() has shape N (resp. M+N) and entry [i1..id] equal to the chain value"""
    ex = ob.ex
    x = ob.tt('x', d, ttm=ttm)
    ob.replay_args = {'x': 'x'}
    t = ex.call(ex.getattr(x, 'full'), [])
    if not isinstance(t, STensor):
        ob.fail('is_tensor', 'post', 'full() returned %s' % type(t).__name__)
        return
    want = (x.M_ + x.N_) if ttm else x.N_
    all_eq(ob, 'shape', t.shape, want)
    if len(t.shape) != len(want):
        return
    ix = H.fresh_axis_index(ex, t)
    flat = [i[0] for i in ix]
    midx = list(zip(flat[:d], flat[d:])) if ttm else flat
    ob.prove_eq('value', t.at(ix), val(ob, x, midx))
    ob.frame()


def grid_factory(dmax):
    out = []
    for what in ('ones', 'zeros', 'eye', 'rank1TT', 'meshgrid'):
        for d in range(1, dmax + 1):
            out.append(dict(what=what, d=d, ttm=False))
    for what in ('ones', 'zeros', 'rank1TT'):
        for d in (1, 2):
            out.append(dict(what=what, d=d, ttm=True))
    return out


@scenario('C03', 'factory', ['torchtt._extras.ones', 'torchtt._extras.zeros', 'torchtt._extras.eye', 'torchtt._extras.rank1TT', 'torchtt._extras.meshgrid'],
          quick=grid_factory(3), thorough=grid_factory(5), replay='factory')
def factory(ob, what, d, ttm):
    ex = ob.ex
    N = H.sym_sizes(ex, 'N', d)
    M = H.sym_sizes(ex, 'M', d) if ttm else None
    ob.describe('N', N)
    ob.describe('M', M)
    ob.replay_args = {'what': what, 'ttm': ttm}
    fn = ex.module('torchtt._extras').env[what]
    shape = [(m, n) for m, n in zip(M, N)] if ttm else list(N)
    if what in ('ones', 'zeros'):
        r = ex.call(fn, [shape])
        objs = [(r, lambda idx: Term.of(1 if what == 'ones' else 0))]
    elif what == 'eye':
        r = ex.call(fn, [list(N)])
        def spec(idx):
            c = z3.And(*[i == j for i, j in idx])
            return ite(c, 1, 0)
        objs = [(r, spec)]
        ttm = True
        M = N
    elif what == 'rank1TT':
        vs = [T.atom_tensor('v%d' % k, [M[k], N[k]] if ttm else [N[k]]) for k in range(d)]
        r = ex.call(fn, [vs])
        def spec(idx):
            t = Term.of(1)
            for k in range(d):
                t = t * (vs[k].at(list(idx[k])) if ttm else vs[k].at([idx[k]]))
            return t
        objs = [(r, spec)]
    else:
        vs = [T.atom_tensor('v%d' % k, [N[k]]) for k in range(d)]
        rs = ex.call(fn, [vs])
        if not isinstance(rs, list) or len(rs) != d:
            ob.fail('meshgrid_len', 'post', 'meshgrid returned %r' % (rs,))
            return
        objs = [(rs[k], (lambda idx, k=k: vs[k].at([idx[k]]))) for k in range(d)]
    for j, (r, spec) in enumerate(objs):
        tag = '' if len(objs) == 1 else '%d.' % j
        ob.wf(r, tag + 'wf')
        f = fields(ob, r)
        all_eq(ob, tag + 'N', f['N'], N)
        if ttm:
            all_eq(ob, tag + 'M', f['M'], M)
        all_eq(ob, tag + 'R', f['R'], [1] * (d + 1), 'rank')
        idx = mode_index(ob, r)
        ob.prove_eq(tag + 'value', val(ob, r, idx), spec(idx))


# ---- canary: a deliberately false postcondition that the engine must refute (vacuity guard)
@scenario('C03', 'canary.add_is_sub', 'torchtt._tt_base.TT.__add__', quick=[dict(d=2)], replay=None)
def canary(ob, d):
    x = ob.tt('x', d)
    y = ob.tt('y', d, N=x.N_)
    r = ob.ex.binop('Add', x, y)
    idx = mode_index(ob, r)
    ob.prove_eq('value', val(ob, r, idx), val(ob, x, idx) - val(ob, y, idx))


canary.canary = True
