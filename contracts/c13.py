"""
C13 -- elementwise division inverts elementwise multiplication.

x / scalar: exact -- proved (value, frame, dtype; same contract as in C03 / C04).
x / y, scalar / y, elementwise_divide: AMEn-based; the accuracy is a convergence statement -> bounded stand-in only
(runtime/rt_c13.py), never counted as proved.  Guards of x / y (kind and shape mismatch) are must-raise obligations.
"""
import z3
from ttvc.oblig import scenario
from .common import *
from . import c03 as _c03, c18 as _c18

LEVEL = 'other'
TRUSTED = TRUSTED_COMMON
ASSUMPTIONS = ['scalar division: orders 1..5, every scalar kind, tensors and operators, sizes / ranks / values symbolic (proof)',
               'TT / TT division: bounded run-time contracts, y = 1 + z*z style denominators, orders 2..3 (quick) / 2..5 (thorough), C = 100; proved building blocks: entry points (division.entry), interface recursions / local product (orders 1..3), first local system of the real sweep (local_system.first_step, order 2)']
EXPLANATION = 'proof for division by a scalar; bounded run-time contracts for the AMEn division. coverage.obligations/discharged count the deductive part only.'


def bounded_checks(tier, seed, repo):
    return run_rmode('C13', tier, seed, repo)


def _grid(dmax):
    return [dict(kind=k, d=d, ttm=t) for k in _c03.SCALAR_KINDS for d in range(1, dmax + 1) for t in (False, True) if not (t and d > 3)]


@scenario('C13', 'scalar_division', 'torchtt._tt_base.TT.__truediv__', quick=_grid(2), thorough=_grid(5), replay='tt_op', dtypes=('float64', 'float32'))
def scalar_division(ob, kind, d, ttm):
    _c03.scalar_body(ob, 'div', kind, d, ttm=ttm)


def _guards(ob, op, d, first):
    _c18.binop_kind(ob, op, d, first)


scenario('C13', 'division.kind_mismatch', 'torchtt._tt_base.TT.__truediv__', quick=[dict(op='div', d=d, first=f) for d in (1, 2) for f in ('tt', 'ttm')],
         expect='raise', documented=_c18.DOC, replay='tt_op')(_guards)


def _size(ob, op, dx, dy, k, ttm):
    _c18.binop_size(ob, op, dx, dy, k, ttm)


scenario('C13', 'division.size_mismatch', 'torchtt._tt_base.TT.__truediv__', quick=[dict(op='div', dx=d, dy=d, k=k, ttm=False) for d in (1, 2) for k in range(d)],
         expect='raise', documented=_c18.DOC, replay='tt_op')(_size)


def _interfaces(ob, which, d, k):
    from . import c12 as _c12
    _c12.interfaces(ob, which, d, k)


scenario('C13', 'interfaces', ['torchtt._division.compute_phi_fwd_A', 'torchtt._division.compute_phi_bck_A', 'torchtt._division.compute_phi_fwd_rhs', 'torchtt._division.compute_phi_bck_rhs', 'torchtt._division.local_product'],
         quick=[dict(which='divide', d=d, k=k) for d in (1, 2, 3) for k in range(d)], replay=None, max_paths=50)(_interfaces)


def _local_system(ob, d, guess, direct):
    """call-site contract inside the real sweep of the AMEn division (same statement as C12 `local_system.first_step`, the operator
    being diag(a)): at the first local solve of amen_divide(a, b) the matrix handed to torch.linalg.solve is
         B[(l,m,L),(r,n,R)] = [m == n] * SUM_{s,S} Phis[k][l,s,r] a_k[s,m,S] Phis[k+1][L,S,R]
    and the right-hand side nrmsc * SUM Phis_b[k][b,r] b_k[b,m,B] Phis_b[k+1][B,R], over the current interfaces and the cores of the
    ARGUMENTS; iterative branch: the operator object is built from exactly Phis[k], Phis[k+1], a.cores[k], [rx_k, N_k, rx_{k+1}]"""
    from . import c12 as _c12
    _c12.local_system_body(ob, d, guess, direct, 'divide')


scenario('C13', 'local_system.first_step', ['torchtt._division.amen_divide'],
         quick=[dict(d=2, guess=g, direct=True) for g in (False, True)] + [dict(d=2, guess=False, direct=False)], replay=None, max_paths=400)(_local_system)


def _divide_hook(calls):
    """contract use of amen_divide(a, b, ...) = cores of the TT q with a * q = b (accuracy: bounded stand-in): record the operands"""
    def hook(ex, f, args, kwargs):
        a, b = args[0], args[1]
        calls.append((a, b, args[2:], kwargs))
        Rq = [1] + H.sym_sizes(ex, 'q_R%d_' % len(calls), len(b.attrs['cores']) - 1) + [1]
        N = H.tt_fields(ex, b)['N']
        return [T.opaque_tensor([Rq[k], N[k], Rq[k + 1]], b.attrs['cores'][0].dtype, 'q%d' % k) for k in range(len(N))]
    return hook


@scenario('C13', 'division.entry', ['torchtt._tt_base.TT.__truediv__', 'torchtt._tt_base.TT.__rtruediv__', 'torchtt._extras.elementwise_divide'],
          quick=[dict(form=f, d=d) for f in ('tt_div_tt', 'scalar_div_tt', 'tensor0_div_tt', 'elementwise_divide', 'elementwise_divide_guess') for d in (1, 2, 3)],
          replay='tt_op', max_paths=60)
def division_entry(ob, form, d):
    """the three entry points hand the right problem to the AMEn division: amen_divide(divisor, numerator, ...) is called once with
    the divisor y itself and with a numerator whose dense value is x (resp. the scalar s in every entry); the result is the TT built
    from the returned cores, of the shape of y; operands (and the starting tensor) are not written"""
    ex = ob.ex
    calls = []
    ex.call_hooks['torchtt._division.amen_divide'] = _divide_hook(calls)
    y = ob.tt('y', d, dtype='float64')
    x = ob.tt('x', d, N=y.N_, dtype='float64')
    sval = z3.Real('s')
    ob.replay_args = {'op': 'div', 'x': 'x', 'y': 'y', 'expect_accuracy': 1e-6}
    if form == 'tt_div_tt':
        r = ex.binop('Div', x, y)
    elif form == 'scalar_div_tt':
        r = ex.binop('Div', SymScalar(sval, 'float', 'float'), y)
    elif form == 'tensor0_div_tt':
        s0 = STensor([], 'float64', lambda idx: Term.of(sval))
        ex.register_arg(s0, 's')
        r = ex.binop('Div', s0, y)
    else:
        g = ob.tt('g', d, N=y.N_, dtype='float64') if form.endswith('guess') else None
        kw = {'starting_tensor': g} if g is not None else {}
        r = ex.call(ex.module('torchtt._extras').env['elementwise_divide'], [x, y], kw)
    ob.prove('amen_divide_called_once', len(calls) == 1)
    if len(calls) != 1:
        return
    a, b, rest, kw = calls[0]
    ob.prove('divisor_is_y', a is y)
    if not is_tt(b):
        ob.fail('numerator_is_tt', 'post', 'numerator handed to amen_divide is %r' % (b,))
        return
    ob.wf(b, 'numerator.wf') if b is not x else ob.ok('numerator.wf')
    fb = fields(ob, b)
    all_eq(ob, 'numerator.N', fb['N'], y.N_)
    if len(fb['N']) == d:
        idx = mode_index(ob, b)
        want = val(ob, x, idx) if form in ('tt_div_tt', 'elementwise_divide', 'elementwise_divide_guess') else Term.of(sval)
        ob.prove_eq('numerator.value', val(ob, b, idx), want)
    if form == 'elementwise_divide_guess':
        passed = list(rest) + list(kw.values())
        ob.prove('starting_tensor_forwarded', any(p is g for p in passed))
    ob.wf(r, 'result.wf')
    all_eq(ob, 'result.N', fields(ob, r)['N'], y.N_)
    ob.frame()
