"""
C13 -- elementwise division inverts elementwise multiplication.

x / scalar: exact -- proved (value, frame, dtype; same contract as in C03 / C04).
x / y, scalar / y, elementwise_divide: AMEn-based; the accuracy is a convergence statement -> bounded stand-in only
(runtime/rt_c13.py), never counted as proved.  Guards of x / y (kind and shape mismatch) are must-raise obligations.
"""
import z3
from ttvc.oblig import scenario
from .common import *
from . import c03 as _c03, c18 as _c18

LEVEL = 'other'
TRUSTED = TRUSTED_COMMON
ASSUMPTIONS = ['scalar division: orders 1..5, every scalar kind, tensors and operators, sizes / ranks / values symbolic (proof)',
               'TT / TT division: bounded run-time contracts, y = 1 + z*z style denominators, orders 2..3 (quick) / 2..5 (thorough), C = 100']
EXPLANATION = 'proof for division by a scalar; bounded run-time contracts for the AMEn division. coverage.obligations/discharged count the deductive part only.'


def bounded_checks(tier, seed, repo):
    return run_rmode('C13', tier, seed, repo)


def _grid(dmax):
    return [dict(kind=k, d=d, ttm=t) for k in _c03.SCALAR_KINDS for d in range(1, dmax + 1) for t in (False, True) if not (t and d > 3)]


@scenario('C13', 'scalar_division', 'torchtt._tt_base.TT.__truediv__', quick=_grid(2), thorough=_grid(5), replay='tt_op', dtypes=('float64', 'float32'))
def scalar_division(ob, kind, d, ttm):
    _c03.scalar_body(ob, 'div', kind, d, ttm=ttm)


def _guards(ob, op, d, first):
    _c18.binop_kind(ob, op, d, first)


scenario('C13', 'division.kind_mismatch', 'torchtt._tt_base.TT.__truediv__', quick=[dict(op='div', d=d, first=f) for d in (1, 2) for f in ('tt', 'ttm')],
         expect='raise', documented=_c18.DOC, replay='tt_op')(_guards)


def _size(ob, op, dx, dy, k, ttm):
    _c18.binop_size(ob, op, dx, dy, k, ttm)


scenario('C13', 'division.size_mismatch', 'torchtt._tt_base.TT.__truediv__', quick=[dict(op='div', dx=d, dy=d, k=k, ttm=False) for d in (1, 2) for k in range(d)],
         expect='raise', documented=_c18.DOC, replay='tt_op')(_size)


def _interfaces(ob, which, d, k):
    from . import c12 as _c12
    _c12.interfaces(ob, which, d, k)


scenario('C13', 'interfaces', ['torchtt._division.compute_phi_fwd_A', 'torchtt._division.compute_phi_bck_A', 'torchtt._division.compute_phi_fwd_rhs', 'torchtt._division.compute_phi_bck_rhs', 'torchtt._division.local_product'],
         quick=[dict(which='divide', d=d, k=k) for d in (1, 2, 3) for k in range(d)], replay=None, max_paths=50)(_interfaces)
