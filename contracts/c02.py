"""
C02 -- rounding never exceeds eps, never raises a rank, and leaves its operand intact.

Functions under contract: _decomposition.lr_orthogonal, round_tt, TT.round (rank_chop, SVD by their contracts).
Gauge ghost state (ttvc/gauge.py): the orthogonalisation sweep must have the QR-sweep data flow (every emitted core is the
fold of the Q factor of the left unfolding of the carried core; the carried core is R times the next core), which is the
hypothesis of the isometry lemma ||val|| = ||last core||; the truncation sweep must factorise the right unfolding of the
carried core, keep Vh_r as the new (right-orthonormal) core and absorb U_r S_r into the left neighbour -- the hypotheses of L10.
"""
import z3
from ttvc import harness as H, tensors as T, interp as I, gauge
from ttvc.tensors import STensor, SymScalar, is_sym, to_int
from ttvc.terms import Term, fresh_int, fresh_real
from ttvc.oblig import scenario
from .common import *

LEVEL = 'proof'
TRUSTED = TRUSTED_COMMON + [
    'torch.linalg.qr (reduced: Q isometric, Q R = A, no sign convention) and torch.linalg.svd contracts',
    'isometry lemma (paper): if cores 1..d-1 are left-orthonormal then ||val|| = ||last core||_F and a gauge change (Q, R G) keeps val',
    'L10 (TT rounding error, Oseledets 2011 Thm 2.2 / Alg. 2): with left-orthonormal cores to the left and right-orthonormal cores to the right of the carried core, '
    'truncating the SVD of its right unfolding changes val by exactly the discarded tail energy (in squared Frobenius norm); errors of successive truncations add -- cited; the data flow is checked',
    'contract of rank_chop as proved in C01',
]
ASSUMPTIONS = ['real arithmetic; orders d<=7 thorough (quick d<=4) for tensors, d<=4 for operators; sizes, ranks, eps >= 0, rmax (scalar or per-bond list) and all entries symbolic']
EXPLANATION = 'gauge ghost state + error ledger advanced at each truncation event; rank monotonicity from the symbolic sizes of the QR / SVD factors'


def check_lr_sweep(ob, cores_in, cores_out, qrs, tag='lr'):
    """QR-sweep pattern (hypothesis of the isometry lemma). returns the final carrier or None"""
    d = len(cores_in)
    ob.prove('%s.n_qr' % tag, len(qrs) == d - 1, 'ghost')
    if len(qrs) != d - 1:
        return None
    carrier = cores_in[0]
    ok_all = True
    for i in range(d - 1):
        A, Q, R = qrs[i]
        ok = A.ghost.get('unfold_left_of') is carrier
        ob.prove('%s.qr%d_of_left_unfolding_of_carrier' % (tag, i), bool(ok), 'ghost')
        c = cores_out[i]
        okc = c.ghost.get('fold_left_of') is Q and bool(c.ghost.get('left_orth_core'))
        ob.prove('%s.core%d_is_folded_Q' % (tag, i), bool(okc), 'ghost')
        # next carrier = fold( R @ right unfolding of the next input core )
        nxt = qrs[i + 1][0].ghost.get('unfold_left_of') if i + 1 < d - 1 else cores_out[d - 1]
        m = nxt.ghost.get('fold_right_of') if isinstance(nxt, STensor) else None
        cm = m.ghost.get('carrier_mat') if m is not None else None
        okn = cm is not None and cm['qr'] is Q.ghost['qr'] and cm['next_core'] is cores_in[i + 1]
        ob.prove('%s.carrier%d_is_R_times_next_core' % (tag, i + 1), bool(okn), 'ghost')
        ok_all = ok_all and ok and okc and okn
        carrier = nxt
    return carrier if ok_all else None


def grid_round(dmax, dmax_m):
    out = []
    for d in range(1, dmax + 1):
        out.append(dict(d=d, ttm=False, rmax='int'))
        if 2 <= d <= 4:
            out.append(dict(d=d, ttm=False, rmax='list'))
    for d in range(1, dmax_m + 1):
        out.append(dict(d=d, ttm=True, rmax='int'))
    return out


@scenario('C02', 'round', ['torchtt._tt_base.TT.round', 'torchtt._decomposition.round_tt', 'torchtt._decomposition.lr_orthogonal'],
          quick=grid_round(4, 2), thorough=grid_round(7, 4), replay='round', max_paths=600)
def round_(ob, d, ttm, rmax):
    from . import hooks
    ex = ob.ex
    # orders >= 5: SVD() is used through its contract (proved for both branches in C01 SVD.contract and re-proved below);
    # this removes the tall/wide fork at every truncation
    hooks.install(ex, svd=(d >= 5))
    x = ob.tt('x', d, ttm=ttm, dtype='float64')
    F0 = z3.Real('normx2')             # ||val(x)||_F^2
    ex.assume_ghost(F0 >= 0)
    eps = z3.Real('eps')
    ex.assume(eps >= 0)
    ex.assume(eps < 1)
    if rmax == 'int':
        rm_arg = z3.Int('rmax')
        ex.assume(rm_arg >= 1)
        rm = [1] + [rm_arg] * (d - 1) + [1]
    else:
        rm = [1] + H.sym_sizes(ex, 'rmax', d - 1) + [1]
        rm_arg = list(rm)
    ob.describe('eps', eps); ob.describe('rmax', rm_arg)
    ob.replay_args = {'x': 'x'}
    cores_in = list(x.attrs['cores'])
    y = ex.call(ex.getattr(x, 'round'), [SymScalar(eps, 'float', 'float'), rm_arg])
    ob.prove('new_object', y is not x)
    ob.wf(y)
    f = fields(ob, y)
    all_eq(ob, 'N', f['N'], x.N_)
    ob.prove('kind', f['is_ttm'] is ttm)
    if ttm and f['is_ttm']:
        all_eq(ob, 'M', f['M'], x.M_)
    R = f['R']
    ob.frame()
    if len(R) != d + 1:
        return
    for k in range(1, d):
        ob.prove('rank%d_not_raised' % k, to_int(R[k]) <= x.R_[k], 'rank')
        ob.prove('rank%d_le_rmax' % k, to_int(R[k]) <= rm[k], 'rank')
    cores = y.attrs['cores']
    if d == 1:
        idx = H.fresh_axis_index(ex, cores[0])
        ob.prove_eq('value_d1', cores[0].at(idx), cores_in[0].at(idx))
        ob.prove('copy_d1', cores[0].storage is not cores_in[0].storage)
        return
    qrs = [(e[1], e[2], e[3]) for e in ex.events if e[0] == 'qr']
    recs = [e[1] for e in ex.events if e[0] == 'svd']
    # ---- orthogonalisation sweep (inputs: the operand's cores; outputs are read off the QR / SVD records)
    lr_out = []
    for i in range(d - 1):
        q = qrs[i][1] if i < len(qrs) else None
        # the emitted left-orthonormal core i is the tensor whose left unfolding is multiplied with U S later; find it as fold of Q
        lr_out.append(None)
    # reconstruct the sweep outputs: core i is the unique fold of Q_i recorded by the interpreter
    folded = getattr(ex, 'folds', None)
    ob.prove('n_qr', len(qrs) == d - 1, 'ghost')
    ob.prove('n_svd', len(recs) == d - 1, 'ghost')
    if len(qrs) != d - 1 or len(recs) != d - 1:
        return
    # carrier chain of the QR sweep
    carrier = cores_in[0]
    ok_lr = True
    for i in range(d - 1):
        A, Q, Rm = qrs[i]
        ok = A.ghost.get('unfold_left_of') is carrier
        ob.prove('lr.qr%d_of_left_unfolding_of_carrier' % i, bool(ok), 'ghost')
        ok_lr = ok_lr and ok
        if i + 1 < d - 1:
            nxt = qrs[i + 1][0].ghost.get('unfold_left_of')
        else:
            m0 = recs[0]['A'] if not recs[0].get('transposed') else gauge.base_record(recs[0])['A']
            base_in = gauge.base_record(recs[0])['A']
            if base_in.ghost.get('unfold_right_of') is None and base_in.ghost.get('transpose_of') is not None:
                base_in = base_in.ghost['transpose_of']
            nxt = base_in.ghost.get('unfold_right_of')
        m = nxt.ghost.get('fold_right_of') if isinstance(nxt, STensor) else None
        cm = m.ghost.get('carrier_mat') if m is not None else None
        okn = cm is not None and cm['qr'] is Q.ghost['qr'] and cm['next_core'] is cores_in[i + 1]
        ob.prove('lr.carrier%d_is_R_times_next_core' % (i + 1), bool(okn), 'ghost')
        ok_lr = ok_lr and okn
        carrier = nxt
    # ---- truncation sweep, i = d-1 .. 1
    ok_tr = True
    cur = carrier            # the carried core: a 3-d/4-d tensor, or the 2-d matrix (left unfolding) it was computed as
    for step, rec in enumerate(recs):
        i = d - 1 - step
        base = gauge.base_record(rec)
        a_in = base['A']
        if a_in.ghost.get('unfold_right_of') is None and a_in.ghost.get('reunfold_of') is None and a_in.ghost.get('transpose_of') is not None:
            a_in = a_in.ghost['transpose_of']
        ok = a_in.ghost.get('unfold_right_of') is cur or (a_in.ghost.get('reunfold_of') is cur and all(gauge._same_axis(p, q) for p, q in zip(a_in.axes[:1], [a_in.axes[0]])))
        ob.prove('tr.svd%d_of_right_unfolding_of_carrier' % i, bool(ok), 'ghost')
        tr = cores[i].ghost.get('trunc')
        okc = tr is not None and gauge.base_record(tr[0]) is base and tr[1] == 'Vh' and gauge.same_rank(ex, tr[2], R[i]) and bool(cores[i].ghost.get('right_orth_core'))
        ob.prove('tr.core%d_is_folded_truncated_Vh' % i, bool(okc), 'ghost')
        # new carrier = ( left unfolding of the left-orthonormal core i-1 )  @  U_r S_r     [stored folded into cores[i-1]]
        stored = cores[i - 1] if step + 1 == len(recs) else None
        if step + 1 < len(recs):
            nb = gauge.base_record(recs[step + 1])['A']
            if nb.ghost.get('reunfold_of') is None and nb.ghost.get('unfold_right_of') is None and nb.ghost.get('transpose_of') is not None:
                nb = nb.ghost['transpose_of']
            m = nb.ghost.get('reunfold_of')
            if m is None and nb.ghost.get('unfold_right_of') is not None:
                m = nb.ghost['unfold_right_of'].ghost.get('fold_left_of')
                new = nb.ghost['unfold_right_of']
            else:
                new = m
        else:
            new = cores[0]
            m = new.ghost.get('fold_left_of')
        ab = m.ghost.get('absorb') if m is not None else None
        oka = False
        if ab is not None:
            Lmat, rec2, r2 = ab
            Lcore = Lmat.ghost.get('unfold_left_of')
            Qi = qrs[i - 1][1]
            oka = gauge.base_record(rec2) is base and gauge.same_rank(ex, r2, R[i]) and Lcore is not None and Lcore.ghost.get('fold_left_of') is Qi \
                and bool(Lcore.ghost.get('left_orth_core'))
        ob.prove('tr.carrier%d_absorbs_U_S_into_left_orthonormal_core' % (i - 1), bool(oka), 'ghost')
        ok_tr = ok_tr and ok and okc and oka
        cur = new
    if not (ok_lr and ok_tr):
        return
    # ---- lemma application: complete left gauge  ==>  ||carried last core||^2 = ||val(x)||^2
    ex.assume_ghost(gauge.base_record(recs[0])['fro2'] == F0)
    binding = []
    tails = []
    for step, rec in enumerate(recs):
        i = d - 1 - step
        b = gauge.base_record(rec)
        chop = b.get('chop')
        if chop is None:
            ob.fail('svd%d_uses_rank_chop' % i, 'ghost', 'no rank_chop event for this SVD')
            return
        ob.prove('rank%d_le_chop' % i, to_int(R[i]) <= chop, 'rank')
        for _ in ob.case(eps > 0):
            ob.prove('rank%d_le_exact_rank' % i, z3.Or(to_int(R[i]) <= b['rho'], to_int(R[i]) == 1), 'rank')
        binding.append(to_int(R[i]) < chop)
        tails.append(b['tail'](to_int(R[i])))
    for _ in ob.case(z3.Not(z3.Or(*binding))):
        def lemma(name, fact):
            ob.prove(name, fact, 'ghost')
            ex.assume_ghost(fact)
        for step, rec in enumerate(recs):
            i = d - 1 - step
            b = gauge.base_record(rec)
            lemma('ledger.norm%d_le_normx' % i, b['fro2'] <= F0)
            lemma('ledger.eps%d_share' % i, b['chop_eps'] * b['chop_eps'] * (d - 1) == eps * eps * b['fro2'])
            lemma('ledger.tail%d_le_share' % i, tails[step] * (d - 1) <= eps * eps * F0)
        ob.prove('ledger.total', z3.Sum(tails) <= eps * eps * F0, 'ghost')
    for _ in ob.case(eps == 0):
        ob.prove('eps0_exact', z3.Sum(tails) == 0, 'ghost')


@scenario('C02', 'lr_orthogonal', 'torchtt._decomposition.lr_orthogonal',
          quick=[dict(d=d, ttm=t) for d in (2, 3) for t in (False, True)], thorough=[dict(d=d, ttm=t) for d in (2, 3, 4, 5) for t in (False, True)], replay=None)
def lr_orthogonal(ob, d, ttm):
    """lr_orthogonal(cores, R, is_ttm): QR-sweep data flow, shapes, R[k] = min(R[k-1] n_{k-1}, R_old[k]); writes only the R list it is given"""
    ex = ob.ex
    x = ob.tt('x', d, ttm=ttm, dtype='float64')
    f = ex.module('torchtt._decomposition').env['lr_orthogonal']
    cores_in = list(x.attrs['cores'])
    Rarg = list(x.R_)
    out, Rout = ex.call(f, [x.attrs['cores'], Rarg, ttm])
    ob.prove('R_is_the_given_list', Rout is Rarg)
    ob.prove('fresh_core_list', out is not x.attrs['cores'] and len(out) == d)
    qrs = [(e[1], e[2], e[3]) for e in ex.events if e[0] == 'qr']
    check_lr_sweep(ob, cores_in, out, qrs)
    for k in range(d):
        modes = [x.M_[k], x.N_[k]] if ttm else [x.N_[k]]
        all_eq(ob, 'core%d_shape' % k, out[k].shape, [to_int(Rout[k])] + modes + [to_int(Rout[k + 1])])
    for k in range(1, d):
        ob.prove('rank%d_not_raised' % k, to_int(Rout[k]) <= x.R_[k], 'rank')
    ob.frame()


# the contract of rank_chop is USED by round_tt (modular verification): it is re-proved here, so that a change inside
# rank_chop that breaks its contract is reported under C02 as well
from . import c01 as _c01   # noqa: E402
scenario('C02', 'uses.SVD_contract', 'torchtt._decomposition.SVD', quick=[dict()], replay=None)(_c01.svd_contract)
scenario('C02', 'uses.rank_chop_contract', 'torchtt._decomposition.rank_chop', quick=[dict()], replay='rank_chop')(_c01.rank_chop)


@scenario('C02', 'canary.rank_strictly_lowered', 'torchtt._decomposition.round_tt', quick=[dict()], replay=None)
def canary(ob):
    """claiming that rounding always lowers a rank strictly must be refuted"""
    from . import hooks
    ex = ob.ex
    hooks.install(ex)
    x = ob.tt('x', 2, dtype='float64')
    y = ex.call(ex.getattr(x, 'round'), [1e-3])
    R = fields(ob, y)['R']
    ob.prove('too_strong', to_int(R[1]) < x.R_[1], 'rank')


canary.canary = True


def bounded_checks(tier, seed, repo):
    """floating-point RANGE assumption of the proof (floats are reals): bounded run-time check on scaled inputs, never counted as proved"""
    import json, os, subprocess
    here = os.path.dirname(os.path.dirname(os.path.abspath(__file__)))
    py = os.path.join(here, '.venv312', 'bin', 'python')
    if not os.path.exists(py):
        subprocess.run(['sh', os.path.join(here, 'setup.sh')], capture_output=True, text=True, timeout=600)
    env = dict(os.environ, PYTHONPATH=repo, PYTHONWARNINGS='ignore')
    p = subprocess.run([py, os.path.join(here, 'runtime', 'fp_range.py'), 'C02', '--tier', tier, '--seed', str(seed)], env=env, capture_output=True, text=True, timeout=900)
    lines = [l for l in p.stdout.splitlines() if l.startswith('RMODE-RESULT ')]
    if not lines:
        return [{'name': 'fp_range.C02', 'error': (p.stdout + p.stderr)[-800:], 'evaluations': 0, 'failures': []}]
    return [json.loads(lines[-1][len('RMODE-RESULT '):])]
