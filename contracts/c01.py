"""
C01 -- TT-SVD meets the requested accuracy and rank bounds for every dense input.

Functions under contract: _decomposition.rank_chop (array-quantified, every length n), SVD, to_tt, mat_to_tt,
TT.__init__ (tensor / ndarray branches).
"""
import z3
from ttvc import harness as H, tensors as T, interp as I, nparr as NP
from ttvc.tensors import STensor, SymScalar, is_sym, to_int
from ttvc.terms import Term, fresh_int, fresh_real
from ttvc.oblig import scenario
from .common import *

LEVEL = 'proof'
TRUSTED = TRUSTED_COMMON + [
    'numpy contracts used by rank_chop: s[::-1], abs, **2, cumsum (prefix sums), comparison, argmax on booleans (first True, else 0), norm(s)==0 <=> s==0',
    'torch.linalg.svd contract: U, Vh isometric, S >= 0 sorted, U diag(S) Vh = A (reduced); torch.linalg.norm = sqrt of the sum of squares',
    'L10 (TT-SVD error theorem, Oseledets 2011 Thm 2.2): in the TT-SVD dataflow (left-orthonormal emitted cores, remainder = diag(S_r) Vh_r) the squared error is at most the sum of the discarded tail energies and the k-th rank is at most the rank of the k-th unfolding -- cited, not machine checked; the engine checks that the dataflow matches the pattern',
]
ASSUMPTIONS = ['real arithmetic (no roundoff); orders d<=6 enumerated for to_tt / constructor (quick d<=4); sizes, rmax, eps and all singular values symbolic',
               'rank_chop is verified for vectors of every length n>=1 with arbitrary non-negative entries (sortedness not needed)']
EXPLANATION = 'rank_chop: array-quantified VCs with a recursively axiomatised tail energy and an explicit induction lemma; to_tt: ghost error ledger advanced at every truncation event'


def decomp(ex, name):
    return ex.module('torchtt._decomposition').env[name]


@scenario('C01', 'rank_chop', 'torchtt._decomposition.rank_chop', quick=[dict()], replay='rank_chop')
def rank_chop(ob):
    """for every n>=1, every s>=0 and every real eps:
       (a) 1 <= R <= n ;  (b) eps > 0  ==>  tail(R) = SUM_{j>=R} s_j^2 <= eps^2 ;  eps <= 0 (and s != 0) ==> R = n ;
       (c) eps > 0 and s_j = 0 for all j >= rho (rho >= 1)  ==>  R <= rho"""
    ex = ob.ex
    ex.square_uf = True
    NP.sq_axioms(ex)
    SQ = NP.SQ
    s = NP.sym_vector(ex, 'sv')
    F = s.ghost['decl']
    n = s.n
    eps = z3.Real('eps')
    ob.describe('n', n)
    ob.describe('eps', eps)
    ob.describe('s', [F(k) for k in range(8)])
    ob.replay_args = {}
    # spec function: tail energy
    Tl = z3.Function('tail', z3.IntSort(), z3.RealSort())
    j = z3.Int('j!t')
    ex.assume(Tl(n) == 0)
    ex.assume(z3.ForAll([j], z3.Implies(z3.And(j >= 0, j < n), Tl(j) == Tl(j + 1) + SQ(F(j))), patterns=[Tl(j)]))
    R = ex.call(decomp(ex, 'rank_chop'), [s, SymScalar(eps, 'float', 'np.float64')])
    if isinstance(R, SymScalar):
        R = R.expr
    R = to_int(R)
    ob.prove('range', z3.And(R >= 1, R <= n))
    cs = [e for e in ex.events if e[0] == 'cumsum']
    if cs:
        # induction lemma: the reversed cumulative sum of the reversed squares is the tail energy:  c(n-1-j) == tail(j)
        C = cs[-1][2].ghost['decl']
        k = z3.Int('k!ind')
        ob.prove('lemma.tail.base', C(0) == Tl(n - 1), 'lemma')
        for _ in ob.case(z3.And(k >= 0, k < n - 1, C(n - 2 - k) == Tl(k + 1))):
            ob.prove('lemma.tail.step', C(n - 1 - k) == Tl(k), 'lemma')
        ex.assume(z3.ForAll([j], z3.Implies(z3.And(j >= 0, j < n), C(n - 1 - j) == Tl(j)), patterns=[Tl(j)]))
    # lemma (induction downwards from n): the tail energy is non-negative
    m0 = z3.Int('m!nn')
    for _ in ob.case(z3.And(m0 >= 0, m0 < n, Tl(m0 + 1) >= 0)):
        ob.prove('lemma.tail_nonneg.step', Tl(m0) >= 0, 'lemma')
    ex.assume(z3.ForAll([j], z3.Implies(z3.And(j >= 0, j <= n), Tl(j) >= 0), patterns=[Tl(j)]))
    # lemma (induction): a zero vector has zero tail energy everywhere
    allzero = z3.ForAll([j], z3.Implies(z3.And(j >= 0, j < n), F(j) == 0), patterns=[F(j)])
    m1 = z3.Int('m!z')
    for _ in ob.case(z3.And(allzero, m1 >= 0, m1 < n, Tl(m1 + 1) == 0)):
        ob.prove('lemma.zero_vector.step', Tl(m1) == 0, 'lemma')
    ex.assume(z3.Implies(allzero, z3.ForAll([j], z3.Implies(z3.And(j >= 0, j <= n), Tl(j) == 0), patterns=[Tl(j)])))
    for _ in ob.case(eps > 0):
        ob.prove('tail_le_eps2', Tl(R) <= SQ(eps), 'ghost')
        # (c) exact-rank bound, with its own induction lemma: entries zero from rho on ==> tail(rho) == 0
        rho = z3.Int('rho')
        zero_from = z3.ForAll([j], z3.Implies(z3.And(j >= rho, j < n), F(j) == 0), patterns=[F(j)])
        for _ in ob.case(z3.And(rho >= 1, rho <= n, zero_from)):
            m = z3.Int('m!ind')
            for _ in ob.case(z3.And(m >= rho, m < n, Tl(m + 1) == 0)):
                ob.prove('lemma.zero_tail.step', Tl(m) == 0, 'lemma')
            ex.assume(z3.ForAll([j], z3.Implies(z3.And(j >= rho, j <= n), Tl(j) == 0), patterns=[Tl(j)]))
            ob.prove('rank_le_exact_rank', R <= rho, 'ghost')
    for _ in ob.case(allzero):
        ob.prove('zero_vector_rank_1', R == 1)
    for _ in ob.case(eps <= 0):
        ob.prove('no_truncation_without_eps', z3.Or(R == n, z3.ForAll([j], z3.Implies(z3.And(j >= 0, j < n), F(j) == 0))))


def check_ttsvd(ob, A, cores, R, dims, d, F0, eps, rmax_of):
    """TT-SVD dataflow (hypotheses of L10), rank bounds against rank_chop / exact rank, error ledger.
    dims[k]: size of mode k of the decomposed (possibly merged) tensor ; rmax_of(k): bound for bond k"""
    ex = ob.ex
    N = dims
    from ttvc import gauge
    recs = [e[1] for e in ex.events if e[0] == 'svd']
    ob.prove('n_svd', len(recs) == d - 1, 'ghost')
    if len(recs) != d - 1:
        return False
    # ---- data flow = TT-SVD (hypotheses of L10)
    for k, rec in enumerate(recs):
        src_t = rec['A'] if not rec.get('transposed') else rec['A']
        base = gauge.base_record(rec)
        Amat = base['A'] if base['A'] is not None else rec['A']
        # the factorised matrix: unfolding [r_k N_k, rest] of the input (k = 0) or of the previous remainder
        mat = rec['A'].ghost.get('transpose_of', rec['A']) if (rec['A'].ghost.get('transpose_of') is not None and rec is not base) else rec['A']
        real_in = mat.ghost.get('transpose_of', mat) if mat.ghost.get('transpose_of') is not None and 'reshape_of' not in mat.ghost else mat
        origin = real_in.ghost.get('reshape_of', real_in)
        if k == 0:
            ob.prove('svd0_of_input', origin is A or origin.ghost.get('copy_of') is A or origin is A.ghost.get('reshape_of'), 'ghost')
        else:
            rem = real_in.ghost.get('remainder')
            ok = rem is not None and gauge.base_record(rem[0]) is gauge.base_record(recs[k - 1]) and gauge.same_rank(ex, rem[1], R[k])
            ob.prove('svd%d_of_previous_remainder' % k, bool(ok), 'ghost')
        all_eq(ob, 'svd%d_unfolding' % k, real_in.shape, [to_int(R[k]) * N[k], T.prod(N[k + 1:])])
        tr = cores[k].ghost.get('trunc')
        ok = tr is not None and gauge.base_record(tr[0]) is gauge.base_record(rec) and tr[1] == 'U' and gauge.same_rank(ex, tr[2], R[k + 1])
        ob.prove('core%d_is_truncated_U' % k, bool(ok), 'ghost')
    rem = cores[d - 1].ghost.get('remainder')
    ok = rem is not None and gauge.base_record(rem[0]) is gauge.base_record(recs[-1]) and gauge.same_rank(ex, rem[1], R[d - 1])
    ob.prove('last_core_is_remainder', bool(ok), 'ghost')
    # ---- ranks against the rank_chop result and the exact rank
    binding = []
    for k, rec in enumerate(recs):
        b = gauge.base_record(rec)
        chop = b.get('chop') if b.get('chop') is not None else rec.get('chop')
        rho = b.get('rho') if b.get('rho') is not None else rec.get('rho')
        if chop is None:
            ob.fail('svd%d_uses_rank_chop' % k, 'ghost', 'no rank_chop event for this SVD')
            return False
        ob.prove('rank%d_le_chop' % (k + 1), to_int(R[k + 1]) <= chop, 'rank')
        ob.prove('rank%d_le_exact_rank' % (k + 1), z3.Or(to_int(R[k + 1]) <= rho, to_int(R[k + 1]) == 1), 'rank')
        binding.append(to_int(R[k + 1]) < chop)
    # ---- error ledger
    tails = [gauge.base_record(rec)['tail'](to_int(R[k + 1])) for k, rec in enumerate(recs)]
    for _ in ob.case(z3.Not(z3.Or(*binding))):
        # each step is proved and then used as a lemma for the next one (the solver is weak at nonlinear chains)
        def lemma(name, fact):
            ob.prove(name, fact, 'ghost')
            ex.assume_ghost(fact)
        for k, rec in enumerate(recs):
            b = gauge.base_record(rec)
            e = b.get('chop_eps') if b.get('chop_eps') is not None else rec.get('chop_eps')
            lemma('ledger.norm%d_le_normA' % k, b['fro2'] <= F0)
            lemma('ledger.eps%d_share' % k, e * e * (d - 1) == eps * eps * b['fro2'])
            lemma('ledger.tail%d_le_share' % k, tails[k] * (d - 1) <= eps * eps * F0)
        ob.prove('ledger.total', z3.Sum(tails) <= eps * eps * F0, 'ghost')
    return True


def grid_tt(dmax):
    return [dict(d=d, src=s) for d in range(1, dmax + 1) for s in (('torch', 'numpy') if d == 2 else ('torch',))]


@scenario('C01', 'to_tt', ['torchtt._tt_base.TT.__init__', 'torchtt._decomposition.to_tt', 'torchtt._decomposition.SVD'],
          quick=grid_tt(4), thorough=grid_tt(6), replay='tt_svd', max_paths=400)
def to_tt(ob, d, src):
    """TT(A, eps=eps, rmax=rmax): exact shape, boundary ranks 1, r_k <= rmax, r_k <= min(r_{k-1} N_{k-1}, prod N_{k:}),
    TT-SVD dataflow (hypotheses of L10), and  SUM_k tail_k(r_k) <= eps^2 ||A||^2  whenever rmax is not binding"""
    from . import hooks
    ex = ob.ex
    hooks.install(ex)
    N = H.sym_sizes(ex, 'N', d)
    A = T.atom_tensor('A', N, lib=src)
    F0 = z3.Real('normA2')
    ex.assume_ghost(F0 >= 0)
    A.ghost['fro2'] = F0
    ex.register_arg(A, 'A')
    eps = z3.Real('eps')
    ex.assume(eps > 0)
    ex.assume(eps < 1)
    rmax = z3.Int('rmax')
    ex.assume(rmax >= 1)
    ob.describe('N', N); ob.describe('eps', eps); ob.describe('rmax', rmax); ob.describe('src', src)
    ob.replay_args = {'kind': 'tt'}
    x = ex.instantiate(H.tt_class(ex), [A], {'eps': SymScalar(eps, 'float', 'float'), 'rmax': rmax})
    ob.wf(x)
    f = fields(ob, x)
    all_eq(ob, 'N', f['N'], N)
    ob.prove('kind', f['is_ttm'] is False)
    R = f['R']
    if len(R) != d + 1:
        return
    cores = x.attrs['cores']
    for k in range(1, d):
        ob.prove('rank%d_le_rmax' % k, to_int(R[k]) <= rmax, 'rank')
        ob.prove('rank%d_le_left' % k, to_int(R[k]) <= to_int(R[k - 1]) * N[k - 1], 'rank')
        ob.prove('rank%d_le_right' % k, to_int(R[k]) <= T.prod(N[k:]), 'rank')
    if d == 1:
        idx = H.fresh_axis_index(ex, cores[0])
        ob.prove_eq('value_d1', cores[0].at(idx), A.at([idx[1]]))
        ob.frame()
        return
    if not check_ttsvd(ob, A, cores, R, N, d, F0, eps, lambda k: rmax):
        return
    ob.frame()


@scenario('C01', 'ctor.dtype', ['torchtt._tt_base.TT.__init__', 'torchtt._decomposition.to_tt', 'torchtt._decomposition.mat_to_tt'],
          quick=[dict(src=s, dtype=dt, ttm=t) for s in ('torch', 'numpy') for dt in ('float32', 'complex128', 'complex64') for t in (False, True)], replay='tt_svd', max_paths=400)
def ctor_dtype(ob, src, dtype, ttm):
    """the decomposition keeps the dtype of the dense source (torch and numpy sources, tensors and operators): no core of another
    dtype and no cast that discards an imaginary part on the way"""
    from . import hooks
    ex = ob.ex
    hooks.install(ex)
    d = 2
    N = H.sym_sizes(ex, 'N', d)
    M = H.sym_sizes(ex, 'M', d) if ttm else None
    A = T.atom_tensor('A', (M + N) if ttm else N, dtype, lib=src)
    ex.register_arg(A, 'A')
    eps = z3.Real('eps')
    ex.assume(eps > 0)
    ex.assume(eps < 1)
    ob.describe('N', N); ob.describe('M', M); ob.describe('eps', eps); ob.describe('src', src); ob.describe('dtype', dtype)
    ob.replay_args = {'kind': 'ttm' if ttm else 'tt'}
    args = [A, [(m, n) for m, n in zip(M, N)]] if ttm else [A]
    x = ex.instantiate(H.tt_class(ex), args, {'eps': SymScalar(eps, 'float', 'float')})
    ob.wf(x)
    prove_dtype(ob, x, dtype)
    lossy = [t for k, t in ex.notes if k == 'lossy_cast']
    if lossy:
        ob.fail('no_lossy_cast', 'dtype', 'a cast on the way discards information: %s' % lossy[0])
    else:
        ob.ok('no_lossy_cast', 'dtype')
    ob.frame()


@scenario('C01', 'to_tt.rmax_list', ['torchtt._tt_base.TT.__init__', 'torchtt._decomposition.to_tt'],
          quick=[dict(d=d, shape=s) for d in (2, 3) for s in (False, True)], thorough=[dict(d=d, shape=s) for d in (2, 3, 4, 5) for s in (False, True)],
          replay='tt_svd', max_paths=400)
def to_tt_rmax_list(ob, d, shape):
    """per-bond rmax list [1, r_1, ..., r_{d-1}, 1]: bond k is limited by rmax[k]; optional explicit shape argument"""
    from . import hooks
    ex = ob.ex
    hooks.install(ex)
    N = H.sym_sizes(ex, 'N', d)
    if shape:
        # the dense input has another (flat) shape with the same number of elements
        A = T.atom_tensor('A', [T.sz(T.prod(N))])
        A.axes[0] = T.Axis(T.sz(T.prod(N)), [T.Factor(n) for n in N])
    else:
        A = T.atom_tensor('A', N)
    F0 = z3.Real('normA2')
    ex.assume_ghost(F0 >= 0)
    A.ghost['fro2'] = F0
    ex.register_arg(A, 'A')
    eps = z3.Real('eps')
    ex.assume(eps > 0)
    ex.assume(eps < 1)
    rm = [1] + H.sym_sizes(ex, 'rmax', d - 1) + [1]
    ob.describe('N', N); ob.describe('eps', eps); ob.describe('rmax', rm); ob.describe('src', 'torch'); ob.describe('shape_arg', shape)
    ob.replay_args = {'kind': 'tt'}
    kw = {'eps': SymScalar(eps, 'float', 'float'), 'rmax': list(rm)}
    if shape:
        kw['shape'] = list(N)
        ex.register_arg(kw['shape'], 'shape')      # the caller's list: must be neither written nor kept by the object
    ex.register_arg(kw['rmax'], 'rmax')
    x = ex.instantiate(H.tt_class(ex), [A], kw)
    ob.wf(x)
    f = fields(ob, x)
    all_eq(ob, 'N', f['N'], N)
    R = f['R']
    if len(R) != d + 1:
        return
    for k in range(1, d):
        ob.prove('rank%d_le_rmax%d' % (k, k), to_int(R[k]) <= rm[k], 'rank')
    check_ttsvd(ob, A, x.attrs['cores'], R, N, d, F0, eps, lambda k: rm[k])
    ob.frame()


@scenario('C01', 'mat_to_tt', ['torchtt._tt_base.TT.__init__', 'torchtt._decomposition.mat_to_tt', 'torchtt._decomposition.to_tt'],
          quick=[dict(d=d, src='torch') for d in (1, 2, 3)] + [dict(d=2, src='numpy')], thorough=[dict(d=d, src=s) for d in (1, 2, 3, 4) for s in ('torch', 'numpy')],
          replay='tt_svd', max_paths=400)
def mat_to_tt(ob, d, src):
    """TT(A, shape=[(M1,N1),...]): exact operator shape, rank bounds, and the cores are the un-interleaved cores of the TT-SVD of
    the tensor with merged modes (M_k N_k), for which the to_tt contract gives the error bound (||.|| is invariant under the permutation)"""
    from . import hooks
    ex = ob.ex
    hooks.install(ex)
    M = H.sym_sizes(ex, 'M', d)
    N = H.sym_sizes(ex, 'N', d)
    A = T.atom_tensor('A', M + N, lib=src)
    F0 = z3.Real('normA2')
    ex.assume_ghost(F0 >= 0)
    A.ghost['fro2'] = F0
    ex.register_arg(A, 'A')
    eps = z3.Real('eps')
    ex.assume(eps > 0)
    ex.assume(eps < 1)
    rmax = z3.Int('rmax')
    ex.assume(rmax >= 1)
    ob.describe('N', N); ob.describe('M', M); ob.describe('eps', eps); ob.describe('rmax', rmax); ob.describe('src', src)
    ob.replay_args = {'kind': 'ttm'}
    captured = {}
    to_tt_f = decomp(ex, 'to_tt')

    def record(ex_, f, args, kwargs):
        del ex_.call_hooks['torchtt._decomposition.to_tt']
        try:
            r = ex_.call_sfunc(f, args, kwargs)
        finally:
            ex_.call_hooks['torchtt._decomposition.to_tt'] = record
        captured['ttv'] = list(r[0])
        captured['R'] = list(r[1])
        captured['A'] = args[0]
        return r
    ex.call_hooks['torchtt._decomposition.to_tt'] = record
    x = ex.instantiate(H.tt_class(ex), [A], {'shape': [(m, n) for m, n in zip(M, N)], 'eps': SymScalar(eps, 'float', 'float'), 'rmax': rmax})
    ob.wf(x)
    f = fields(ob, x)
    ob.prove('kind', f['is_ttm'] is True)
    if not f['is_ttm']:
        return
    all_eq(ob, 'M', f['M'], M)
    all_eq(ob, 'N', f['N'], N)
    R = f['R']
    cores = x.attrs['cores']
    if d == 1:
        idx = H.fresh_axis_index(ex, cores[0])
        ob.prove_eq('value_d1', cores[0].at(idx), A.at([idx[1], idx[2]]))
        ob.frame()
        return
    if 'ttv' not in captured:
        ob.fail('uses_to_tt', 'ghost', 'mat_to_tt did not call to_tt')
        return
    ttv = captured['ttv']
    all_eq(ob, 'R', R, captured['R'], 'rank')
    for k in range(1, d):
        ob.prove('rank%d_le_rmax' % k, to_int(R[k]) <= rmax, 'rank')
    # the tensor handed to to_tt is the mode-interleaved input:  B[(m1,n1),...,(md,nd)] == A[m1..md, n1..nd]   (same Frobenius norm)
    B = captured['A']
    all_eq(ob, 'merged_shape', B.shape, [m * n for m, n in zip(M, N)])
    if len(B.shape) == d and all(len(ax.factors) == 2 for ax in B.axes):
        bi = H.fresh_axis_index(ex, B)
        ob.prove_eq('interleave', B.at(bi), A.at([i[0] for i in bi] + [i[1] for i in bi]))
    ob.prove('norm_preserved', B.ghost.get('fro2') is not None and B.ghost['fro2'] is F0, 'ghost')
    # un-interleave of every core: cores[k][a, m, n, b] == ttv[k][a, (m, n), b]
    for k in range(d):
        c, t = cores[k], ttv[k]
        all_eq(ob, 'core%d_shape' % k, c.shape, [to_int(R[k]), M[k], N[k], to_int(R[k + 1])])
        if c.ndim == 4 and len(t.axes) == 3:
            ci = H.fresh_axis_index(ex, c)
            if len(t.axes[1].factors) == 2:
                mid = (ci[1][0], ci[2][0])
            else:
                mid = ci[1][0] * N[k] + ci[2][0]        # flat index (unit factors were absorbed)
            ob.prove_eq('core%d_uninterleave' % k, c.at(ci), t.at([ci[0], mid, ci[3]]))
        else:
            ob.fail('core%d_uninterleave' % k, 'value', 'unexpected structure: core ndim %d, TT-SVD core axes %s' % (c.ndim, t.axes))
    check_ttsvd(ob, B, ttv, R, [m * n for m, n in zip(M, N)], d, F0, eps, lambda k: rmax)
    ob.frame()


@scenario('C01', 'SVD.contract', 'torchtt._decomposition.SVD', quick=[dict()], replay=None)
def svd_contract(ob):
    """SVD(mat) returns (U, S, Vh) of the reduced SVD of mat in BOTH branches (the tall branch factorises mat^T and returns
    (v^T, s, u^T)): shapes m x k, k, k x n with k = min(m, n); U has orthonormal columns, Vh orthonormal rows; the three factors
    belong to one SVD record of `mat` (roles U, S, Vh), so that U diag(S) Vh = mat.  This contract is used (instead of the body)
    by the rounding proofs of order >= 5."""
    from ttvc import gauge
    ex = ob.ex
    m, n = H.sym_sizes(ex, 'm', 1)[0], H.sym_sizes(ex, 'n', 1)[0]
    A = T.atom_tensor('A', [m, n])
    U, S, V = ex.call(decomp(ex, 'SVD'), [A])
    k = z3.If(m <= n, m, n)
    all_eq(ob, 'U_shape', U.shape, [m, k])
    all_eq(ob, 'S_shape', S.shape, [k])
    all_eq(ob, 'V_shape', V.shape, [k, n])
    ob.prove('U_orthonormal_columns', bool(U.ghost.get('orth_cols')), 'ghost')
    ob.prove('Vh_orthonormal_rows', bool(V.ghost.get('orth_rows')), 'ghost')
    recU, recS, recV = U.ghost.get('svd'), S.ghost.get('svd'), V.ghost.get('svd')
    ok = recU is not None and recS is not None and recV is not None and gauge.base_record(recU) is gauge.base_record(recV) is gauge.base_record(recS)
    ob.prove('one_record', bool(ok), 'ghost')
    if ok:
        ob.prove('roles', U.ghost.get('role') == 'U' and V.ghost.get('role') == 'Vh' and S.ghost.get('role') == 'S', 'ghost')
        # the record (in the orientation of the returned U) factorises `mat` itself
        a_of = recU['A'] if recU['A'] is not None else None
        ob.prove('factorises_the_argument', a_of is A, 'ghost')


def bounded_checks(tier, seed, repo):
    """floating-point RANGE assumption of the proof (floats are reals): bounded run-time check on scaled inputs, never counted as proved"""
    import json, os, subprocess
    here = os.path.dirname(os.path.dirname(os.path.abspath(__file__)))
    py = os.path.join(here, '.venv312', 'bin', 'python')
    if not os.path.exists(py):
        subprocess.run(['sh', os.path.join(here, 'setup.sh')], capture_output=True, text=True, timeout=600)
    env = dict(os.environ, PYTHONPATH=repo, PYTHONWARNINGS='ignore')
    p = subprocess.run([py, os.path.join(here, 'runtime', 'fp_range.py'), 'C01', '--tier', tier, '--seed', str(seed)], env=env, capture_output=True, text=True, timeout=900)
    lines = [l for l in p.stdout.splitlines() if l.startswith('RMODE-RESULT ')]
    if not lines:
        return [{'name': 'fp_range.C01', 'error': (p.stdout + p.stderr)[-800:], 'evaluations': 0, 'failures': []}]
    return [json.loads(lines[-1][len('RMODE-RESULT '):])]
