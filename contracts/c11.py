"""
C11 -- DMRG and AMEn products approximate the exact product within eps.

No contract within reach expresses "a randomised alternating sweep has converged to within C*eps" (these methods have no
inductive invariant that implies it), so the ACCURACY clause is decided by a bounded stand-in only: run-time contracts
(icontract) on the real fast_matvec, dmrg_hadamard, amen_mv, amen_mm over an enumerated family (runtime/rt_c11.py) -- never
counted as proved.  Proved deductively (shape + heap domain, all symbolic paths): for the DMRG routines of order 1 and 2
(nswp <= 2): no exception for any compatible operands (including zero products, order 1, wide / tall QR), result well formed
with N = A.M (resp. x.N), operands and the user-supplied initial guess untouched.
"""
import z3
from ttvc import harness as H, tensors as T, interp as I
from ttvc.oblig import scenario
from .common import *
from ttvc.terms import fresh_int
from ttvc.tensors import to_int, STensor
from . import c06 as _c06

LEVEL = 'exploration'
TRUSTED = TRUSTED_COMMON + ['contracts of rank_chop, SVD, QR (shapes only)']
ASSUMPTIONS = ['accuracy clause: bounded run-time contracts only: orders 1..3 (quick) / 1..6 (thorough), sizes {1,2,3,5}, ranks {1,2,3}, eps {1e-2,1e-6,1e-10}, with / without initial guess, real and complex (DMRG), constant C = 50',
               'deductive part: DMRG routines for orders 1, 2 (nswp <= 2) and 3 (nswp = 1); sizes, ranks, kickrank symbolic; AMEn products only through their argument guards (C18) and the bounded stand-in']
EXPLANATION = 'bounded run-time contracts for the accuracy; symbolic no-raise / shape / frame obligations for the DMRG routines'


def bounded_checks(tier, seed, repo):
    return run_rmode('C11', tier, seed, repo)


scenario('C11', 'dmrg.no_raise_shape_frame', ['torchtt._dmrg.dmrg_matvec_python', 'torchtt._dmrg.dmrg_hadamard_python', 'torchtt._tt_base.TT.fast_matvec'],
         quick=_c06.grid_dmrg(), thorough=_c06.grid_dmrg() + [dict(which=w, d=3, nswp=1, guess=g) for w in ('fast_matvec', 'dmrg_hadamard') for g in (True, False)],
         replay='dmrg_frame', max_paths=4000)(_c06.dmrg_frame)


def grid_amen():
    return [dict(which=w, d=d, guess=g) for w in ('amen_mv', 'amen_mm') for d in (1, 2) for g in (False, True)]


@scenario('C11', 'amen.no_raise_shape_frame', ['torchtt._amen.amen_mv', 'torchtt._amen.amen_mm', 'torchtt._amen._amen_mm_python'],
          quick=[g for g in grid_amen() if g['d'] == 1 or not g['guess']], thorough=grid_amen(), replay=None, max_paths=6000)
def amen_frame(ob, which, d, guess):
    """amen_mv / amen_mm (one sweep; sizes, ranks symbolic; all value-dependent branches explored): no exception for compatible
    operands, result well formed with the shape of the exact product, operands and the initial guess untouched"""
    from . import hooks
    ex = ob.ex
    hooks.install(ex)
    A = ob.tt('A', d, ttm=True, dtype='float64')
    f = ex.module('torchtt._amen').env[which]
    if which == 'amen_mv':
        x = ob.tt('x', d, N=A.N_, dtype='float64')
        g = ob.tt('g', d, N=A.M_, dtype='float64') if guess else None
        r = ex.call(f, [A, x], {'nswp': 1, 'x0': g})
        ob.wf(r)
        fl = fields(ob, r)
        ob.prove('kind', fl['is_ttm'] is False)
        all_eq(ob, 'N', fl['N'], A.M_)
    else:
        B = ob.tt('B', d, ttm=True, M=A.N_, dtype='float64')
        g = ob.tt('g', d, ttm=True, M=A.M_, N=B.N_, dtype='float64') if guess else None
        r = ex.call(f, [A, B], {'nswp': 1, 'X0': g})
        ob.wf(r)
        fl = fields(ob, r)
        ob.prove('kind', fl['is_ttm'] is True)
        if fl['is_ttm']:
            all_eq(ob, 'M', fl['M'], A.M_)
            all_eq(ob, 'N', fl['N'], B.N_)
    ob.frame()


def _interfaces(ob, which, d, k):
    from . import c12 as _c12
    _c12.interfaces(ob, which, d, k)


scenario('C11', 'interfaces', ['torchtt._amen._compute_phi_fwd_AB', 'torchtt._amen._compute_phi_bck_AB', 'torchtt._amen._compute_phi_fwd_x', 'torchtt._amen._compute_phi_bck_x', 'torchtt._amen._local_AB'],
         quick=[dict(which='mm', d=d, k=k) for d in (1, 2, 3) for k in range(d)], replay=None, max_paths=50)(_interfaces)


@scenario('C11', 'dmrg.supercore', ['torchtt._dmrg.dmrg_matvec_python', 'torchtt._dmrg.dmrg_hadamard_python'],
          quick=[dict(which=w, guess=g) for w in ('fast_matvec', 'dmrg_hadamard') for g in (False, True)], replay='dmrg_frame', max_paths=400)
def dmrg_supercore(ob, which, guess):
    """order 2, complex operands: in the first sweep the matrix that is handed to the SVD (and truncated by rank_chop) is, entry by
    entry, the complex conjugate of the exact product  (A x)[m0, m1]  resp.  (x * y)[n0, n1]  -- whatever the initial guess is.
    (For higher orders the super-core is the projection of the product on the current interfaces; not stated here.)"""
    from . import hooks
    ex = ob.ex
    hooks.install(ex)
    svd_args = []

    def spy(ex_, f, args, kwargs):
        svd_args.append(args[0])
        return NotImplemented               # the body of SVD() is executed as usual
    ex.call_hooks['torchtt._decomposition.SVD'] = spy
    d = 2
    if which == 'fast_matvec':
        A = ob.tt('A', d, ttm=True, dtype='complex128')
        x = ob.tt('x', d, N=A.N_, dtype='complex128')
        g = ob.tt('g', d, N=A.M_, dtype='complex128') if guess else None
        ob.replay_args = {'which': which, 'A': 'A', 'x': 'x', 'g': 'g' if guess else None, 'nswp': 2, 'check_value': True}
        r = ex.call(ex.getattr(A, 'fast_matvec'), [x], {'initial': g, 'nswp': 1})
        out_sizes = A.M_
    else:
        A = ob.tt('x', d, dtype='complex128')
        x = ob.tt('y', d, N=A.N_, dtype='complex128')
        g = ob.tt('g', d, N=A.N_, dtype='complex128') if guess else None
        ob.replay_args = {'which': which, 'A': 'x', 'x': 'y', 'g': 'g' if guess else None, 'nswp': 2, 'check_value': True}
        r = ex.call(ex.module('torchtt._dmrg').env['dmrg_hadamard'], [A, x], {'z0': g, 'nswp': 1})
        out_sizes = A.N_
    ob.prove('one_truncated_svd', len(svd_args) == 1)
    if len(svd_args) != 1:
        return
    W = svd_args[0]
    if not isinstance(W, STensor) or W._val is None or W.ndim != 2:
        ob.undecided('supercore_is_the_conjugated_product', 'value', 'value of the SVD input is not tracked')
        return
    ob.prove('supercore_shape', z3.And(to_int(W.shape[0]) == out_sizes[0], to_int(W.shape[1]) == out_sizes[1]), 'shape')
    i0, i1 = fresh_int('m0'), fresh_int('m1')
    ex.assume(z3.And(i0 >= 0, i0 < out_sizes[0], i1 >= 0, i1 < out_sizes[1]))
    fa, fb = W.axes[0].factors, W.axes[1].factors
    ia = tuple(i0 if not T.known_eq(f.size, 1) else 0 for f in fa) if sum(1 for f in fa if not T.known_eq(f.size, 1)) <= 1 else None
    ib = tuple(i1 if not T.known_eq(f.size, 1) else 0 for f in fb) if sum(1 for f in fb if not T.known_eq(f.size, 1)) <= 1 else None
    if ia is None or ib is None:
        ob.undecided('supercore_is_the_conjugated_product', 'value', 'unexpected factor structure of the SVD input')
        return
    got = W.at([ia, ib])
    if which == 'fast_matvec':
        n0, n1 = fresh_int('n0'), fresh_int('n1')
        want = (val(ob, A, [(i0, n0), (i1, n1)]) * val(ob, x, [n0, n1])).summed(n0, A.N_[0]).summed(n1, A.N_[1])
    else:
        want = val(ob, A, [i0, i1]) * val(ob, x, [i0, i1])
    ob.prove_eq('supercore_is_the_conjugated_product', got, want.conj())
    ob.wf(r)
    ob.frame()
