"""
C11 -- DMRG and AMEn products approximate the exact product within eps.

No contract within reach expresses "a randomised alternating sweep has converged to within C*eps" (these methods have no
inductive invariant that implies it), so the ACCURACY clause is decided by a bounded stand-in only: run-time contracts
(icontract) on the real fast_matvec, dmrg_hadamard, amen_mv, amen_mm over an enumerated family (runtime/rt_c11.py) -- never
counted as proved.  Proved deductively (shape + heap domain, all symbolic paths): for the DMRG routines of order 1 and 2
(nswp <= 2): no exception for any compatible operands (including zero products, order 1, wide / tall QR), result well formed
with N = A.M (resp. x.N), operands and the user-supplied initial guess untouched; the order-2 super-core of the first sweep is the
conjugated exact product (dmrg.supercore); amen_mv / amen_mm hand the operands' own cores to the sweep routine and its first local
product uses them with the current interfaces (amen.entry); the interface recursions / local product equal the dense form (interfaces).
"""
import z3
from ttvc import harness as H, tensors as T, interp as I
from ttvc.oblig import scenario
from .common import *
from ttvc.terms import fresh_int
from ttvc.tensors import to_int, STensor
from . import c06 as _c06

LEVEL = 'exploration'
TRUSTED = TRUSTED_COMMON + ['contracts of rank_chop, SVD, QR (shapes only)']
ASSUMPTIONS = ['accuracy clause: bounded run-time contracts only: orders 1..3 (quick) / 1..6 (thorough), sizes {1,2,3,5}, ranks {1,2,3}, eps {1e-2,1e-6,1e-10}, with / without initial guess, real and complex (DMRG), constant C = 50',
               'deductive part: DMRG routines for orders 1, 2 (nswp <= 2) and 3 (nswp = 1); sizes, ranks, kickrank symbolic; AMEn products (amen_mv / amen_mm): no-raise / shape / frame for orders 1, 2 (one sweep), the interface recursions and local product against the dense form (orders 1..3), and the call-site contract amen.entry (order 2: the sweep routine and its first local product work on the cores of the operands themselves); the sweep itself (rank adaption, convergence) only through the bounded stand-in']
EXPLANATION = 'bounded run-time contracts for the accuracy; symbolic no-raise / shape / frame obligations for the DMRG routines'


def bounded_checks(tier, seed, repo):
    return run_rmode('C11', tier, seed, repo)


scenario('C11', 'dmrg.no_raise_shape_frame', ['torchtt._dmrg.dmrg_matvec_python', 'torchtt._dmrg.dmrg_hadamard_python', 'torchtt._tt_base.TT.fast_matvec'],
         quick=_c06.grid_dmrg(), thorough=_c06.grid_dmrg() + [dict(which=w, d=3, nswp=1, guess=g) for w in ('fast_matvec', 'dmrg_hadamard') for g in (True, False)],
         replay='dmrg_frame', max_paths=4000)(_c06.dmrg_frame)


def grid_amen():
    return [dict(which=w, d=d, guess=g) for w in ('amen_mv', 'amen_mm') for d in (1, 2) for g in (False, True)]


@scenario('C11', 'amen.no_raise_shape_frame', ['torchtt._amen.amen_mv', 'torchtt._amen.amen_mm', 'torchtt._amen._amen_mm_python'],
          quick=[g for g in grid_amen() if g['d'] == 1 or not g['guess']], thorough=grid_amen(), replay=None, max_paths=6000)
def amen_frame(ob, which, d, guess):
    """amen_mv / amen_mm (one sweep; sizes, ranks symbolic; all value-dependent branches explored): no exception for compatible
    operands, result well formed with the shape of the exact product, operands and the initial guess untouched"""
    from . import hooks
    ex = ob.ex
    hooks.install(ex)
    A = ob.tt('A', d, ttm=True, dtype='float64')
    f = ex.module('torchtt._amen').env[which]
    if which == 'amen_mv':
        x = ob.tt('x', d, N=A.N_, dtype='float64')
        g = ob.tt('g', d, N=A.M_, dtype='float64') if guess else None
        r = ex.call(f, [A, x], {'nswp': 1, 'x0': g})
        ob.wf(r)
        fl = fields(ob, r)
        ob.prove('kind', fl['is_ttm'] is False)
        all_eq(ob, 'N', fl['N'], A.M_)
    else:
        B = ob.tt('B', d, ttm=True, M=A.N_, dtype='float64')
        g = ob.tt('g', d, ttm=True, M=A.M_, N=B.N_, dtype='float64') if guess else None
        r = ex.call(f, [A, B], {'nswp': 1, 'X0': g})
        ob.wf(r)
        fl = fields(ob, r)
        ob.prove('kind', fl['is_ttm'] is True)
        if fl['is_ttm']:
            all_eq(ob, 'M', fl['M'], A.M_)
            all_eq(ob, 'N', fl['N'], B.N_)
    ob.frame()


@scenario('C11', 'amen.entry', ['torchtt._amen.amen_mv', 'torchtt._amen.amen_mm', 'torchtt._amen._amen_mm_python'],
          quick=[dict(which=w, d=2, guess=g) for w in ('amen_mv', 'amen_mm') for g in (False, True)],
          thorough=[dict(which=w, d=d_, guess=g) for w in ('amen_mv', 'amen_mm') for d_ in (2, 3) for g in (False, True)], replay=None, max_paths=2000)
def amen_entry(ob, which, d, guess):
    """caller / callee contracts along the path from the public entry point to the first local product:
       * amen_mv / amen_mm hand the operands' OWN cores to the sweep routine (amen_mm: the two core lists element by element, amen_mv: A's
         cores and the right-hand side's cores viewed as [r, n, 1, R] with the same entries) together with their mode sizes -- the
         product that is approximated is the product of the arguments, not of compressed or converted copies;
       * the first local product of the first sweep is `_local_AB(Phis_rhs[k], Phis_rhs[k+1], A_cores[k], B_cores[k])` with k = 0, the
         current interfaces of the sweep and the cores that were handed in (what `_local_AB` and the interface updates compute
         is the scenario `interfaces`).  The path ends at that call: nothing after it is claimed."""
    from . import hooks
    ex = ob.ex
    hooks.install(ex)
    A = ob.tt('A', d, ttm=True, dtype='float64')
    if which == 'amen_mv':
        B = ob.tt('x', d, N=A.N_, dtype='float64')
        g = ob.tt('g', d, N=A.M_, dtype='float64') if guess else None
    else:
        B = ob.tt('B', d, ttm=True, M=A.N_, dtype='float64')
        g = ob.tt('g', d, ttm=True, M=A.M_, N=B.N_, dtype='float64') if guess else None
    Ac, Bc = list(A.attrs['cores']), list(B.attrs['cores'])
    state = {}

    def same(name, got, want):
        """`got` is the tensor `want` or a copy of it (same shape, same entries) -- a copy is a harmless refactoring, a compressed or
        converted tensor is not"""
        if got is want:
            ob.ok(name, 'post')
            return
        if not (isinstance(got, STensor) and got.ndim == want.ndim and got._val is not None and got.dtype == want.dtype):
            ob.fail(name, 'post', 'expected the tensor %s (or a copy), got %r' % (getattr(want, 'name', '?'), got))
            return
        all_eq(ob, name + '.shape', got.shape, want.shape)
        i = H.fresh_axis_index(ex, want)
        ob.prove_eq(name + '.value', got.at(i), want.at(i))

    def same_list(name, got, want):
        ok = isinstance(got, list) and len(got) == len(want)
        ob.prove(name + '.length', ok)
        if ok:
            for k_, (x_, y_) in enumerate(zip(got, want)):
                same('%s[%d]' % (name, k_), x_, y_)

    def on_sweep(ex_, f_, args, kwargs):
        if 'sweep' in state:
            return NotImplemented
        state['sweep'] = True
        a_cores, b_cores, M, N, K = args[0], args[1], args[2], args[3], args[4]
        same_list('sweep_gets_the_cores_of_A', a_cores, Ac)
        if which == 'amen_mm':
            same_list('sweep_gets_the_cores_of_B', b_cores, Bc)
            all_eq(ob, 'sweep.N', list(N), B.N_)
        else:
            ok = isinstance(b_cores, list) and len(b_cores) == d and all(isinstance(c, STensor) and c.ndim == 4 for c in b_cores)
            ob.prove('sweep_gets_4d_views_of_the_cores_of_x', ok)
            if ok:
                for k, (c4, c3) in enumerate(zip(b_cores, Bc)):
                    all_eq(ob, 'sweep.x_core%d.shape' % k, c4.shape, [c3.shape[0], c3.shape[1], 1, c3.shape[2]])
                    if c4._val is not None:
                        i = H.fresh_axis_index(ex_, c3)
                        ob.prove_eq('sweep.x_core%d.value' % k, c4.at([i[0], i[1], (0,), i[2]]), c3.at(i))
            all_eq(ob, 'sweep.N', list(N), [1] * d)
        all_eq(ob, 'sweep.M', list(M), A.M_)
        all_eq(ob, 'sweep.K', list(K), A.N_)
        state['a_cores'], state['b_cores'] = a_cores, b_cores
        return NotImplemented

    def on_local(ex_, f_, args, kwargs):
        fr = None
        for fr_ in reversed(ex_.frames):
            if fr_.func is not None and fr_.func.qualname.endswith('_amen_mm_python'):
                fr = fr_
                break
        if fr is None or 'sweep' not in state:
            return NotImplemented
        L = fr.locals
        k = L['k']
        ob.prove('first_local_product_is_core_0', k == 0)
        same('local.left_interface_is_Phis_rhs_k', args[0], L['Phis_rhs'][k])
        same('local.right_interface_is_Phis_rhs_k_plus_1', args[1], L['Phis_rhs'][k + 1])
        same('local.core_of_A_is_the_operand_core', args[2], state['a_cores'][k])
        same('local.core_of_B_is_the_operand_core', args[3], state['b_cores'][k])
        state['local'] = True
        raise I.PathEnd()
    ex.call_hooks['torchtt._amen._amen_mm_python'] = on_sweep
    ex.call_hooks['torchtt._amen._local_AB'] = on_local
    f = ex.module('torchtt._amen').env[which]
    ex.call(f, [A, B], {'nswp': 1, ('x0' if which == 'amen_mv' else 'X0'): g})
    ob.fail('local_product_reached', 'post', 'the sweep finished without a local product')


def _interfaces(ob, which, d, k):
    from . import c12 as _c12
    _c12.interfaces(ob, which, d, k)


scenario('C11', 'interfaces', ['torchtt._amen._compute_phi_fwd_AB', 'torchtt._amen._compute_phi_bck_AB', 'torchtt._amen._compute_phi_fwd_x', 'torchtt._amen._compute_phi_bck_x', 'torchtt._amen._local_AB'],
         quick=[dict(which='mm', d=d, k=k) for d in (1, 2, 3) for k in range(d)], replay=None, max_paths=50)(_interfaces)


@scenario('C11', 'dmrg.supercore', ['torchtt._dmrg.dmrg_matvec_python', 'torchtt._dmrg.dmrg_hadamard_python'],
          quick=[dict(which=w, guess=g) for w in ('fast_matvec', 'dmrg_hadamard') for g in (False, True)], replay='dmrg_frame', max_paths=400)
def dmrg_supercore(ob, which, guess):
    """order 2, complex operands: in the first sweep the matrix that is handed to the SVD (and truncated by rank_chop) is, entry by
    entry, the complex conjugate of the exact product  (A x)[m0, m1]  resp.  (x * y)[n0, n1]  -- whatever the initial guess is.
    (For higher orders the super-core is the projection of the product on the current interfaces; not stated here.)"""
    from . import hooks
    ex = ob.ex
    hooks.install(ex)
    svd_args = []

    def spy(ex_, f, args, kwargs):
        svd_args.append(args[0])
        return NotImplemented               # the body of SVD() is executed as usual
    ex.call_hooks['torchtt._decomposition.SVD'] = spy
    d = 2
    if which == 'fast_matvec':
        A = ob.tt('A', d, ttm=True, dtype='complex128')
        x = ob.tt('x', d, N=A.N_, dtype='complex128')
        g = ob.tt('g', d, N=A.M_, dtype='complex128') if guess else None
        ob.replay_args = {'which': which, 'A': 'A', 'x': 'x', 'g': 'g' if guess else None, 'nswp': 2, 'check_value': True}
        r = ex.call(ex.getattr(A, 'fast_matvec'), [x], {'initial': g, 'nswp': 1})
        out_sizes = A.M_
    else:
        A = ob.tt('x', d, dtype='complex128')
        x = ob.tt('y', d, N=A.N_, dtype='complex128')
        g = ob.tt('g', d, N=A.N_, dtype='complex128') if guess else None
        ob.replay_args = {'which': which, 'A': 'x', 'x': 'y', 'g': 'g' if guess else None, 'nswp': 2, 'check_value': True}
        r = ex.call(ex.module('torchtt._dmrg').env['dmrg_hadamard'], [A, x], {'z0': g, 'nswp': 1})
        out_sizes = A.N_
    ob.prove('one_truncated_svd', len(svd_args) == 1)
    if len(svd_args) != 1:
        return
    W = svd_args[0]
    if not isinstance(W, STensor) or W._val is None or W.ndim != 2:
        ob.undecided('supercore_is_the_conjugated_product', 'value', 'value of the SVD input is not tracked')
        return
    ob.prove('supercore_shape', z3.And(to_int(W.shape[0]) == out_sizes[0], to_int(W.shape[1]) == out_sizes[1]), 'shape')
    i0, i1 = fresh_int('m0'), fresh_int('m1')
    ex.assume(z3.And(i0 >= 0, i0 < out_sizes[0], i1 >= 0, i1 < out_sizes[1]))
    fa, fb = W.axes[0].factors, W.axes[1].factors
    ia = tuple(i0 if not T.known_eq(f.size, 1) else 0 for f in fa) if sum(1 for f in fa if not T.known_eq(f.size, 1)) <= 1 else None
    ib = tuple(i1 if not T.known_eq(f.size, 1) else 0 for f in fb) if sum(1 for f in fb if not T.known_eq(f.size, 1)) <= 1 else None
    if ia is None or ib is None:
        ob.undecided('supercore_is_the_conjugated_product', 'value', 'unexpected factor structure of the SVD input')
        return
    got = W.at([ia, ib])
    if which == 'fast_matvec':
        n0, n1 = fresh_int('n0'), fresh_int('n1')
        want = (val(ob, A, [(i0, n0), (i1, n1)]) * val(ob, x, [n0, n1])).summed(n0, A.N_[0]).summed(n1, A.N_[1])
    else:
        want = val(ob, A, [i0, i1]) * val(ob, x, [i0, i1])
    ob.prove_eq('supercore_is_the_conjugated_product', got, want.conj())
    ob.wf(r)
    ob.frame()
