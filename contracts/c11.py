"""
C11 -- DMRG and AMEn products approximate the exact product within eps.

No contract within reach expresses "a randomised alternating sweep has converged to within C*eps" (these methods have no
inductive invariant that implies it), so the ACCURACY clause is decided by a bounded stand-in only: run-time contracts
(icontract) on the real fast_matvec, dmrg_hadamard, amen_mv, amen_mm over an enumerated family (runtime/rt_c11.py) -- never
counted as proved.  Proved deductively (shape + heap domain, all symbolic paths): for the DMRG routines of order 1 and 2
(nswp <= 2): no exception for any compatible operands (including zero products, order 1, wide / tall QR), result well formed
with N = A.M (resp. x.N), operands and the user-supplied initial guess untouched.
"""
import z3
from ttvc import harness as H, tensors as T, interp as I
from ttvc.oblig import scenario
from .common import *
from . import c06 as _c06

LEVEL = 'exploration'
TRUSTED = TRUSTED_COMMON + ['contracts of rank_chop, SVD, QR (shapes only)']
ASSUMPTIONS = ['accuracy clause: bounded run-time contracts only: orders 1..3 (quick) / 1..6 (thorough), sizes {1,2,3,5}, ranks {1,2,3}, eps {1e-2,1e-6,1e-10}, with / without initial guess, real and complex (DMRG), constant C = 50',
               'deductive part: DMRG routines for orders 1, 2 (nswp <= 2) and 3 (nswp = 1); sizes, ranks, kickrank symbolic; AMEn products only through their argument guards (C18) and the bounded stand-in']
EXPLANATION = 'bounded run-time contracts for the accuracy; symbolic no-raise / shape / frame obligations for the DMRG routines'


def bounded_checks(tier, seed, repo):
    return run_rmode('C11', tier, seed, repo)


scenario('C11', 'dmrg.no_raise_shape_frame', ['torchtt._dmrg.dmrg_matvec_python', 'torchtt._dmrg.dmrg_hadamard_python', 'torchtt._tt_base.TT.fast_matvec'],
         quick=[g for g in _c06.grid_dmrg() if g['nswp'] == 1], thorough=_c06.grid_dmrg() + [dict(which='fast_matvec', d=3, nswp=1, guess=True)],
         replay='dmrg_frame', max_paths=4000)(_c06.dmrg_frame)
