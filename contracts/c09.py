"""
C09 -- cat, pad, diag, mprod, to_ttm, conj, clone are exact.
"""
import itertools
import z3
from ttvc import harness as H, tensors as T, interp as I
from ttvc.tensors import STensor, SymScalar, is_sym, to_int
from ttvc.terms import Term, ite, fresh_int
from ttvc.oblig import scenario
from .common import *
from .c04 import sum_over

LEVEL = 'proof'
TRUSTED = TRUSTED_COMMON
ASSUMPTIONS = ['orders d<=4 (quick d<=3), 2..3 operands for cat, every concatenation axis, paddings on every trailing subset of modes with symbolic widths >= 0 and symbolic fill value; sizes, ranks, entries symbolic',
               'diag of an operator is stated for square modes (M_k = N_k)']
EXPLANATION = 'value postconditions against the dense operation, proved by cases on the position of the index (block of cat / inside-outside pattern of pad)'


def extras(ex, name):
    return ex.module('torchtt._extras').env[name]


def grid_cat(dmax, pmax):
    return [dict(d=d, p=p, dim=dim) for d in range(1, dmax + 1) for p in range(2, pmax + 1) for dim in range(d)]


@scenario('C09', 'cat', 'torchtt._extras.cat', quick=grid_cat(3, 2) + [dict(d=2, p=3, dim=1)], thorough=grid_cat(4, 3), dtypes=('float64', 'float32'), replay='cat')
def cat(ob, d, p, dim):
    ex = ob.ex
    N = H.sym_sizes(ex, 'N', d)
    ts = []
    for j in range(p):
        Nj = list(N)
        Nj[dim] = H.sym_sizes(ex, 't%d_n' % j, 1)[0]
        ts.append(ob.tt('t%d' % j, d, N=Nj))
    ob.replay_args = {'tensors': ['t%d' % j for j in range(p)], 'dim': dim}
    r = ex.call(extras(ex, 'cat'), [tuple(ts), dim])
    ob.wf(r)
    f = fields(ob, r)
    want = list(N)
    want[dim] = sum(t.N_[dim] for t in ts[1:]) + ts[0].N_[dim]
    all_eq(ob, 'N', f['N'], want)
    all_eq(ob, 'R', f['R'], [1] + [sum(t.R_[k] for t in ts[1:]) + ts[0].R_[k] for k in range(1, d)] + [1], 'rank')
    prove_dtype(ob, r, ob.dt())
    if len(f['N']) == d:
        idx = mode_index(ob, r)
        off = 0
        for j, t in enumerate(ts):
            cond = z3.And(idx[dim] >= off, idx[dim] < off + t.N_[dim])
            for _ in ob.case(cond):
                sub = list(idx)
                sub[dim] = idx[dim] - off
                ob.prove_eq('value.block%d' % j, val(ob, r, idx), val(ob, t, sub))
            off = off + t.N_[dim]
    ob.frame()


@scenario('C09', 'cat.mixed_dtype', 'torchtt._extras.cat', quick=[dict(d=d, first=f) for d in (1, 2) for f in ('real', 'complex')], replay='cat')
def cat_mixed(ob, d, first):
    """operands of different dtypes in one call (torch.cat promotes): a real and a complex tensor give the complex concatenation"""
    ex = ob.ex
    N = H.sym_sizes(ex, 'N', d)
    dts = ('float64', 'complex128') if first == 'real' else ('complex128', 'float64')
    ts = []
    for j in range(2):
        Nj = list(N)
        Nj[0] = H.sym_sizes(ex, 't%d_n' % j, 1)[0]
        ts.append(ob.tt('t%d' % j, d, N=Nj, dtype=dts[j]))
    ob.replay_args = {'tensors': ['t0', 't1'], 'dim': 0}
    r = ex.call(extras(ex, 'cat'), [tuple(ts), 0])
    ob.wf(r)
    prove_dtype(ob, r, 'complex128')
    f = fields(ob, r)
    if len(f['N']) == d and all(c._val is not None for c in r.attrs['cores']):
        idx = mode_index(ob, r)
        off = 0
        for j, t in enumerate(ts):
            for _ in ob.case(z3.And(idx[0] >= off, idx[0] < off + t.N_[0])):
                sub = list(idx)
                sub[0] = idx[0] - off
                ob.prove_eq('value.block%d' % j, val(ob, r, idx), val(ob, t, sub))
            off = off + t.N_[0]
    ob.frame()


def grid_pad(dmax, ttm):
    out = []
    for d in range(1, dmax + 1):
        for k in range(1, d + 1):
            out.append(dict(d=d, k=k, ttm=ttm))
    return out


@scenario('C09', 'pad.tensor', 'torchtt._extras.pad', quick=grid_pad(3, False), thorough=grid_pad(4, False), dtypes=('float64', 'float32'), replay='pad')
def pad_tensor(ob, d, k, ttm):
    """constant padding of the last k modes with a symbolic fill value"""
    ex = ob.ex
    x = ob.tt('x', d)
    lo = H.sym_sizes(ex, 'lo', k, 0)
    hi = H.sym_sizes(ex, 'hi', k, 0)
    v = z3.Real('fill')
    ob.describe('padding', [[a, b] for a, b in zip(lo, hi)])
    ob.describe('value', v)
    ob.replay_args = {'x': 'x'}
    r = ex.call(extras(ex, 'pad'), [x, tuple((a, b) for a, b in zip(lo, hi)), SymScalar(v, 'float', 'float')])
    ob.wf(r)
    f = fields(ob, r)
    want = list(x.N_)
    for j in range(k):
        m = d - k + j
        want[m] = lo[j] + x.N_[m] + hi[j]
    all_eq(ob, 'N', f['N'], want)
    if len(f['N']) == d:
        idx = mode_index(ob, r)
        inside = [z3.And(idx[d - k + j] >= lo[j], idx[d - k + j] < lo[j] + x.N_[d - k + j]) for j in range(k)]
        for pat in itertools.product([True, False], repeat=k):
            cond = z3.And(*[c if p else z3.Not(c) for c, p in zip(inside, pat)])
            for _ in ob.case(cond):
                if all(pat):
                    sub = list(idx)
                    for j in range(k):
                        sub[d - k + j] = idx[d - k + j] - lo[j]
                    ob.prove_eq('value.inside', val(ob, r, idx), val(ob, x, sub))
                else:
                    ob.prove_eq('value.outside', val(ob, r, idx), Term.of(v))
    ob.frame()


@scenario('C09', 'pad.operator', 'torchtt._extras.pad', quick=grid_pad(2, True), thorough=grid_pad(3, True), dtypes=('float64', 'float32'), replay='pad')
def pad_operator(ob, d, k, ttm):
    """block-diagonal padding of an operator: original block kept, leading / trailing corner = value * identity, rest zero"""
    ex = ob.ex
    x = ob.tt('x', d, ttm=True)
    lo = H.sym_sizes(ex, 'lo', k, 0)
    hi = H.sym_sizes(ex, 'hi', k, 0)
    v = z3.Real('fill')
    ob.describe('padding', [[a, b] for a, b in zip(lo, hi)])
    ob.describe('value', v)
    ob.replay_args = {'x': 'x'}
    r = ex.call(extras(ex, 'pad'), [x, tuple((a, b) for a, b in zip(lo, hi)), SymScalar(v, 'float', 'float')])
    ob.wf(r)
    f = fields(ob, r)
    wantN, wantM = list(x.N_), list(x.M_)
    for j in range(k):
        m = d - k + j
        wantN[m] = lo[j] + x.N_[m] + hi[j]
        wantM[m] = lo[j] + x.M_[m] + hi[j]
    ob.prove('kind', f['is_ttm'] is True)
    if not f['is_ttm']:
        return
    all_eq(ob, 'N', f['N'], wantN)
    all_eq(ob, 'M', f['M'], wantM)
    if len(f['N']) != d:
        return
    idx = mode_index(ob, r)
    regions = []
    for j in range(k):
        m, n = idx[d - k + j]
        kk = d - k + j
        regions.append({
            'in': z3.And(m >= lo[j], m < lo[j] + x.M_[kk], n >= lo[j], n < lo[j] + x.N_[kk]),
            'lead': z3.And(m < lo[j], n < lo[j]),
            'trail': z3.And(m >= lo[j] + x.M_[kk], n >= lo[j] + x.N_[kk]),
        })
    for pat in itertools.product(['in', 'lead', 'trail', 'off'], repeat=k):
        conds = []
        for reg, p in zip(regions, pat):
            conds.append(reg[p] if p != 'off' else z3.Not(z3.Or(reg['in'], reg['lead'], reg['trail'])))
        for _ in ob.case(z3.And(*conds)):
            if all(p == 'in' for p in pat):
                sub = list(idx)
                for j in range(k):
                    m, n = idx[d - k + j]
                    sub[d - k + j] = (m - lo[j], n - lo[j])
                ob.prove_eq('value.inside', val(ob, r, idx), val(ob, x, sub))
            elif k == d and all(p == 'lead' for p in pat):
                delta = z3.And(*[m == n for m, n in idx])
                ob.prove_eq('value.corner.lead', val(ob, r, idx), ite(delta, Term.of(v), 0))
            elif k == d and all(p == 'trail' for p in pat):
                # identity of the trailing corner block: equal offsets inside the block (rows start at lo+M, columns at lo+N)
                delta = z3.And(*[m - (lo[j] + x.M_[j]) == n - (lo[j] + x.N_[j]) for j, (m, n) in enumerate(idx)])
                ob.prove_eq('value.corner.trail', val(ob, r, idx), ite(delta, Term.of(v), 0))
            else:
                # mixed regions, and every region outside the block when some mode has no padding (empty corners)
                ob.prove_eq('value.zero', val(ob, r, idx), Term.zero())
    ob.frame()


@scenario('C09', 'diag', 'torchtt._extras.diag', quick=[dict(d=d, ttm=t) for d in (1, 2, 3) for t in (False, True)],
          thorough=[dict(d=d, ttm=t) for d in (1, 2, 3, 4) for t in (False, True)], dtypes=('float64', 'float32'), replay='unary')
def diag(ob, d, ttm):
    ex = ob.ex
    if ttm:
        N = H.sym_sizes(ex, 'x_N', d)
        x = ob.tt('x', d, ttm=True, N=N, M=N)
    else:
        x = ob.tt('x', d)
    ob.replay_args = {'op': 'diag', 'x': 'x'}
    r = ex.call(extras(ex, 'diag'), [x])
    ob.wf(r)
    f = fields(ob, r)
    ob.prove('kind', f['is_ttm'] is (not ttm))
    if f['is_ttm'] is ttm:
        return
    all_eq(ob, 'N', f['N'], x.N_)
    all_eq(ob, 'R', f['R'], x.R_, 'rank')
    idx = mode_index(ob, r)
    if ttm:
        ob.prove_eq('value', val(ob, r, idx), val(ob, x, [(i, i) for i in idx]))
    else:
        all_eq(ob, 'M', f['M'], x.N_)
        delta = z3.And(*[m == n for m, n in idx])
        for _ in ob.case(delta):
            ob.prove_eq('value.diagonal', val(ob, r, idx), val(ob, x, [m for m, n in idx]))
        for _ in ob.case(z3.Not(delta)):
            ob.prove_eq('value.offdiagonal', val(ob, r, idx), Term.zero())
    ob.frame()


def grid_mprod(dmax):
    out = []
    for d in range(1, dmax + 1):
        for m in range(d):
            out.append(dict(d=d, modes=(m,), form='int'))
        for r in (1, 2, 3):
            for c in itertools.combinations(range(d), r):
                out.append(dict(d=d, modes=tuple(c), form='list'))
        if d >= 2:
            out.append(dict(d=d, modes=(1, 0), form='list'))
        # a mode may be listed more than once: the factors act one after the other
        out.append(dict(d=d, modes=(0, 0), form='list'))
        if d >= 2:
            out.append(dict(d=d, modes=(1, 0, 1), form='list'))
    return out


@scenario('C09', 'mprod', 'torchtt._tt_base.TT.mprod', quick=grid_mprod(3), thorough=grid_mprod(4), dtypes=('float64', 'float32'), replay='mprod')
def mprod(ob, d, modes, form):
    ex = ob.ex
    x = ob.tt('x', d)
    L = H.sym_sizes(ex, 'L', len(modes))
    cur = list(x.N_)
    Fs = []
    for j, m in enumerate(modes):
        Fs.append(T.atom_tensor('F%d' % j, [L[j], cur[m]], ob.dt()))      # factor j acts on the current size of mode m
        cur[m] = L[j]
    for j, F in enumerate(Fs):
        ex.register_arg(F, 'F%d' % j)
    ob.describe('L', L)
    ob.replay_args = {'x': 'x', 'modes': list(modes), 'form': form}
    if form == 'int':
        r = ex.call(ex.getattr(x, 'mprod'), [Fs[0], modes[0]])
    else:
        r = ex.call(ex.getattr(x, 'mprod'), [Fs, list(modes)])
    ob.wf(r)
    f = fields(ob, r)
    want = list(cur)
    all_eq(ob, 'N', f['N'], want)
    all_eq(ob, 'R', f['R'], x.R_, 'rank')
    if len(f['N']) == d:
        idx = mode_index(ob, r)

        def g(js):
            # js[j] = column index of factor j; its row index is the column index of the next factor on the same mode (or the result index)
            sub = list(idx)
            t = Term.of(1)
            nxt = {}
            for j in reversed(range(len(modes))):
                m = modes[j]
                t = t * Fs[j].at([nxt.get(m, idx[m]), js[j]])
                nxt[m] = js[j]
            for m, v in nxt.items():
                sub[m] = v
            return t * val(ob, x, sub)
        ob.prove_eq('value', val(ob, r, idx), sum_over(ex, [F.shape[1] for F in Fs], g))
    ob.frame()


@scenario('C09', 'views', ['torchtt._tt_base.TT.to_ttm', 'torchtt._tt_base.TT.conj', 'torchtt._tt_base.TT.clone'],
          quick=[dict(op=o, d=d, ttm=t) for o in ('to_ttm', 'conj', 'clone') for d in (1, 2, 3) for t in ((False,) if o == 'to_ttm' else (False, True))],
          thorough=[dict(op=o, d=d, ttm=t) for o in ('to_ttm', 'conj', 'clone') for d in (1, 2, 3, 4) for t in ((False,) if o == 'to_ttm' else (False, True))],
          replay='unary')
def views(ob, op, d, ttm):
    ex = ob.ex
    dtype = 'complex128' if op == 'conj' else 'float64'
    x = ob.tt('x', d, ttm=ttm, dtype=dtype)
    ob.replay_args = {'op': op, 'x': 'x'}
    r = ex.call(ex.getattr(x, op), [])
    ob.wf(r)
    f = fields(ob, r)
    all_eq(ob, 'N', f['N'], x.N_ if op != 'to_ttm' else [1] * d)
    all_eq(ob, 'R', f['R'], x.R_, 'rank')
    prove_dtype(ob, r, dtype)
    idx = mode_index(ob, r)
    if op == 'to_ttm':
        ob.prove('kind', f['is_ttm'] is True)
        if f['is_ttm']:
            all_eq(ob, 'M', f['M'], x.N_)
            ob.prove_eq('value', val(ob, r, idx), val(ob, x, [m for m, n in idx]))
    elif op == 'conj':
        ob.prove_eq('value', val(ob, r, idx), val(ob, x, idx).conj())
    else:
        ob.prove_eq('value', val(ob, r, idx), val(ob, x, idx))
        shared = [k for k, (a, b) in enumerate(zip(r.attrs['cores'], x.attrs['cores'])) if a.storage is b.storage]
        if shared:
            ob.fail('fresh_storage', 'frame', 'clone shares storage of cores %s' % shared)
        else:
            ob.ok('fresh_storage', 'frame')
    ob.frame()


@scenario('C09', 'canary.cat_blocks_swapped', 'torchtt._extras.cat', quick=[dict(d=2)], replay=None)
def canary(ob, d):
    ex = ob.ex
    a = ob.tt('a', d)
    b = ob.tt('b', d, N=[H.sym_sizes(ex, 'bn', 1)[0]] + a.N_[1:])
    r = ex.call(extras(ex, 'cat'), [(a, b), 0])
    idx = mode_index(ob, r)
    for _ in ob.case(idx[0] < b.N_[0]):
        ob.prove_eq('value', val(ob, r, idx), val(ob, b, idx))


canary.canary = True
