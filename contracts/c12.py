"""
C12 -- AMEn solve returns a solution with relative residual at most eps.

The residual clause is a convergence statement about a randomised alternating sweep with inexact local solves: no contract
within reach decides it.  Bounded stand-in (runtime/rt_c12.py: run-time contracts on the real amen_solve over SPD / diagonally
dominant / Laplacian-like / convection-dominated systems, every preconditioner, local solver and max_full setting) -- never counted
as proved.
Deductive part (functions the sweep is built from, each against a spec function, all sizes / ranks / entries symbolic):
  * local_operator.matvec: the operator handed to GMRES / BiCGSTAB is the projected operator B composed with the stored
    preconditioner, matvec(x) = vec(B(P(x))), for prec in {None, 'c', 'r'} and apply_prec in {True, False}; operands not written;
  * interfaces: the forward / backward interface recursions and the local product close to the dense forms <y, A x> and <b, x> at every
    sweep position (orders 1..3), for the solver, the elementwise division (_division) and the AMEn product (_amen) helpers;
  * the argument guards of amen_solve (must-raise obligations shared with C18).
"""
import z3
from ttvc import harness as H, tensors as T, interp as I
from ttvc.oblig import scenario
from .common import *
from . import c18 as _c18
from .c04 import sum_over
from ttvc.tensors import STensor, SymScalar, to_int
from ttvc.terms import Term
from ttvc.terms import fresh_int

LEVEL = 'other'
TRUSTED = TRUSTED_COMMON
ASSUMPTIONS = ['bounded: orders 2..3 (quick) / 2..5 (thorough), sizes 2..6, operator ranks 1..3, rhs ranks 1..3, eps in {1e-4,1e-8}, preconditioner in {None,c,r}, max_full in {0,500}, local_solver in {1,2}, with / without x0, constant C = 100',
               'deductive part: the local operator (_LinearOp) for every preconditioner option, the interface recursions and local products of solvers / _division / _amen at orders 1..3, the argument guards, and the call-site contract local_system.first_step (order 2, with / without guess, direct and iterative branch: the first local system of the real sweep, entered through the public wrapper, is assembled from the current interfaces and the cores of the arguments); NOT the rest of the sweep (rank adaption, residual tests, inexact local solves, the number of sweeps -- open finding KF-nswp-C12)',
               'the opt_einsum fast path of _LinearOp for local problems with more than 1e4..1e5 unknowns is excluded by a size precondition; torch.linalg.inv enters as an opaque tensor']
EXPLANATION = 'function-against-spec-function obligations (Sigma-term prover) for the building blocks of the AMEn sweep; bounded run-time contracts (icontract) on the real amen_solve for the residual clause; must-raise obligations for the guards'


def bounded_checks(tier, seed, repo):
    return run_rmode('C12', tier, seed, repo)


def _guards(ob, case):
    _c18.function_misuse(ob, case)


scenario('C12', 'guards', 'torchtt.solvers.amen_solve', quick=[dict(case=c) for c in ('amen_solve_types', 'amen_solve_kinds', 'amen_solve_square', 'amen_solve_shape')],
         expect='raise', replay='misuse')(_guards)


def grid_solve():
    out = []
    for prec in (None, 'c', 'r'):
        for max_full in (0, 500):
            for ls in (1, 2):
                if max_full == 500 and ls == 2:
                    continue
                out.append(dict(d=2, prec=prec, max_full=max_full, local_solver=ls, guess=(prec is None)))
    return out


@scenario('C12', 'amen_solve.no_raise_shape_frame', ['torchtt.solvers.amen_solve', 'torchtt.solvers._amen_solve_python', 'torchtt.solvers._LinearOp'],
          quick=[], thorough=[], replay=None, max_paths=8000)
def amen_solve_structure(ob, d, prec, max_full, local_solver, guess):
    """NOT REGISTERED (empty grids): the number of symbolic paths of one AMEn-solve sweep (value-dependent residual tests, norm
    corrections, tall/wide factorizations) exceeds 6000 for d = 2 and did not finish in 50 minutes; kept for a later session.
    amen_solve (one sweep; sizes, ranks symbolic; all value-dependent branches explored; local iterative solvers by their
    ASSUMED shape contract): no exception for a compatible square system, result well formed with N = b.N, A, b and the
    initial guess untouched"""
    from . import hooks
    ex = ob.ex
    hooks.install(ex)
    hooks.install_solvers(ex)
    ex.havoc_range_loops = True      # the residual-driven truncation search loop `for r in range(u.shape[1]-1, 0, -1)` (loop contract)
    N = H.sym_sizes(ex, 'n', d)
    A = ob.tt('A', d, ttm=True, N=N, M=N, dtype='float64')
    b = ob.tt('b', d, N=N, dtype='float64')
    g = ob.tt('g', d, N=N, dtype='float64') if guess else None
    f = ex.module('torchtt.solvers').env['amen_solve']
    r = ex.call(f, [A, b], {'nswp': 1, 'x0': g, 'use_cpp': False, 'preconditioner': prec, 'max_full': max_full, 'local_solver': local_solver})
    ob.wf(r)
    fl = fields(ob, r)
    ob.prove('kind', fl['is_ttm'] is False)
    all_eq(ob, 'N', fl['N'], N)
    ob.frame()


@scenario('C12', 'local_operator.matvec', ['torchtt.solvers._LinearOp.__init__', 'torchtt.solvers._LinearOp.matvec', 'torchtt.solvers._LinearOp.apply_prec'],
          quick=[dict(prec=p, apply=a) for p in (None, 'c', 'r') for a in (True, False)], replay='local_op', max_paths=200)
def local_operator(ob, prec, apply):
    """function against a spec function: the operator the iterative local solvers apply is the projected operator
         B(v)[l,m,L] = SUM_{s,r,n,S,R} Phi_left[l,s,r] A_k[s,m,n,S] Phi_right[L,S,R] v[r,n,R]
    composed with the preconditioner P stored in the object (`J`, whatever its entries are):
         matvec(x) = vec(B(P(x)))   (P = identity without preconditioner or with apply_prec=False)
       P_c(x)[r,m,R] = SUM_n x[r,n,R] J[r,R,m,n]      P_r(x)[r,m,L] = SUM_{n,R} x[r,n,R] J[r,m,L,n,R]
    and the operands are not written.  Sizes (ranks, mode size, operator rank) are symbolic, all entries are symbolic."""
    ex = ob.ex
    r, n, R = H.sym_sizes(ex, 'r', 1)[0], H.sym_sizes(ex, 'n', 1)[0], H.sym_sizes(ex, 'R', 1)[0]
    s, S = H.sym_sizes(ex, 's', 1)[0], H.sym_sizes(ex, 'S', 1)[0]
    ex.assume(r * n * R <= 1000)            # the opt_einsum fast path for very large local problems is not modelled
    Pl = T.atom_tensor('Phil', [r, s, r])
    Pr = T.atom_tensor('Phir', [R, S, R])
    Ak = T.atom_tensor('Ak', [s, n, n, S])
    x = T.atom_tensor('x', [r * n * R, 1])
    x.axes[0] = T.Axis(T.sz(r * n * R), [T.Factor(r), T.Factor(n), T.Factor(R)])
    for t, nm in ((Pl, 'Phi_left'), (Pr, 'Phi_right'), (Ak, 'coreA'), (x, 'x')):
        ex.register_arg(t, nm)
    ob.describe('sizes', {'r': r, 'n': n, 'R': R, 's': s, 'S': S})
    ob.describe('prec', prec); ob.describe('apply_prec', apply)
    ob.replay_args = {'prec': prec, 'apply': apply}
    cls = ex.module('torchtt.solvers').env['_LinearOp']
    op = ex.instantiate(cls, [Pl, Pr, Ak, [r, n, R], prec], {})
    J = op.attrs.get('J')
    if prec is not None:
        if not isinstance(J, STensor):
            ob.fail('preconditioner_stored', 'post', 'no tensor J in the operator object')
            return
        want_shape = [r, R, n, n] if prec == 'c' else [r, n, R, n, R]
        all_eq(ob, 'J_shape', J.shape, want_shape)
        if len(J.shape) != len(want_shape):
            return
        # the inverse is some tensor of that shape: give its entries names so that P(x) can be written down
        Jat = T.atom_tensor('Jinv', want_shape)
        J._val = lambda idx: Jat.at([(T.flatten_ix(i, a.factors) if len(a.factors) > 1 else i[0]) for i, a in zip(idx, J.axes)])
    w = ex.call(ex.getattr(op, 'matvec'), [x] if apply else [x, False])
    all_eq(ob, 'shape', w.shape, [r * n * R, 1])
    if len(w.shape) == 2:
        l_, m_, L_ = fresh_int('l'), fresh_int('m'), fresh_int('L')
        for v, b in ((l_, r), (m_, n), (L_, R)):
            ex.assume(z3.And(v >= 0, v < b))
        fac = w.axes[0].factors
        if len(fac) == 3:
            got = w.at([(l_, m_, L_), (0,)])
        else:
            got = w.at([(l_ * n + m_) * R + L_, 0])

        def px(ri, ni, Ri):
            xv = lambda a, b_, c: x.at([(a, b_, c), (0,)])
            if prec is None or not apply:
                return xv(ri, ni, Ri)
            if prec == 'c':
                return sum_over(ex, [n], lambda js: xv(ri, js[0], Ri) * Jat.at([ri, Ri, ni, js[0]]))
            return sum_over(ex, [n, R], lambda js: xv(ri, js[0], js[1]) * Jat.at([ri, ni, Ri, js[0], js[1]]))
        want = sum_over(ex, [s, r, n, S, R], lambda js: Pl.at([l_, js[0], js[1]]) * Ak.at([js[0], m_, js[2], js[3]]) * Pr.at([L_, js[3], js[4]]) * px(js[1], js[2], js[4]))
        ob.prove_eq('value_is_projected_operator_after_preconditioner', got, want)
    ob.frame()


# ------------------------------------------------------------------------------------------------
# the projection interfaces ("phi" recursions) and local products of the AMEn routines against the dense forms they represent
# ------------------------------------------------------------------------------------------------
def _one(nd):
    return T.const_tensor([1] * nd, 1, 'float64')


def _mode_index(ex, sizes, p):
    return H.fresh_index(ex, sizes, p)


@scenario('C12', 'interfaces', ['torchtt.solvers._compute_phi_fwd_A', 'torchtt.solvers._compute_phi_bck_A', 'torchtt.solvers._compute_phi_fwd_rhs',
                                'torchtt.solvers._compute_phi_bck_rhs', 'torchtt.solvers._local_product',
                                'torchtt._division.compute_phi_fwd_A', 'torchtt._division.compute_phi_bck_A', 'torchtt._division.compute_phi_fwd_rhs',
                                'torchtt._division.compute_phi_bck_rhs', 'torchtt._division.local_product',
                                'torchtt._amen._compute_phi_fwd_AB', 'torchtt._amen._compute_phi_bck_AB', 'torchtt._amen._compute_phi_fwd_x',
                                'torchtt._amen._compute_phi_bck_x', 'torchtt._amen._local_AB'],
          quick=[dict(which=w, d=d, k=k) for w in ('solve', 'divide', 'mm') for d in (1, 2, 3) for k in range(d)], replay=None, max_paths=50)
def interfaces(ob, which, d, k):
    """the interface tensors the AMEn routines carry from core to core are projections of the dense form:
       sweeping the forward recursion over cores 0..k-1 and the backward recursion over cores d-1..k+1 and closing with the local
       product at core k gives exactly   <y, A x>  (solve: y^T A x ; divide: SUM y a x elementwise ; mm: <X, A B>)  and, for the
       right-hand-side interfaces,  <b, x>  -- for every position k of the sweep, all sizes, ranks and entries"""
    ex = ob.ex
    N = H.sym_sizes(ex, 'n', d)
    y = ob.tt('y', d, N=N, dtype='float64')
    if which == 'solve':
        mod = ex.module('torchtt.solvers').env
        A = ob.tt('A', d, ttm=True, N=N, M=N, dtype='float64')
        x = ob.tt('x', d, N=N, dtype='float64')
        fwd, bck, loc = mod['_compute_phi_fwd_A'], mod['_compute_phi_bck_A'], mod['_local_product']
        fwd_b, bck_b = mod['_compute_phi_fwd_rhs'], mod['_compute_phi_bck_rhs']
    elif which == 'divide':
        mod = ex.module('torchtt._division').env
        A = ob.tt('A', d, N=N, dtype='float64')          # the divisor acts as a diagonal operator
        x = ob.tt('x', d, N=N, dtype='float64')
        fwd, bck, loc = mod['compute_phi_fwd_A'], mod['compute_phi_bck_A'], mod['local_product']
        fwd_b, bck_b = mod['compute_phi_fwd_rhs'], mod['compute_phi_bck_rhs']
    else:
        mod = ex.module('torchtt._amen').env
        K = H.sym_sizes(ex, 'kk', d)
        M = H.sym_sizes(ex, 'mm', d)
        y = ob.tt('X', d, ttm=True, M=M, N=N, dtype='float64')
        A = ob.tt('A', d, ttm=True, M=M, N=K, dtype='float64')
        x = ob.tt('B', d, ttm=True, M=K, N=N, dtype='float64')
        fwd, bck, loc = mod['_compute_phi_fwd_AB'], mod['_compute_phi_bck_AB'], mod['_local_AB']
        fwd_b, bck_b = mod['_compute_phi_fwd_x'], mod['_compute_phi_bck_x']
    yc, Ac, xc = y.attrs['cores'], A.attrs['cores'], x.attrs['cores']
    # ---- operator interfaces
    left = _one(3)
    for j in range(k):
        left = ex.call(fwd, [left, yc[j], Ac[j], xc[j]] if which != 'mm' else [left, Ac[j], xc[j], yc[j]])
    right = _one(3)
    for j in range(d - 1, k, -1):
        right = ex.call(bck, [right, yc[j], Ac[j], xc[j]] if which != 'mm' else [right, Ac[j], xc[j], yc[j]])
    if which == 'mm':
        w = ex.call(loc, [left, right, Ac[k], xc[k]])                 # r m n R
        got = T.contract([w, yc[k]], [['r', 'm', 'n', 'R'], ['r', 'm', 'n', 'R']], [])
    else:
        w = ex.call(loc, [right, left, Ac[k], xc[k], xc[k].shape])    # l m L
        got = T.contract([w, yc[k]], [['l', 'm', 'L'], ['l', 'm', 'L']], [])
    if which == 'solve':
        im, in_ = _mode_index(ex, N, 'im'), _mode_index(ex, N, 'in')
        want = val(ob, y, im) * val(ob, A, list(zip(im, in_))) * val(ob, x, in_)
        for v, s in zip(im + in_, N + N):
            want = want.summed(v, s)
    elif which == 'divide':
        im = _mode_index(ex, N, 'im')
        want = val(ob, y, im) * val(ob, A, im) * val(ob, x, im)
        for v, s in zip(im, N):
            want = want.summed(v, s)
    else:
        im, ik, in_ = _mode_index(ex, M, 'im'), _mode_index(ex, K, 'ik'), _mode_index(ex, N, 'in')
        want = val(ob, y, list(zip(im, in_))) * val(ob, A, list(zip(im, ik))) * val(ob, x, list(zip(ik, in_)))
        for v, s in zip(im + ik + in_, M + K + N):
            want = want.summed(v, s)
    ob.prove_eq('operator_interfaces_close_to_the_dense_form', got.at([]), want)
    # ---- right-hand-side interfaces: <b, x> resp. <X, Y>
    if k == 0:
        b = ob.tt('b', d, N=N, dtype='float64') if which != 'mm' else ob.tt('Y', d, ttm=True, M=M, N=N, dtype='float64')
        bc = b.attrs['cores']
        lf = _one(2)
        for j in range(d):
            lf = ex.call(fwd_b, [lf, bc[j], yc[j]])
        rt = _one(2)
        for j in range(d - 1, -1, -1):
            rt = ex.call(bck_b, [rt, bc[j], yc[j]])
        if which == 'mm':
            im, in_ = _mode_index(ex, M, 'jm'), _mode_index(ex, N, 'jn')
            wb = val(ob, b, list(zip(im, in_))) * val(ob, y, list(zip(im, in_)))
            for v, s in zip(im + in_, M + N):
                wb = wb.summed(v, s)
        else:
            im = _mode_index(ex, N, 'jm')
            wb = val(ob, b, im) * val(ob, y, im)
            for v, s in zip(im, N):
                wb = wb.summed(v, s)
        ob.prove_eq('rhs_forward_interface_is_the_dot_product', lf.at([0, 0]), wb)
        ob.prove_eq('rhs_backward_interface_is_the_dot_product', rt.at([0, 0]), wb)
    ob.frame()


@scenario('C12', 'local_system.first_step', ['torchtt.solvers.amen_solve', 'torchtt.solvers._amen_solve_python'],
          quick=[dict(d=2, guess=g, direct=True) for g in (False, True)] + [dict(d=2, guess=False, direct=False)],
          thorough=[dict(d=2, guess=g, direct=True) for g in (False, True)] + [dict(d=2, guess=False, direct=False)] + [dict(d=3, guess=g, direct=True) for g in (False, True)],
          replay=None, max_paths=400)
def local_system_first_step(ob, d, guess, direct):
    local_system_body(ob, d, guess, direct, 'solve')


def local_system_body(ob, d, guess, direct, which):
    """call-site contract inside the real sweep: at the first local solve of the first sweep of amen_solve the system handed to
    torch.linalg.solve (direct branch) is assembled from the CURRENT interfaces of the sweep with the right index roles
         B[(l,m,L),(r,n,R)] = SUM_{s,S} Phis[k][l,s,r] A_k[s,m,n,S] Phis[k+1][L,S,R]
         rhs[(r,m,R)]       = nrmsc * SUM_{b,B} Phis_b[k][b,r] b_k[b,m,B] Phis_b[k+1][B,R]
    and in the iterative branch the operator object is built from exactly Phis[k], Phis[k+1], A.cores[k] and the shape
    [rx[k], N[k], rx[k+1]].  (The interfaces themselves are the projections -- scenario `interfaces`; the operator object --
    scenario `local_operator.matvec`.)  The path ends at that call: nothing after it is claimed."""
    from . import hooks
    ex = ob.ex
    hooks.install(ex)
    hooks.install_solvers(ex)
    N = H.sym_sizes(ex, 'n', d)
    div = which == 'divide'
    # solve: A is a TT matrix.  divide (torchtt._division.amen_divide(a, b)): the operator is diag(a) for the TT tensor a
    A = ob.tt('A', d, ttm=True, N=N, M=N, dtype='float64') if not div else ob.tt('a', d, N=N, dtype='float64')
    b = ob.tt('b', d, N=N, dtype='float64')
    g = ob.tt('g', d, N=N, dtype='float64') if guess else None
    seen = []
    sweep_name = 'amen_divide' if div else '_amen_solve_python'

    def frame_of_sweep():
        for fr in reversed(ex.frames):
            if fr.func is not None and fr.func.qualname.endswith(sweep_name):
                return fr
        return None

    def on_solve(ex_, args, kwargs):
        fr = frame_of_sweep()
        if fr is None:
            return NotImplemented
        seen.append('solve')
        B, rhs = args[0], args[1]
        L = fr.locals
        k = L['k']
        Pl, Pr, Pbl, Pbr = L['Phis'][k], L['Phis'][k + 1], L['Phis_b'][k], L['Phis_b'][k + 1]
        Ak, bk, rx, nrmsc = A.attrs['cores'][k], b.attrs['cores'][k], L['rx'], L['nrmsc']     # the cores of the ARGUMENTS (not of a local rebinding of A, b)
        ob.prove('first_solve_is_core_0', k == 0)
        sizes = [rx[k], L['N'][k], rx[k + 1]]
        exp = [T.Factor(T.sz(to_int(s_)) if not isinstance(s_, int) else s_) for s_ in sizes]
        i = []
        for s_ in sizes + sizes:
            if T.known_eq(s_, 1):
                i.append(0)
            else:
                v = fresh_int('q')
                ex_.assume(z3.And(v >= 0, v < to_int(s_)))
                i.append(v)
        l_, m_, L_, r_, n_, R_ = i
        row = T.align_factors((l_, m_, L_), exp, B.axes[0].factors)
        col = T.align_factors((r_, n_, R_), exp, B.axes[1].factors)
        if B._val is None or row is None or col is None:
            ob.undecided('local_matrix', 'value', 'unexpected structure of the matrix handed to linalg.solve: %s' % (B.axes,))
            raise I.PathEnd()
        if div:
            # diagonal operator: A_k[s,m,n,S] = a_k[s,m,S] * [m == n]
            from ttvc.terms import ite as _ite
            want = sum_over(ex_, [Pl.shape[1], Pr.shape[1]], lambda js: Pl.at([l_, js[0], r_]) * Ak.at([js[0], m_, js[1]]) * Pr.at([L_, js[1], R_])) * _ite(to_int(m_) == to_int(n_), Term.of(1), Term.zero())
        else:
            want = sum_over(ex_, [Pl.shape[1], Pr.shape[1]], lambda js: Pl.at([l_, js[0], r_]) * Ak.at([js[0], m_, n_, js[1]]) * Pr.at([L_, js[1], R_]))
        ob.prove_eq('local_matrix_is_assembled_from_the_interfaces', B.at([row, col]), want)
        rrow = T.align_factors((l_, m_, L_), exp, rhs.axes[0].factors)
        if rhs._val is not None and rrow is not None:
            sc = Term.of(nrmsc.real() if isinstance(nrmsc, SymScalar) else nrmsc) if not isinstance(nrmsc, STensor) else nrmsc.at([])
            wantb = sum_over(ex_, [Pbl.shape[0], Pbr.shape[0]], lambda js: Pbl.at([js[0], l_]) * bk.at([js[0], m_, js[1]]) * Pbr.at([js[1], L_])) * sc
            ob.prove_eq('local_rhs_is_assembled_from_the_rhs_interfaces', rhs.at([rrow, (0,)]), wantb)
        else:
            ob.undecided('local_rhs', 'value', 'unexpected structure of the right-hand side')
        raise I.PathEnd()

    def on_linear_op(ex_, f, args, kwargs):
        fr = frame_of_sweep()
        if fr is None:
            return NotImplemented
        seen.append('op')
        L = fr.locals
        k = L['k']
        _self, Pl, Pr, coreA, shape = args[0], args[1], args[2], args[3], args[4]
        ob.prove('operator.left_interface_is_Phis_k', Pl is L['Phis'][k])
        ob.prove('operator.right_interface_is_Phis_k_plus_1', Pr is L['Phis'][k + 1])
        want = A.attrs['cores'][k]
        if coreA is want:
            ob.ok('operator.core_is_A_k', 'post')
        elif isinstance(coreA, STensor) and coreA._val is not None and coreA.ndim == want.ndim:
            all_eq(ob, 'operator.core_is_A_k.shape', coreA.shape, want.shape)
            i = H.fresh_axis_index(ex_, want)
            ob.prove_eq('operator.core_is_A_k.value', coreA.at(i), want.at(i))
        else:
            ob.fail('operator.core_is_A_k', 'post', 'the operator is not built from the core of the argument A')
        all_eq(ob, 'operator.shape', list(shape), [L['rx'][k], L['N'][k], L['rx'][k + 1]])
        raise I.PathEnd()
    ex.ext_hooks = {'torch.linalg.solve': on_solve}
    ex.call_hooks['torchtt._division.LinearOp.__init__' if div else 'torchtt.solvers._LinearOp.__init__'] = on_linear_op
    if direct:
        ex.assume(N[0] * 8 < 400)
    if div:
        f = ex.module('torchtt._division').env['amen_divide']
        ex.call(f, [A, b], {'nswp': 1, 'x0': g, 'max_full': 500 if direct else 0, 'verbose': False})
    else:
        f = ex.module('torchtt.solvers').env['amen_solve']          # through the public wrapper
        ex.call(f, [A, b], {'nswp': 1, 'x0': g, 'max_full': 500 if direct else 0, 'local_solver': 1, 'use_cpp': False})
    ob.fail('local_solve_reached', 'post', 'the sweep finished without a local solve')
