"""
C12 -- AMEn solve returns a solution with relative residual at most eps.

The residual clause is a convergence statement about a randomised alternating sweep with inexact local solves: no contract
within reach decides it.  Bounded stand-in only (runtime/rt_c12.py: run-time contracts on the real amen_solve over SPD /
diagonally dominant / Laplacian-like systems, every preconditioner, local solver and max_full setting) -- never counted as proved.
The argument guards of amen_solve are proved in C18.
"""
import z3
from ttvc import harness as H, tensors as T, interp as I
from ttvc.oblig import scenario
from .common import *
from . import c18 as _c18

LEVEL = 'exploration'
TRUSTED = TRUSTED_COMMON
ASSUMPTIONS = ['bounded: orders 2..3 (quick) / 2..5 (thorough), sizes 2..6, operator ranks 1..3, rhs ranks 1..3, eps in {1e-4,1e-8}, preconditioner in {None,c,r}, max_full in {0,500}, local_solver in {1,2}, with / without x0, constant C = 100',
               'deductive part: only the argument guards (must-raise obligations shared with C18)']
EXPLANATION = 'bounded run-time contracts (icontract) on the real amen_solve; must-raise obligations for the guards'


def bounded_checks(tier, seed, repo):
    return run_rmode('C12', tier, seed, repo)


def _guards(ob, case):
    _c18.function_misuse(ob, case)


scenario('C12', 'guards', 'torchtt.solvers.amen_solve', quick=[dict(case=c) for c in ('amen_solve_types', 'amen_solve_kinds', 'amen_solve_square', 'amen_solve_shape')],
         expect='raise', replay='misuse')(_guards)


def grid_solve():
    out = []
    for prec in (None, 'c', 'r'):
        for max_full in (0, 500):
            for ls in (1, 2):
                if max_full == 500 and ls == 2:
                    continue
                out.append(dict(d=2, prec=prec, max_full=max_full, local_solver=ls, guess=(prec is None)))
    return out


@scenario('C12', 'amen_solve.no_raise_shape_frame', ['torchtt.solvers.amen_solve', 'torchtt.solvers._amen_solve_python', 'torchtt.solvers._LinearOp'],
          quick=[], thorough=[], replay=None, max_paths=8000)
def amen_solve_structure(ob, d, prec, max_full, local_solver, guess):
    """NOT REGISTERED (empty grids): the number of symbolic paths of one AMEn-solve sweep (value-dependent residual tests, norm
    corrections, tall/wide factorizations) exceeds 6000 for d = 2 and did not finish in 50 minutes; kept for a later session.
    amen_solve (one sweep; sizes, ranks symbolic; all value-dependent branches explored; local iterative solvers by their
    ASSUMED shape contract): no exception for a compatible square system, result well formed with N = b.N, A, b and the
    initial guess untouched"""
    from . import hooks
    ex = ob.ex
    hooks.install(ex)
    hooks.install_solvers(ex)
    ex.havoc_range_loops = True      # the residual-driven truncation search loop `for r in range(u.shape[1]-1, 0, -1)` (loop contract)
    N = H.sym_sizes(ex, 'n', d)
    A = ob.tt('A', d, ttm=True, N=N, M=N, dtype='float64')
    b = ob.tt('b', d, N=N, dtype='float64')
    g = ob.tt('g', d, N=N, dtype='float64') if guess else None
    f = ex.module('torchtt.solvers').env['amen_solve']
    r = ex.call(f, [A, b], {'nswp': 1, 'x0': g, 'use_cpp': False, 'preconditioner': prec, 'max_full': max_full, 'local_solver': local_solver})
    ob.wf(r)
    fl = fields(ob, r)
    ob.prove('kind', fl['is_ttm'] is False)
    all_eq(ob, 'N', fl['N'], N)
    ob.frame()
