"""
C12 -- AMEn solve returns a solution with relative residual at most eps.

The residual clause is a convergence statement about a randomised alternating sweep with inexact local solves: no contract
within reach decides it.  Bounded stand-in only (runtime/rt_c12.py: run-time contracts on the real amen_solve over SPD /
diagonally dominant / Laplacian-like systems, every preconditioner, local solver and max_full setting) -- never counted as proved.
The argument guards of amen_solve are proved in C18.
"""
from ttvc.oblig import scenario
from .common import *
from . import c18 as _c18

LEVEL = 'exploration'
TRUSTED = TRUSTED_COMMON
ASSUMPTIONS = ['bounded: orders 2..3 (quick) / 2..5 (thorough), sizes 2..6, operator ranks 1..3, rhs ranks 1..3, eps in {1e-4,1e-8}, preconditioner in {None,c,r}, max_full in {0,500}, local_solver in {1,2}, with / without x0, constant C = 100',
               'deductive part: only the argument guards (must-raise obligations shared with C18)']
EXPLANATION = 'bounded run-time contracts (icontract) on the real amen_solve; must-raise obligations for the guards'


def bounded_checks(tier, seed, repo):
    return run_rmode('C12', tier, seed, repo)


def _guards(ob, case):
    _c18.function_misuse(ob, case)


scenario('C12', 'guards', 'torchtt.solvers.amen_solve', quick=[dict(case=c) for c in ('amen_solve_types', 'amen_solve_kinds', 'amen_solve_square', 'amen_solve_shape')],
         expect='raise', replay='misuse')(_guards)
