"""
C10 -- reshape, permute and QTT conversion preserve the tensor up to the given eps.

Proved (structure, for every enumerated regrouping with symbolic factors, ranks and entries):
  * the result has exactly the requested mode sizes on every path, is well formed, operands untouched;
  * CONSUMPTION: every input core flows into the result (provenance ghost state) -- nothing, not even a 1x1x1 core holding
    a unit phase, is dropped; this is the structural content of "never changing sign, phase or scale";
  * guards (element count, permutation validity) -> C18.
Bounded (run-time contracts, NOT counted as proved): the eps-accuracy of the SVD splits and reshapes that are not aligned
with a common ordered factorisation (e.g. [6,10] -> [4,15]); see runtime/rt_c10.py.
Why the accuracy is not decided deductively: the splits truncate relative to the norm of the local core and the cores to
their left are not kept orthonormal, so the error ledger of C01/C02 does not bound the global error by a constant times eps.
"""
import itertools
import z3
from ttvc import harness as H, tensors as T, interp as I
from ttvc.tensors import STensor, SymScalar, is_sym, to_int
from ttvc.oblig import scenario
from .common import *

LEVEL = 'other'
TRUSTED = TRUSTED_COMMON + ['contracts of rank_chop / SVD / QR (shapes only are used here)']
ASSUMPTIONS = ['reshape: source and target are groupings of one ordered list of <=4 symbolic factors (each >= 2) with singleton modes inserted at the front, middle or end; '
               'orders d_in, d_out <= 3 quick / <= 4 thorough; non-aligned reshapes are covered by the bounded stand-in only',
               'permute: every permutation of d<=3 (quick) / d<=4 (thorough) modes, tensors and operators (d<=3); thresholds relative to the local norm at every swap; right-orthogonality of the cores outside the super-core only at the FIRST swap (later swaps act on rewritten cores: no invariant of the real code to state)',
               'QTT: concrete power-of-two mode sizes (2,4,8), symbolic ranks',
               'accuracy clause: bounded run-time contracts only (K = 4(1+sqrt(r_max)) eps ||x||), never counted as proved']
EXPLANATION = ('structure and consumption obligations discharged by the ttvc engine (proof); accuracy by the bounded run-time stand-in. '
               'The evidence separates the two counts: coverage.obligations/discharged are the deductive ones, bounded_evaluations_not_counted_as_proved the others.')


def bounded_checks(tier, seed, repo):
    return run_rmode('C10', tier, seed, repo)


def mark(x):
    labels = []
    for k, c in enumerate(x.attrs['cores']):
        c.prov = frozenset(['%s.core%d' % (x._spec['name'], k)])
        labels.append('%s.core%d' % (x._spec['name'], k))
    return labels


def check_consumed(ob, r, labels, name='consumption'):
    """every input core AND every factor of every QR / SVD computed on the way flows into some core of the result"""
    prov = frozenset().union(*[c.prov for c in r.attrs['cores']])
    labels = list(labels)
    for e in ob.ex.events:
        if e[0] == 'qr':
            labels += ['Q#%d' % e[2].tid, 'R#%d' % e[2].tid]
        elif e[0] == 'svd':
            labels += ['U#%d' % e[1]['S'].tid, 'S#%d' % e[1]['S'].tid, 'V#%d' % e[1]['S'].tid]
    missing = [l for l in labels if l not in prov]
    if missing:
        ob.fail(name, 'ghost', 'input cores %s do not flow into any core of the result (dropped)' % missing)
    else:
        ob.ok(name, 'ghost')


def groupings(m, k):
    """all ways to split range(m) into k consecutive non-empty runs"""
    out = []
    for cuts in itertools.combinations(range(1, m), k - 1):
        b = (0,) + cuts + (m,)
        out.append([list(range(b[i], b[i + 1])) for i in range(k)])
    return out


def with_ones(runs, positions):
    """insert empty runs (singleton modes) at the given positions of the list of runs"""
    out = list(runs)
    for p in sorted(positions, reverse=True):
        out.insert(p, [])
    return out


def grid_reshape(mmax, dmax, quick):
    out = []
    for m in range(1, mmax + 1):
        for din in range(1, min(m, dmax) + 1):
            for dout in range(1, min(m, dmax) + 1):
                for gi, src in enumerate(groupings(m, din)):
                    for gj, tgt in enumerate(groupings(m, dout)):
                        if src == tgt and m > 1:
                            continue
                        out.append(dict(m=m, src=tuple(map(tuple, src)), tgt=tuple(map(tuple, tgt))))
    # singleton modes in the source (front / middle / end) and in the target
    extra = []
    for m in (1, 2):
        for src in groupings(m, m):
            for pos in ([0], [m], [1] if m > 1 else []):
                if not pos:
                    continue
                s1 = with_ones(src, pos)
                for tgt in groupings(m, 1) + (groupings(m, 2) if m >= 2 else []):
                    extra.append(dict(m=m, src=tuple(map(tuple, s1)), tgt=tuple(map(tuple, tgt))))
                    extra.append(dict(m=m, src=tuple(map(tuple, tgt)), tgt=tuple(map(tuple, s1))))
    out += [e for e in extra if len(e['src']) <= dmax + 1 and len(e['tgt']) <= dmax + 1]
    # several consecutive singleton modes that disappear / appear
    for ones in (2, 3):
        e1 = ((),) * ones
        out.append(dict(m=1, src=((0,),) + e1, tgt=((0,),)))
        out.append(dict(m=2, src=((0,), (1,)) + e1, tgt=((0, 1),)))
        out.append(dict(m=2, src=e1 + ((0,), (1,)), tgt=((0, 1),)))
        out.append(dict(m=2, src=((0,),) + e1 + ((1,),), tgt=((0, 1),)))
        out.append(dict(m=1, src=((0,),), tgt=((0,),) + e1))
    if quick:
        out = [g for g in out if g['m'] <= 3]
    seen, res = set(), []
    for g in out:
        key = (g['m'], g['src'], g['tgt'])
        if key not in seen:
            seen.add(key)
            res.append(g)
    return res


@scenario('C10', 'reshape.tensor', ['torchtt._extras.reshape', 'torchtt._decomposition.rl_orthogonal', 'torchtt._tt_base.TT.round'],
          quick=grid_reshape(3, 3, True), thorough=grid_reshape(4, 4, False), replay='reshape', max_paths=1500)
def reshape_tensor(ob, m, src, tgt):
    from . import hooks
    ex = ob.ex
    hooks.install(ex)
    F = H.sym_sizes(ex, 'f', m, 2)
    size = lambda run: T.sz(T.prod([F[i] for i in run])) if run else 1
    Nsrc = [size(r) for r in src]
    Ntgt = [size(r) for r in tgt]
    x = ob.tt('x', len(src), N=Nsrc, dtype='complex128')
    labels = mark(x)
    ob.describe('target', Ntgt)
    ob.replay_args = {'x': 'x'}
    r = ex.call(ex.module('torchtt._extras').env['reshape'], [x, list(Ntgt)])
    ob.wf(r)
    f = fields(ob, r)
    all_eq(ob, 'N', f['N'], Ntgt)
    ob.prove('kind', f['is_ttm'] is False)
    check_consumed(ob, r, labels)
    ob.frame()


def grid_reshape_ttm(quick):
    out = []
    for m in ((1, 2) if quick else (1, 2, 3)):
        for din in range(1, m + 1):
            for dout in range(1, m + 1):
                for src in groupings(m, din):
                    for tgt in groupings(m, dout):
                        if src != tgt or m == 1:
                            out.append(dict(m=m, src=tuple(map(tuple, src)), tgt=tuple(map(tuple, tgt))))
    out.append(dict(m=1, src=((0,),), tgt=((0,), ())))
    out.append(dict(m=1, src=((0,), ()), tgt=((0,),)))
    out.append(dict(m=2, src=((0,), (1,), ()), tgt=((0, 1),)))
    # several consecutive singleton (1,1) modes that disappear / appear: at the end, at the front, in the middle
    for ones in (2, 3):
        e = ((),) * ones
        out.append(dict(m=1, src=((0,),) + e, tgt=((0,),)))
        out.append(dict(m=2, src=((0,), (1,)) + e, tgt=((0, 1),)))
        out.append(dict(m=2, src=((0,), (1,)) + e, tgt=((0,), (1,))))
        out.append(dict(m=2, src=e + ((0,), (1,)), tgt=((0, 1),)))
        out.append(dict(m=2, src=((0,),) + e + ((1,),), tgt=((0, 1),)))
        out.append(dict(m=1, src=((0,),), tgt=((0,),) + e))
    return out


@scenario('C10', 'reshape.operator', ['torchtt._extras.reshape', 'torchtt._decomposition.mat_to_tt'],
          quick=grid_reshape_ttm(True), thorough=grid_reshape_ttm(False), replay='reshape', max_paths=1500)
def reshape_operator(ob, m, src, tgt):
    from . import hooks
    ex = ob.ex
    hooks.install(ex)
    FM = H.sym_sizes(ex, 'fm', m, 2)
    FN = H.sym_sizes(ex, 'fn', m, 2)
    sz = lambda F, run: T.sz(T.prod([F[i] for i in run])) if run else 1
    x = ob.tt('x', len(src), ttm=True, M=[sz(FM, r) for r in src], N=[sz(FN, r) for r in src], dtype='complex128')
    labels = mark(x)
    Mt, Nt = [sz(FM, r) for r in tgt], [sz(FN, r) for r in tgt]
    ob.describe('target', [[a, b] for a, b in zip(Mt, Nt)])
    ob.replay_args = {'x': 'x'}
    r = ex.call(ex.module('torchtt._extras').env['reshape'], [x, [(a, b) for a, b in zip(Mt, Nt)]])
    ob.wf(r)
    f = fields(ob, r)
    ob.prove('kind', f['is_ttm'] is True)
    if f['is_ttm']:
        all_eq(ob, 'M', f['M'], Mt)
        all_eq(ob, 'N', f['N'], Nt)
    check_consumed(ob, r, labels)
    ob.frame()


def grid_permute(dmax, dmax_m):
    out = []
    for d in range(1, dmax + 1):
        for p in itertools.permutations(range(d)):
            out.append(dict(d=d, dims=p, ttm=False))
    for d in range(1, dmax_m + 1):
        for p in itertools.permutations(range(d)):
            out.append(dict(d=d, dims=p, ttm=True))
    return out


@scenario('C10', 'permute', 'torchtt._extras.permute', quick=grid_permute(3, 2), thorough=grid_permute(4, 3), replay='permute', max_paths=3000)
def permute(ob, d, dims, ttm):
    from . import hooks
    ex = ob.ex
    hooks.install(ex)
    x = ob.tt('x', d, ttm=ttm, dtype='complex128')
    labels = mark(x)
    ob.describe('dims', list(dims))
    ob.replay_args = {'x': 'x'}
    eps = z3.Real('eps')
    ex.assume(eps > 0)
    ex.assume(eps < 1)
    first = {}

    def on_svd(ex_, f_, args, kwargs):
        # ghost precondition of the FIRST truncating SVD: the train was brought to right-orthogonal form as a whole -- every core
        # outside the super-core, except the first one (which carries the norm), is right-orthogonal.  (Later swaps work on cores the
        # earlier swaps have rewritten; only the bounded stand-in speaks about their accuracy.)
        if first:
            return NotImplemented
        for fr in reversed(ex_.frames):
            if fr.func is not None and fr.func.qualname.endswith('permute'):
                first['seen'] = True
                cs, i = fr.locals.get('cores'), fr.locals.get('i')
                for k in range(1, d):
                    if k in (i, i + 1):
                        continue
                    ob.prove('first_swap.core%d_outside_the_supercore_is_right_orthogonal' % k, bool(isinstance(cs[k], STensor) and cs[k].ghost.get('right_orth_core')), 'ghost')
                break
        return NotImplemented
    ex.call_hooks['torchtt._decomposition.SVD'] = on_svd
    r = ex.call(ex.module('torchtt._extras').env['permute'], [x, list(dims), SymScalar(eps, 'float', 'float')])
    # every truncation threshold is RELATIVE to the norm of the matrix being truncated:  threshold^2 * d^3 == eps^2 * ||S||^2
    from ttvc import gauge as _g
    for j, e_ in enumerate([e for e in ex.events if e[0] == 'rank_chop']):
        rec = e_[4]
        if rec is None or rec.get('chop_eps') is None:
            ob.fail('swap%d.threshold_relative_to_local_norm' % j, 'ghost', 'rank_chop is not applied to the singular values of an SVD with a scalar threshold')
            continue
        b = _g.base_record(rec)
        ob.prove('swap%d.threshold_relative_to_local_norm' % j, rec['chop_eps'] * rec['chop_eps'] * (d ** 3) == eps * eps * b['fro2'], 'ghost')
    ob.wf(r)
    f = fields(ob, r)
    all_eq(ob, 'N', f['N'], [x.N_[k] for k in dims])
    ob.prove('kind', f['is_ttm'] is ttm)
    if ttm and f['is_ttm']:
        all_eq(ob, 'M', f['M'], [x.M_[k] for k in dims])
    check_consumed(ob, r, labels)
    ob.frame()


def grid_qtt(quick):
    shapes = [[2], [4], [8], [4, 2], [2, 8], [8, 4], [4, 4, 2]] if quick else [[2], [4], [8], [16], [4, 2], [2, 8], [8, 4], [4, 4, 2], [2, 4, 8], [8, 8]]
    return [dict(N=tuple(s)) for s in shapes]


@scenario('C10', 'qtt', ['torchtt._tt_base.TT.to_qtt', 'torchtt._tt_base.TT.qtt_to_tens'], quick=grid_qtt(True), thorough=grid_qtt(False), replay='qtt', max_paths=3000)
def qtt(ob, N):
    from . import hooks
    ex = ob.ex
    hooks.install(ex)
    N = list(N)
    x = ob.tt('x', len(N), N=N, dtype='float64')
    labels = mark(x)
    ob.replay_args = {'x': 'x'}
    q = ex.call(ex.getattr(x, 'to_qtt'), [])
    ob.wf(q, 'qtt.wf')
    fq = fields(ob, q)
    import math
    nbits = sum(int(math.log2(n)) for n in N)
    all_eq(ob, 'qtt.N', fq['N'], [2] * nbits)
    check_consumed(ob, q, labels, 'qtt.consumption')
    back = ex.call(ex.getattr(q, 'qtt_to_tens'), [list(N)])
    ob.wf(back, 'back.wf')
    all_eq(ob, 'back.N', fields(ob, back)['N'], N)
    check_consumed(ob, back, labels, 'back.consumption')
    ob.frame()


@scenario('C10', 'canary.reshape_keeps_order', 'torchtt._extras.reshape', quick=[dict()], replay=None)
def canary(ob):
    """claiming that reshape [a*b] -> [a, b] returns a one-mode tensor must be refuted"""
    from . import hooks
    ex = ob.ex
    hooks.install(ex)
    F = H.sym_sizes(ex, 'f', 2, 2)
    x = ob.tt('x', 1, N=[F[0] * F[1]], dtype='float64')
    r = ex.call(ex.module('torchtt._extras').env['reshape'], [x, [F[0], F[1]]])
    all_eq(ob, 'N', fields(ob, r)['N'], [F[0] * F[1]])


canary.canary = True
