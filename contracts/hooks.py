"""modular use of callee contracts: the body of a callee is replaced by its (separately proved) contract"""
import z3
from ttvc import tensors as T
from ttvc.tensors import STensor, SymScalar, is_sym, to_int
from ttvc.terms import fresh_int


def rank_chop_contract(ex, f, args, kwargs):
    """contract of _decomposition.rank_chop (proved in C01): 1 <= R <= n for n >= 1"""
    s = args[0]
    if not isinstance(s, STensor) or s.ndim != 1:
        return NotImplemented
    n = s.shape[0]
    r = fresh_int('rk')
    ex.assume(r >= 1)
    ex.assume(r <= to_int(n))
    ex.events.append(('rank_chop', s, args[1] if len(args) > 1 else kwargs.get('eps'), r))
    return r


def svd_contract(ex, f, args, kwargs):
    """use of the contract of _decomposition.SVD (proved in C01 scenario SVD.contract for both of its branches):
    returns (U, S, Vh) of the reduced SVD of `mat` -- the same ghost record as torch.linalg.svd(mat, full_matrices=False)"""
    from ttvc import optable
    return optable._svd(ex, [args[0]], {'full_matrices': False})


def install(ex, rank_chop=True, svd=False):
    if rank_chop:
        from ttvc import gauge
        ex.call_hooks['torchtt._decomposition.rank_chop'] = gauge.rank_chop_contract
    if svd:
        ex.call_hooks['torchtt._decomposition.SVD'] = svd_contract
