"""modular use of callee contracts: the body of a callee is replaced by its (separately proved) contract"""
import z3
from ttvc import tensors as T
from ttvc.tensors import STensor, SymScalar, is_sym, to_int
from ttvc.terms import fresh_int


def rank_chop_contract(ex, f, args, kwargs):
    """contract of _decomposition.rank_chop (proved in C01): 1 <= R <= n for n >= 1"""
    s = args[0]
    if not isinstance(s, STensor) or s.ndim != 1:
        return NotImplemented
    n = s.shape[0]
    r = fresh_int('rk')
    ex.assume(r >= 1)
    ex.assume(r <= to_int(n))
    ex.events.append(('rank_chop', s, args[1] if len(args) > 1 else kwargs.get('eps'), r))
    return r


def install(ex, rank_chop=True):
    if rank_chop:
        from ttvc import gauge
        ex.call_hooks['torchtt._decomposition.rank_chop'] = gauge.rank_chop_contract
