"""modular use of callee contracts: the body of a callee is replaced by its (separately proved) contract"""
import z3
from ttvc import tensors as T
from ttvc.tensors import STensor, SymScalar, is_sym, to_int
from ttvc.terms import fresh_int


def rank_chop_contract(ex, f, args, kwargs):
    """contract of _decomposition.rank_chop (proved in C01): 1 <= R <= n for n >= 1"""
    s = args[0]
    if not isinstance(s, STensor) or s.ndim != 1:
        return NotImplemented
    n = s.shape[0]
    r = fresh_int('rk')
    ex.assume(r >= 1)
    ex.assume(r <= to_int(n))
    ex.events.append(('rank_chop', s, args[1] if len(args) > 1 else kwargs.get('eps'), r))
    return r


def svd_contract(ex, f, args, kwargs):
    """use of the contract of _decomposition.SVD (proved in C01 scenario SVD.contract for both of its branches):
    returns (U, S, Vh) of the reduced SVD of `mat` -- the same ghost record as torch.linalg.svd(mat, full_matrices=False)"""
    from ttvc import optable
    return optable._svd(ex, [args[0]], {'full_matrices': False})


def install(ex, rank_chop=True, svd=False):
    if rank_chop:
        from ttvc import gauge
        ex.call_hooks['torchtt._decomposition.rank_chop'] = gauge.rank_chop_contract
    if svd:
        ex.call_hooks['torchtt._decomposition.SVD'] = svd_contract


def iterative_solver_contract(kind):
    """ASSUMED shape contract of _iterative_solvers.gmres_restart / BiCGSTAB_reset (their loops run over a data-dependent
    iteration count with in-place Hessenberg updates): the operator is applied to a vector of the shape of x0 at least once and
    must return that shape; the returned solution has the shape and dtype of x0, plus a flag and an iteration count."""
    from ttvc import tensors as T
    from ttvc.terms import fresh_int, fresh_bool

    def hook(ex, f, args, kwargs):
        Op, rhs, x0 = args[0], args[1], args[2]
        y = ex.call(ex.getattr(Op, 'matvec'), [x0])
        if not isinstance(y, T.STensor) or len(y.shape) != len(x0.shape) or not all(T.known_eq(a, b) for a, b in zip(y.shape, x0.shape)):
            raise T.PyRaise('RuntimeError', 'local operator does not map the iterate space to itself: %s -> %s' % (x0.shape, getattr(y, 'shape', None)), origin='torch')
        if not all(T.known_eq(a, b) for a, b in zip(rhs.shape, x0.shape)):
            raise T.PyRaise('RuntimeError', 'right-hand side and iterate have different shapes', origin='torch')
        sol = T.opaque_with_axes(list(x0.axes), x0.dtype, 'itsol')
        sol._val = None
        it = fresh_int('nit')
        ex.assume(it >= 0)
        flag = fresh_bool('conv')
        ex.events.append(('iterative_solver', kind))
        if kind == 'gmres':
            return (sol, flag, it)
        return (sol, flag, it, T.opaque_tensor([], x0.dtype, 'relres'))
    return hook


def install_solvers(ex):
    ex.call_hooks['torchtt._iterative_solvers.gmres_restart'] = iterative_solver_contract('gmres')
    ex.call_hooks['torchtt._iterative_solvers.BiCGSTAB_reset'] = iterative_solver_contract('bicgstab')
