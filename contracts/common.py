"""shared helpers for the sidecar contracts"""
import z3
from ttvc import harness as H, tensors as T, interp as I
from ttvc.tensors import STensor, SymScalar, is_sym, to_int
from ttvc.terms import Term, ite, fresh_int, fresh_real
from ttvc.oblig import scenario

TRUSTED_COMMON = [
    'op table: assumed contracts of the torch/numpy/opt_einsum functions called by the code (ttvc/tensors.py, ttvc/optable.py), validated against real torch by the differential harness only',
    'Python semantics as encoded by ttvc/interp.py (ints mathematical, reference semantics for lists/objects, name mangling, properties)',
    'floating point treated as exact real (complex: abstract commutative field with involution conj)',
    'z3 5.1 (SMT back end); cvc5 1.0.3 only for queries z3 leaves unknown (a cvc5 counter-model is believed only when z3 or the replay on the real code confirms it)',
]


def TTm(ex):
    return H.tt_class(ex)


def fields(ob, t):
    return H.tt_fields(ob.ex, t)


def mode_index(ob, t, prefix='i'):
    """fresh index for every mode of TT object t (tensor: list of ints ; operator: list of (m, n))"""
    f = fields(ob, t)
    if f['is_ttm']:
        return list(zip(H.fresh_index(ob.ex, f['M'], prefix + 'm'), H.fresh_index(ob.ex, f['N'], prefix + 'n')))
    return H.fresh_index(ob.ex, f['N'], prefix)


def val(ob, t, idx):
    return H.tt_val(ob.ex, t, idx)


def is_tt(v):
    return isinstance(v, I.SObj) and v.cls.name == 'TT'


def core_dtypes(ob, t):
    return [c.dtype for c in t.attrs['cores']]


def prove_dtype(ob, r, want, name='dtype'):
    got = core_dtypes(ob, r)
    if all(g == want for g in got):
        ob.ok(name, 'dtype')
    else:
        ob.fail(name, 'dtype', 'core dtypes %s, expected %s' % (got, want))


def sym_scalar(ob, kind, name='c'):
    """a symbolic scalar of the given python/numpy/torch kind ; returns (value, spec for replay, Term)"""
    ex = ob.ex
    if kind in ('int', 'np.int64'):
        v = z3.Int(name)
        s = SymScalar(v, 'int', kind)
        ob.describe(name, {'kind': kind, 'value': v})
        return s, Term.of(v)
    if kind == 'np.uint8':
        # an unsigned numpy scalar (0..255): its negation wraps around, so `x - c` must not be computed as `x + (-c)`
        v = z3.Int(name)
        ob.ex.assume(z3.And(v >= 0, v < 256))
        s = SymScalar(v, 'int', kind)
        ob.describe(name, {'kind': kind, 'value': v})
        return s, Term.of(v)
    if kind in ('float', 'np.float64', 'np.float32'):
        v = z3.Real(name)
        s = SymScalar(v, 'float', kind)
        ob.describe(name, {'kind': kind, 'value': v})
        return s, Term.of(v)
    if kind == 'complex':
        v = z3.Real(name)
        s = SymScalar(v, 'complex', 'complex')
        ob.describe(name, {'kind': kind, 'value': v})
        return s, Term.of(v)
    if kind == 'tensor0_f32':
        # a single precision 0-d tensor scalar (value representable in float32) used with operands of any dtype: torch computes
        # `double tensor op float32 0-d tensor` in double precision, so the result is exact and keeps the operand's dtype
        from ttvc import terms as _terms
        v = z3.Real(name)
        t = STensor([], 'float32', lambda idx: Term.of(v))
        t.name = name
        ob.ex.assume(_terms.R32(v) == v)
        ob.ex.register_arg(t, name)
        ob.describe(name, {'kind': 'tensor0', 'value': v, 'dtype': 'float32', 'representable32': True})
        return t, Term.of(v)
    if kind == 'tensor1_f64':
        # a double precision tensor of shape (1,) (value representable in float32) used with operands of any dtype: as a *dimensioned*
        # tensor it takes part in torch's dtype promotion, so `float32 core op it` is float64 -- the operators must treat it as a scalar
        from ttvc import terms as _terms
        v = z3.Real(name)
        t = STensor([T.Axis(1)], 'float64', lambda idx: Term.of(v))
        t.name = name
        ob.ex.assume(_terms.R32(v) == v)
        ob.ex.register_arg(t, name)
        ob.describe(name, {'kind': 'tensor1', 'value': v, 'dtype': 'float64', 'representable32': True})
        return t, Term.of(v)
    if kind in ('tensor0', 'tensor1'):
        v = z3.Real(name)
        # the scalar tensor has the dtype of the TT operand (mixed-dtype promotion is not part of the property)
        t = STensor([] if kind == 'tensor0' else [T.Axis(1)], ob.dt(), lambda idx: Term.of(v))
        t.name = name
        ob.ex.register_arg(t, name)
        ob.describe(name, {'kind': kind, 'value': v, 'dtype': ob.dt()})
        return t, Term.of(v)
    raise ValueError(kind)


def all_eq(ob, name, xs, ys, kind='shape'):
    ob.same_seq(name, list(xs), list(ys), kind)


def orders(lo, hi):
    return [dict(d=d) for d in range(lo, hi + 1)]


def run_rmode(prop, tier, seed, repo):
    """bounded stand-in: run-time contracts (icontract) on the real functions over an enumerated family (never counted as proved)"""
    import json, os, subprocess
    here = os.path.dirname(os.path.dirname(os.path.abspath(__file__)))
    py = os.path.join(here, '.venv312', 'bin', 'python')
    if not os.path.exists(py):
        subprocess.run(['sh', os.path.join(here, 'setup.sh')], capture_output=True, text=True, timeout=600)
    env = dict(os.environ)
    env['PYTHONPATH'] = repo
    env['PYTHONWARNINGS'] = 'ignore'
    try:
        p = subprocess.run([py, os.path.join(here, 'runtime', 'rmode.py'), prop, '--tier', tier, '--seed', str(seed), '--repo', repo],
                           env=env, capture_output=True, text=True, timeout=3000)
    except subprocess.TimeoutExpired:
        return [{'name': 'rmode.%s' % prop, 'error': 'timeout', 'evaluations': 0, 'failures': []}]
    lines = [l for l in p.stdout.splitlines() if l.startswith('RMODE-RESULT ')]
    if not lines:
        return [{'name': 'rmode.%s' % prop, 'error': (p.stdout + p.stderr)[-1500:], 'evaluations': 0, 'failures': []}]
    d = json.loads(lines[-1][len('RMODE-RESULT '):])
    d['kind'] = 'bounded run-time contracts (icontract) on the real functions; NOT counted as proved'
    fails = d.get('failures', [])
    d['failures'] = fails[:25]
    d['n_failures'] = len(fails)
    d.pop('slowest', None)
    return [d]
