"""
C05 -- every reachable TT object is structurally well formed.

Induction on the history: objects are created only by TT.__init__; only set_core / reduce_dims (documented in-place API)
and writes through the `cores` list can change one afterwards.  Hence wf for all reachable objects follows from
  (1) TT.__init__ returns normally  ==>  wf(self)                       [all branches]
  (2) set_core / reduce_dims re-establish wf                             [in-place API]
  (3) no other code writes the private fields or `shape`, and every write into a `.cores` list is at a reviewed site
      whose object is fresh or keeps the core shape                      [mechanical AST scan + frame obligations of C06]
  (4) the accessors N, M, R return copies.
"""
import ast
import itertools
import os
import z3
from ttvc import harness as H, tensors as T, interp as I
from ttvc.tensors import STensor, SymScalar, is_sym, to_int, PyRaise
from ttvc.terms import Term, ite, fresh_int
from ttvc.oblig import scenario
from .common import *

LEVEL = 'proof'
TRUSTED = TRUSTED_COMMON
ASSUMPTIONS = ['history argument (induction over the sequence of public calls) is on paper; its three premises are the discharged obligations',
               'orders d<=3 for constructor ndim patterns (quick d<=2), d<=4 for set_core/reduce_dims; all sizes symbolic and independent']
EXPLANATION = 'data-structure invariant wf as postcondition of the constructor and of the in-place API, plus a mechanical scan of every write to TT internals'


def grid_ctor(dmax):
    out = []
    for d in range(1, dmax + 1):
        for nd in itertools.product([3, 4], repeat=d):
            out.append(dict(ndims=nd))
    out += [dict(ndims=(2,)), dict(ndims=(5,)), dict(ndims=(3, 2)), dict(ndims=(4, 5)), dict(ndims=(1, 3))]
    return out


@scenario('C05', 'ctor.list', 'torchtt._tt_base.TT.__init__', quick=grid_ctor(2), thorough=grid_ctor(4), replay='ctor_list',
          allow_raise=('RankMismatch', 'InvalidArguments'))
def ctor_list(ob, ndims):
    """TT(list of tensors of arbitrary shapes): returns normally ==> wf ; otherwise raises RankMismatch / InvalidArguments"""
    ex = ob.ex
    cores = []
    shapes = []
    for k, nd in enumerate(ndims):
        shp = H.sym_sizes(ex, 'c%d_s' % k, nd)
        shapes.append(shp)
        cores.append(T.atom_tensor('c%d' % k, shp))
    ob.describe('shapes', shapes)
    ob.replay_args = {}
    ex.register_arg(cores, 'cores_list')        # the caller's list: the object must keep its own list (two objects built from one
    obj = ex.instantiate(H.tt_class(ex), [cores], {})     # list would otherwise be changed together by set_core / reduce_dims)
    ob.wf(obj)
    # the fields describe exactly the given cores
    f = fields(ob, obj)
    ob.prove('kind', f['is_ttm'] is (ndims[0] == 4))
    ob.prove('cores_identity', all(a is b for a, b in zip(obj.attrs['cores'], cores)) and len(obj.attrs['cores']) == len(cores))


@scenario('C05', 'ctor.none', 'torchtt._tt_base.TT.__init__', quick=[dict()], replay='ctor_none')
def ctor_none(ob):
    """TT(None): the empty object still reports a consistent (empty) description"""
    ex = ob.ex
    obj = ex.instantiate(H.tt_class(ex), [None], {})
    a = obj.attrs
    ob.prove('N_empty', ex.getattr(obj, 'N') == [])
    ob.prove('R', ex.getattr(obj, 'R') == [1, 1])
    ob.prove('is_ttm', ex.getattr(obj, 'is_ttm') is False)
    if 'shape' in a:
        ob.prove('shape_empty', a['shape'] == [])
    else:
        ob.fail('shape_defined', 'wf', 'TT(None) has no attribute `shape`')


def grid_setcore(dmax):
    out = []
    for d in range(1, dmax + 1):
        for k in range(-1, d + 1):
            for ttm in (False, True):
                out.append(dict(d=d, k=k, ttm=ttm, nd=4 if ttm else 3))
        out.append(dict(d=d, k=0, ttm=False, nd=4))
        out.append(dict(d=d, k=0, ttm=True, nd=3))
    return out


@scenario('C05', 'set_core', 'torchtt._tt_base.TT.set_core', quick=grid_setcore(2), thorough=grid_setcore(4), replay='set_core',
          allow_raise=('InvalidArguments', 'IndexError'))
def set_core(ob, d, k, ttm, nd):
    """set_core(k, core) with a core of arbitrary shape: raises, or leaves a well-formed object whose N/M/shape follow the new core"""
    ex = ob.ex
    x = ob.tt('x', d, ttm=ttm, register=False)
    shp = H.sym_sizes(ex, 'new_s', nd)
    core = T.atom_tensor('newc', shp)
    ob.describe('new_shape', shp)
    ob.describe('k', k)
    ob.replay_args = {'x': 'x'}
    ex.call(ex.getattr(x, 'set_core'), [k, core])
    ob.wf(x)
    f = fields(ob, x)
    if 0 <= k < d and nd == (4 if ttm else 3):
        ob.prove('N_k', H._eq(f['N'][k], shp[2] if ttm else shp[1]))
        if ttm:
            ob.prove('M_k', H._eq(f['M'][k], shp[1]))
        new = x.attrs['cores'][k]
        ob.prove('copied', new.storage is not core.storage)
        idx = H.fresh_axis_index(ex, new)
        ob.prove_eq('core_value', new.at(idx), core.at(idx))


def singles(d):
    return list(itertools.product([False, True], repeat=d))


def grid_reduce(dmax):
    out = []
    for d in range(1, dmax + 1):
        for ttm in (False, True):
            if ttm and d > 3:
                continue
            excl = [()] + [(k,) for k in range(d)] + ([(0, d - 1)] if d > 2 else [])
            for e in excl:
                out.append(dict(d=d, ttm=ttm, exclude=e))
    return out


@scenario('C05', 'reduce_dims', 'torchtt._tt_base.TT.reduce_dims', quick=grid_reduce(3), thorough=grid_reduce(4), replay='reduce_dims', max_paths=3000)
def reduce_dims(ob, d, ttm, exclude):
    """reduce_dims(exclude): afterwards wf holds, exactly the size-1 modes not in `exclude` are gone (at least one mode is kept)
    and the value is unchanged"""
    ex = ob.ex
    x = ob.tt('x', d, ttm=ttm, register=False)
    ob.describe('exclude', list(exclude))
    ob.replay_args = {'x': 'x'}
    oldcores = list(x.attrs['cores'])
    N0, M0 = list(x.N_), (list(x.M_) if ttm else None)
    ex.call(ex.getattr(x, 'reduce_dims'), [list(exclude)] if exclude else [])
    ob.wf(x)
    f = fields(ob, x)
    # which modes are singleton on this path?
    single = []
    for k in range(d):
        c = (N0[k] == 1) if not ttm else z3.And(N0[k] == 1, M0[k] == 1)
        if ex.pc.implied(c):
            single.append(True)
        elif ex.pc.implied(z3.Not(c)):
            single.append(False)
        else:
            ob.undecided('singleton_pattern', 'post', 'singleton status of mode %d not decided on this path' % k)
            return
    kept = [k for k in range(d) if not (single[k] and k not in exclude)]
    if not kept:
        ob.prove('keeps_one_mode', len(f['N']) == 1)
        if len(f['N']) == 1:
            ob.prove('last_mode_is_1', H._eq(f['N'][0], 1))
            idx = [(0, 0)] if ttm else [0]
            full_idx = [(0, 0)] * d if ttm else [0] * d
            ob.prove_eq('value', val(ob, x, idx), H.chain_value(oldcores, full_idx, ttm=ttm))
        return
    all_eq(ob, 'N', f['N'], [N0[k] for k in kept])
    if ttm:
        all_eq(ob, 'M', f['M'], [M0[k] for k in kept])
    if len(f['N']) == len(kept):
        idx = mode_index(ob, x)
        full_idx = []
        for k in range(d):
            if k in kept:
                full_idx.append(idx[kept.index(k)])
            else:
                full_idx.append((0, 0) if ttm else 0)
        ob.prove_eq('value', val(ob, x, idx), H.chain_value(oldcores, full_idx, ttm=ttm))


@scenario('C05', 'accessors', 'torchtt._tt_base.TT', quick=[dict(ttm=False), dict(ttm=True)], replay=None)
def accessors(ob, ttm):
    """N, M, R hand out copies: mutating the returned list does not touch the object"""
    ex = ob.ex
    x = ob.tt('x', 2, ttm=ttm, register=False)
    cn = x.cls.name
    for name in ['N', 'R'] + (['M'] if ttm else []):
        got = ex.getattr(x, name)
        internal = x.attrs['_%s__%s' % (cn, name)]
        ob.prove('%s_is_copy' % name, isinstance(got, list) and got is not internal)
    if not ttm:
        try:
            ex.getattr(x, 'M')
            ob.fail('M_on_tensor_raises', 'post', 'x.M on a TT tensor did not raise')
        except PyRaise as e:
            ob.prove('M_on_tensor_raises', e.cls == 'IncompatibleTypes')


# ------------------------------------------------------------------------------------------------
# mechanical scan of writes to TT internals
# ------------------------------------------------------------------------------------------------

PRIVATE = ('_TT__N', '_TT__M', '_TT__R', '_TT__is_ttm')
FIELD_WRITERS = {'TT.__init__', 'TT.set_core', 'TT.reduce_dims'}
# reviewed sites that store into a `.cores` list: (function, target expression) -> why it preserves wf
REVIEWED_CORE_WRITES = {
    ('TT.__init__', 'self.cores'): 'constructor',
    ('TT.set_core', 'self.cores[k]'): 'documented in-place API; wf proved (set_core scenario)',
    ('TT.reduce_dims', 'self.cores[i + 1]'): 'documented in-place API; wf proved (reduce_dims scenario)',
    ('TT.reduce_dims', 'self.cores'): 'documented in-place API; wf proved (reduce_dims scenario)',
    ('TT.__rsub__', 'T.cores[0]'): 'T is the fresh result of __sub__; negation keeps the core shape (value proved in C03 scalar[rsub])',
    ('TT.__rtruediv__', 'o.cores[0]'): 'o is a fresh all-ones train; scaling keeps the core shape',
}


def _unparse(n):
    return ast.unparse(n)


def scan_repo(repo):
    """returns list of (file, function, target text, kind) for every store that touches TT internals"""
    found = []
    base = os.path.join(repo, 'torchtt')
    for fn in sorted(os.listdir(base)):
        if not fn.endswith('.py') or fn == '_torchtt.py':
            continue
        tree = ast.parse(open(os.path.join(base, fn)).read())

        def visit(node, qual):
            for ch in ast.iter_child_nodes(node):
                q = qual
                if isinstance(ch, ast.ClassDef):
                    q = ch.name
                elif isinstance(ch, (ast.FunctionDef, ast.AsyncFunctionDef)):
                    q = (qual + '.' if qual else '') + ch.name
                targets = []
                if isinstance(ch, ast.Assign):
                    targets = ch.targets
                elif isinstance(ch, (ast.AugAssign, ast.AnnAssign)):
                    targets = [ch.target]
                for t in targets:
                    for tt_ in (t.elts if isinstance(t, (ast.Tuple, ast.List)) else [t]):
                        if isinstance(tt_, ast.Attribute):
                            name = tt_.attr
                            mangled = '_TT' + name if name.startswith('__') and not name.endswith('__') else name
                            if mangled in PRIVATE or name in ('shape', 'cores'):
                                found.append((fn, q, _unparse(tt_), 'field'))
                        if isinstance(tt_, ast.Subscript) and isinstance(tt_.value, ast.Attribute) and tt_.value.attr == 'cores':
                            found.append((fn, q, _unparse(tt_), 'cores_item'))
                visit(ch, q)
        visit(tree, '')
    return found


@scenario('C05', 'field_write_scan', 'torchtt/*.py', quick=[dict()], replay=None)
def field_write_scan(ob):
    """only __init__, set_core, reduce_dims assign the private fields and `shape`; every store into a `.cores` list is reviewed"""
    repo = ob.ex.repo
    n = 0
    for fn, q, tgt, kind in scan_repo(repo):
        n += 1
        name = 'site.%s.%s.%s' % (fn[:-3], q, tgt.replace(' ', ''))
        if not q.startswith('TT.') and tgt.startswith('self.') and '.' in q:
            # `self.<attr>` inside a method of another class (nn.Module layer, local linear operators) is that class's own attribute
            ob.ok(name, 'scan')
            continue
        if kind == 'field':
            if fn == '_tt_base.py' and q in FIELD_WRITERS:
                ob.ok(name, 'scan')
            else:
                ob.fail(name, 'scan', 'assignment to TT field `%s` in %s:%s outside __init__/set_core/reduce_dims' % (tgt, fn, q))
        else:
            if (q, tgt) in REVIEWED_CORE_WRITES:
                ob.ok(name, 'scan')
            else:
                ob.fail(name, 'scan', 'unreviewed store into a cores list: `%s` in %s:%s' % (tgt, fn, q))
    ob.prove('scan_nonempty', n >= 8)


# ---- premise (1), dense sources: wf of TT(dense tensor / ndarray [, shape]) -- the wf obligations of the C01 constructor scenarios
def _import_dense_ctor():
    import inspect
    from ttvc.oblig import Scenario, SCENARIOS
    from . import c01 as _c01
    for s_ in list(SCENARIOS.get('C01', [])):
        if s_.name not in ('to_tt', 'to_tt.rmax_list', 'mat_to_tt'):
            continue

        def mk(fn):
            def inner(ob, **kw):
                fn(ob, **kw)
                ob.results = [r for r in ob.results if r['kind'] in ('wf', 'frame') or r['name'] in ('N', 'M', 'kind')]
            inner.__signature__ = inspect.signature(fn)
            return inner
        small = [p for p in s_.grid('quick') if p.get('d', 1) <= 3]
        SCENARIOS.setdefault('C05', []).append(Scenario('C05', 'ctor.dense.via.C01.%s' % s_.name, s_.func, mk(s_.fn), small, s_.grid_quick, replay=s_.replay, max_paths=s_.max_paths))


_import_dense_ctor()


@scenario('C05', 'canary.wf_without_rank_check', 'torchtt._tt_base.TT.__init__', quick=[dict()], replay=None)
def canary(ob):
    """two cores with independent ranks: claiming that construction never raises must be refuted"""
    ex = ob.ex
    cores = [T.atom_tensor('c0', H.sym_sizes(ex, 'a', 3)), T.atom_tensor('c1', H.sym_sizes(ex, 'b', 3))]
    ex.instantiate(H.tt_class(ex), [cores], {})


canary.canary = True
