"""
C18 -- incompatible operands raise an error instead of returning a wrong tensor.

Contract shape:  requires not compatible(args)   ensures raises
(must_raise: every symbolic path of the real function ends in an exception -- an explicit `raise` or an op-table
 call whose precondition is definitely violated, so that torch raises).  A path that returns is a counter-model.
"""
import itertools
import z3
from ttvc import harness as H, tensors as T, interp as I
from ttvc.tensors import STensor, SymScalar, is_sym, to_int
from ttvc.terms import Term, ite, fresh_int
from ttvc.oblig import scenario
from .common import *

LEVEL = 'proof'
TRUSTED = TRUSTED_COMMON + ['the op table must be exact about when torch raises and when it broadcasts (size-1 letters in einsum, + on padded cores, slice assignment)']
ASSUMPTIONS = ['orders d<=3 (quick d<=2) per operand, mismatch position enumerated, sizes symbolic',
               'incompatible = the dense counterpart of the call is undefined under torch broadcasting / the documented argument types',
               'amen_mm / dmrg_hadamard have no argument guards: for shape mismatches their raising behaviour is decided by the bounded run-time stand-in of C11 only']
EXPLANATION = 'must-raise obligations over all symbolic paths'
DOC = ('ShapeMismatch', 'RankMismatch', 'IncompatibleTypes', 'InvalidArguments', 'NotImplementedError')

OPN = {'add': 'Add', 'sub': 'Sub', 'mul': 'Mult', 'div': 'Div', 'matmul': 'MatMult', 'pow': 'Pow'}


def mismatch(ex, a, b):
    """sizes a and b are not broadcast-compatible"""
    ex.assume(z3.And(a != b, a != 1, b != 1))


# ---- element-wise binary operators: mode-size mismatch at position k
def grid_binop_size(dmax):
    out = []
    for op in ('add', 'sub', 'mul'):
        for dx in range(1, dmax + 1):
            for dy in range(1, dx + 1):
                for k in range(dy):
                    out.append(dict(op=op, dx=dx, dy=dy, k=k, ttm=False))
        for d in range(1, min(dmax, 2) + 1):
            for k in range(d):
                for which in ('M', 'N'):
                    out.append(dict(op=op, dx=d, dy=d, k=k, ttm=which))
    for d in range(1, min(dmax, 2) + 1):
        for k in range(d):
            out.append(dict(op='div', dx=d, dy=d, k=k, ttm=False))
    return out


@scenario('C18', 'binop.size_mismatch', ['torchtt._tt_base.TT.__add__', 'torchtt._tt_base.TT.__sub__', 'torchtt._tt_base.TT.__mul__', 'torchtt._tt_base.TT.__truediv__'],
          quick=grid_binop_size(2), thorough=grid_binop_size(4), expect='raise', documented=DOC, replay='tt_op')
def binop_size(ob, op, dx, dy, k, ttm):
    ex = ob.ex
    if ttm:
        x = ob.tt('x', dx, ttm=True)
        y = ob.tt('y', dy, ttm=True)
        for j in range(dy):
            if j != k:
                ex.assume(x.N_[j] == y.N_[j])
                ex.assume(x.M_[j] == y.M_[j])
        if ttm == 'M':
            ex.assume(x.N_[k] == y.N_[k])
            mismatch(ex, x.M_[k], y.M_[k])
        else:
            ex.assume(x.M_[k] == y.M_[k])
            mismatch(ex, x.N_[k], y.N_[k])
    else:
        x = ob.tt('x', dx)
        y = ob.tt('y', dy)
        off = dx - dy
        mismatch(ex, x.N_[k + off], y.N_[k])
    ob.replay_args = {'op': op, 'x': 'x', 'y': 'y', 'expect_raise': True}
    ob.ret = ex.binop(OPN[op], x, y)


def grid_kind():
    return [dict(op=op, d=d, first=f) for op in ('add', 'sub', 'mul', 'div', 'pow') for d in (1, 2) for f in ('tt', 'ttm')]


@scenario('C18', 'binop.kind_mismatch', ['torchtt._tt_base.TT.__add__', 'torchtt._tt_base.TT.__sub__', 'torchtt._tt_base.TT.__mul__', 'torchtt._tt_base.TT.__truediv__', 'torchtt._tt_base.TT.__pow__'],
          quick=grid_kind(), expect='raise', documented=DOC, replay='tt_op')
def binop_kind(ob, op, d, first):
    """tensor (op) operator"""
    ex = ob.ex
    a = ob.tt('a', d, ttm=(first == 'ttm'))
    N = a.N_
    b = ob.tt('b', d, ttm=(first != 'ttm'), N=N, M=(N if first != 'ttm' else None))
    ob.replay_args = {'op': 'kron' if op == 'pow' else op, 'x': 'a', 'y': 'b', 'expect_raise': True}
    ob.ret = ex.binop(OPN[op], a, b)


BAD_VALUES = {'list': lambda: [1, 2], 'str': lambda: 'a', 'none': lambda: None}


def grid_badtype():
    out = []
    for op in ('add', 'sub', 'mul', 'div', 'matmul'):
        for bad in ('list', 'str', 'none'):
            if op in ('add', 'sub', 'mul') and bad == 'str':
                continue        # np.isscalar('a') is True: strings take the scalar branch and torch raises there; covered by 'scalar_str'
            for ttm in (False, True):
                out.append(dict(op=op, bad=bad, ttm=ttm))
    out += [dict(op='pow', bad='list', ttm=False), dict(op='pow', bad='str', ttm=False)]
    return out


@scenario('C18', 'binop.bad_type', ['torchtt._tt_base.TT.__add__', 'torchtt._tt_base.TT.__sub__', 'torchtt._tt_base.TT.__mul__', 'torchtt._tt_base.TT.__truediv__',
                                    'torchtt._tt_base.TT.__matmul__', 'torchtt._tt_base.TT.__pow__'],
          quick=grid_badtype(), expect='raise', replay='tt_op')
def binop_badtype(ob, op, bad, ttm):
    ex = ob.ex
    x = ob.tt('x', 2, ttm=ttm)
    ob.describe('y', {'kind': bad})
    ob.replay_args = {'op': 'kron' if op == 'pow' else op, 'x': 'x', 'y': 'y', 'expect_raise': True}
    ob.ret = ex.binop(OPN[op], x, BAD_VALUES[bad]())


def grid_matmul(dmax):
    out = []
    for kind in ('mv', 'vm', 'mm'):
        for d in range(1, dmax + 1):
            for k in range(d):
                out.append(dict(kind=kind, d=d, k=k))
    out += [dict(kind='vv', d=d, k=0) for d in (1, 2)]
    out += [dict(kind='order', d=2, k=0), dict(kind='order_mm', d=2, k=0)]
    return out


@scenario('C18', 'matmul.mismatch', 'torchtt._tt_base.TT.__matmul__', quick=grid_matmul(2), thorough=grid_matmul(3), expect='raise', documented=DOC, replay='tt_op')
def matmul_mismatch(ob, kind, d, k):
    ex = ob.ex
    if kind == 'vv':
        a = ob.tt('a', d)
        b = ob.tt('b', d, N=a.N_)
    elif kind == 'order':
        a = ob.tt('a', d, ttm=True)
        b = ob.tt('b', d + 1)
    elif kind == 'order_mm':
        a = ob.tt('a', d, ttm=True)
        b = ob.tt('b', d - 1, ttm=True)
    else:
        a = ob.tt('a', d, ttm=(kind != 'vm'))
        b = ob.tt('b', d, ttm=(kind != 'mv'))
        inner_a = a.N_
        inner_b = b.M_ if kind != 'mv' else b.N_
        for j in range(d):
            if j != k:
                ex.assume(inner_a[j] == inner_b[j])
        ex.assume(inner_a[k] != inner_b[k])
    ob.replay_args = {'op': 'matmul', 'x': 'a', 'y': 'b', 'expect_raise': True}
    ob.ret = ex.binop('MatMult', a, b)


@scenario('C18', 'matmul.dense_mismatch', ['torchtt._tt_base.TT.__matmul__', 'torchtt._aux_ops.dense_matvec'],
          quick=[dict(d=d, k=k, nb=nb) for d in (1, 2) for k in range(d) for nb in (0, 1)], expect='raise', replay='tt_op')
def matmul_dense_mismatch(ob, d, k, nb):
    ex = ob.ex
    A = ob.tt('A', d, ttm=True)
    B = H.sym_sizes(ex, 'B', nb)
    shp = H.sym_sizes(ex, 'Dn', d)
    for j in range(d):
        if j != k:
            ex.assume(shp[j] == A.N_[j])
    ex.assume(shp[k] != A.N_[k])
    D = T.atom_tensor('D', B + shp)
    ob.describe('D', {'kind': 'dense', 'shape': B + shp})
    ob.replay_args = {'op': 'matmul', 'x': 'A', 'y': 'D', 'expect_raise': True}
    ob.ret = ex.binop('MatMult', A, D)


# ---- methods
@scenario('C18', 'method.misuse', 'torchtt._tt_base.TT', quick=[dict(case=c) for c in (
        't_on_tensor', 'sum_out_of_range', 'sum_list_out_of_range', 'sum_list_high_first', 'sum_ttm_out_of_range', 'sum_negative', 'sum_bad_type', 'mprod_on_ttm', 'mprod_size', 'mprod_bad_args', 'mprod_mode_range',
        'qtt_not_list', 'qtt_shape', 'getitem_too_few', 'getitem_too_many', 'getitem_int_range', 'getitem_float', 'getitem_bool', 'mul_multi_element', 'div_multi_element', 'apply_mask_extra_columns', 'sum_duplicate_axes', 'sum_bool_axis', 'getitem_two_ellipsis',
        'getitem_int_on_order2', 'getitem_slice_on_order2', 'getitem_ttm_ellipsis', 'getitem_ttm_mixed', 'set_core_index', 'set_core_rank',
        'fast_matvec_not_tt', 'fast_matvec_kinds', 'fast_matvec_shape', 'fast_matvec_order', 'mprod_list_len', 'getitem_ttm_odd', 'to_qtt_not_power', 'to_qtt_tensor_not_power', 'to_qtt_ttm_rect', 'ctor_bad_source', 'getitem_str',
        'getitem_ttm_single_int', 'getitem_ttm_single_slice', 'getitem_bare_bool', 'ctor_shape_count', 'ctor_shape_count_numpy', 'ctor_shape_count_ttm', 'round_rmax_zero', 'round_rmax_list_zero', 'round_rmax_negative', 'round_rmax_list_short', 'round_rmax_list_long')],
          expect='raise', replay='misuse')
def method_misuse(ob, case):
    ex = ob.ex
    ob.describe('case', case)
    ob.replay_args = {'case': case}
    call = lambda o, name, *a: ex.call(ex.getattr(o, name), list(a))
    if case == 't_on_tensor':
        ob.ret = call(ob.tt('x', 2), 't')
    elif case == 'sum_out_of_range':
        ob.ret = call(ob.tt('x', 3), 'sum', 7)
    elif case == 'sum_list_out_of_range':
        ob.ret = call(ob.tt('x', 3), 'sum', [0, 3])          # a valid axis together with an axis >= d
    elif case == 'sum_list_high_first':
        ob.ret = call(ob.tt('x', 3), 'sum', [5, 1])
    elif case == 'sum_ttm_out_of_range':
        ob.ret = call(ob.tt('x', 2, ttm=True), 'sum', [1, 2])
    elif case == 'sum_negative':
        ob.ret = call(ob.tt('x', 3), 'sum', [-5])
    elif case == 'sum_bad_type':
        ob.ret = call(ob.tt('x', 3), 'sum', 'a')
    elif case == 'mprod_on_ttm':
        x = ob.tt('x', 2, ttm=True)
        ob.ret = call(x, 'mprod', T.atom_tensor('F', [z3.Int('L'), x.N_[0]]), 0)
    elif case == 'mprod_size':
        x = ob.tt('x', 2)
        q = z3.Int('q')
        ex.assume(q >= 1)
        ex.assume(q != x.N_[1])
        ob.ret = call(x, 'mprod', T.atom_tensor('F', [z3.Int('L'), q]), 1)
    elif case == 'mprod_bad_args':
        x = ob.tt('x', 2)
        ob.ret = call(x, 'mprod', [T.atom_tensor('F', [2, x.N_[0]])], 0)
    elif case == 'mprod_mode_range':
        x = ob.tt('x', 2)
        ob.ret = call(x, 'mprod', T.atom_tensor('F', [2, x.N_[0]]), 5)
    elif case == 'qtt_not_list':
        ob.ret = call(ob.tt('x', 2), 'qtt_to_tens', (4,))
    elif case == 'qtt_shape':
        x = ob.tt('x', 2)
        q = z3.Int('q')
        ex.assume(q >= 1)
        ex.assume(q != x.N_[0] * x.N_[1])
        ex.assume(q != x.N_[0])
        ob.ret = call(x, 'qtt_to_tens', [q])
    elif case == 'getitem_too_few':
        ob.ret = ex.optable.subscript(ex, ob.tt('x', 3), (0, slice(None)))
    elif case == 'getitem_too_many':
        ob.ret = ex.optable.subscript(ex, ob.tt('x', 2), (0, 0, 0))
    elif case == 'getitem_int_range':
        x = ob.tt('x', 2)
        i = z3.Int('i')
        ex.assume(z3.Or(i >= x.N_[0], i < -x.N_[0]))
        ob.ret = ex.optable.subscript(ex, x, (i, 0))
    elif case == 'getitem_float':
        ob.ret = ex.optable.subscript(ex, ob.tt('x', 2), (1.5, 0))
    elif case == 'getitem_str':
        ob.ret = ex.optable.subscript(ex, ob.tt('x', 2), 'a')
    elif case == 'getitem_bool':
        ob.ret = ex.optable.subscript(ex, ob.tt('x', 2), (True, 0, 0))
    elif case == 'getitem_ttm_single_int':
        # an operator entry needs a row and a column index: one index is the wrong number of indices
        ob.ret = ex.optable.subscript(ex, ob.tt('A', 1, ttm=True), 0)
    elif case == 'getitem_ttm_single_slice':
        ob.ret = ex.optable.subscript(ex, ob.tt('A', 1, ttm=True), slice(0, 1))
    elif case == 'getitem_bare_bool':
        ob.ret = ex.optable.subscript(ex, ob.tt('x', 1), True)
    elif case in ('round_rmax_list_short', 'round_rmax_list_long'):
        # a per-rank list of maximum ranks has d+1 entries (boundary ranks included)
        x = ob.tt('x', 3)
        ob.ret = ex.call(ex.getattr(x, 'round'), [], {'eps': 1e-10, 'rmax': [1, 2, 1] if case == 'round_rmax_list_short' else [1, 2, 2, 1, 7, 7]})
    elif case in ('round_rmax_zero', 'round_rmax_list_zero', 'round_rmax_negative'):
        # a TT rank is at least 1: a maximum rank below 1 is not a valid rank bound
        x = ob.tt('x', 2)
        if case == 'round_rmax_zero':
            rm = 0
        elif case == 'round_rmax_negative':
            rm = z3.Int('rm')
            ex.assume(rm < 1)
        else:
            rm = [1, 0, 1]
        ob.ret = ex.call(ex.getattr(x, 'round'), [], {'eps': 1e-10, 'rmax': rm})
    elif case in ('mul_multi_element', 'div_multi_element'):
        # a tensor with more than one element is not a scalar (its length may happen to broadcast against a rank)
        x = ob.tt('x', 2)
        q = z3.Int('q')
        ex.assume(q >= 2)
        c = T.atom_tensor('c', [q])
        ob.ret = ex.binop('Mult' if case == 'mul_multi_element' else 'Div', x, c)
    elif case == 'apply_mask_extra_columns':
        x = ob.tt('x', 2)
        IDX = z3.Function('IDXm', z3.IntSort(), z3.IntSort(), z3.IntSort())
        ind = STensor([T.Axis(2), T.Axis(3)], 'int64', None, ival=lambda idx: IDX(to_int(idx[0][0]), to_int(idx[1][0])))
        ind.nonneg = True
        j, k = z3.Int('jq'), z3.Int('kq')
        ex.assume(z3.ForAll([j, k], IDX(j, k) == 0))
        ob.ret = call(x, 'apply_mask', ind)
    elif case == 'sum_duplicate_axes':
        ob.ret = call(ob.tt('x', 3), 'sum', [0, 0])
    elif case == 'sum_bool_axis':
        ob.ret = call(ob.tt('x', 3), 'sum', True)
    elif case == 'getitem_two_ellipsis':
        ob.ret = ex.optable.subscript(ex, ob.tt('x', 3), (Ellipsis, 0, Ellipsis))
    elif case == 'getitem_int_on_order2':
        ob.ret = ex.optable.subscript(ex, ob.tt('x', 2), 0)
    elif case == 'getitem_slice_on_order2':
        ob.ret = ex.optable.subscript(ex, ob.tt('x', 2), slice(0, 1))
    elif case == 'getitem_ttm_ellipsis':
        ob.ret = ex.optable.subscript(ex, ob.tt('x', 2, ttm=True), (Ellipsis, 0))
    elif case == 'getitem_ttm_mixed':
        ob.ret = ex.optable.subscript(ex, ob.tt('x', 1, ttm=True), (0, slice(None)))
    elif case == 'set_core_index':
        x = ob.tt('x', 2)
        ob.ret = call(x, 'set_core', 2, T.atom_tensor('c', [1, 2, 1]))
    elif case == 'set_core_rank':
        x = ob.tt('x', 2)
        q = z3.Int('q')
        ex.assume(q >= 1)
        ex.assume(q != x.R_[1])
        ob.ret = call(x, 'set_core', 0, T.atom_tensor('c', [1, 2, q]))
    elif case == 'fast_matvec_not_tt':
        ob.ret = call(ob.tt('A', 2, ttm=True), 'fast_matvec', 3)
    elif case == 'fast_matvec_kinds':
        A = ob.tt('A', 2, ttm=True)
        ob.ret = call(A, 'fast_matvec', ob.tt('B', 2, ttm=True, M=A.N_))
    elif case == 'fast_matvec_shape':
        from . import hooks
        hooks.install(ex)
        A = ob.tt('A', 2, ttm=True)
        x = ob.tt('x', 2)
        ex.assume(z3.Or(x.N_[0] != A.N_[0], x.N_[1] != A.N_[1]))        # includes size-1 modes (einsum would broadcast them)
        ob.ret = call(A, 'fast_matvec', x)
    elif case == 'fast_matvec_order':
        from . import hooks
        hooks.install(ex)
        A = ob.tt('A', 2, ttm=True)
        ob.ret = call(A, 'fast_matvec', ob.tt('x', 3, N=A.N_ + [z3.Int('n_extra')]))
    elif case == 'mprod_list_len':
        x = ob.tt('x', 2)
        ob.ret = call(x, 'mprod', [T.atom_tensor('F', [z3.Int('L'), x.N_[0]])], [0, 1])
    elif case == 'getitem_ttm_odd':
        x = ob.tt('x', 2, ttm=True)
        ob.ret = ex.optable.subscript(ex, x, (0, 0, 0, 0, 0))
    elif case == 'to_qtt_not_power':
        x = ob.tt('x', 2, ttm=True, N=[6, 4], M=[6, 4])
        ob.ret = call(x, 'to_qtt')
    elif case == 'to_qtt_tensor_not_power':
        x = ob.tt('x', 2, N=[3, 2])
        ob.ret = call(x, 'to_qtt')
    elif case == 'to_qtt_ttm_rect':
        x = ob.tt('x', 1, ttm=True, N=[4], M=[2])
        ob.ret = call(x, 'to_qtt')
    elif case == 'ctor_bad_source':
        ob.ret = ex.instantiate(H.tt_class(ex), [3.5], {})
    elif case in ('ctor_shape_count', 'ctor_shape_count_numpy', 'ctor_shape_count_ttm'):
        # the prescribed shape does not account for all entries of the dense source (a stray trailing dimension: an integer multiple
        # of the element count)
        lib = 'numpy' if case == 'ctor_shape_count_numpy' else 'torch'
        if case == 'ctor_shape_count_ttm':
            ob.ret = ex.instantiate(H.tt_class(ex), [T.atom_tensor('D', [2, 3, 2, 3, 2], lib=lib)], {'shape': [(2, 2), (3, 3)]})
        else:
            ob.ret = ex.instantiate(H.tt_class(ex), [T.atom_tensor('D', [2, 3, 4, 2], lib=lib)], {'shape': [2, 3, 4]})
    else:
        raise ValueError(case)


# ---- module-level functions
@scenario('C18', 'function.misuse', 'torchtt._extras', quick=[dict(case=c) for c in (
        'kron_kinds', 'kron_bad', 'dot_not_tt', 'dot_ttm', 'dot_size', 'dot_order', 'dot_axis_order', 'dot_axis_size', 'dot_axis_size1', 'dot_axis_range', 'reshape_negative', 'randn_len_R', 'randn_end_R', 'meshgrid_not_1d', 'bilinear_types', 'bilinear_kinds', 'bilinear_shape',
        'cat_ttm', 'cat_size_before', 'cat_size_after', 'cat_size_both', 'cat_order', 'pad_too_many', 'diag_not_tt', 'permute_not_tt', 'permute_len', 'permute_dup',
        'permute_range', 'reshape_count', 'reshape_ttm_rows', 'reshape_ttm_cols', 'reshape_ttm_swap', 'reshape_ttm_second', 'save_not_tt', 'random_bad_R', 'random_len_R', 'zeros_not_list', 'ones_not_list', 'amen_mv_types', 'amen_mv_kinds', 'amen_mv_shape',
        'amen_solve_types', 'amen_solve_kinds', 'amen_solve_square', 'amen_solve_shape', 'riemann_kinds', 'riemann_order', 'riemann_order_ttm', 'riemann_size',
        'random_rank_zero', 'random_list_rank_zero', 'randn_rank_zero',
        'amen_mm_types', 'amen_mm_kinds', 'amen_mm_shape', 'amen_mm_order', 'cat_dim_range', 'cat_dim_negative', 'cat_single_dim_range', 'cat_single_ttm', 'cat_single_dim_type', 'hadamard_types', 'hadamard_kinds', 'hadamard_order')],
          expect='raise', replay='misuse')
def function_misuse(ob, case):
    ex = ob.ex
    ob.describe('case', case)
    ob.replay_args = {'case': case}
    E = lambda n: ex.module('torchtt._extras').env[n]
    if case == 'kron_kinds':
        ob.ret = ex.call(E('kron'), [ob.tt('a', 2), ob.tt('b', 1, ttm=True)])
    elif case == 'kron_bad':
        ob.ret = ex.call(E('kron'), [ob.tt('a', 2), 3])
    elif case == 'dot_not_tt':
        ob.ret = ex.call(E('dot'), [ob.tt('a', 2), 3.0])
    elif case == 'dot_ttm':
        a = ob.tt('a', 2, ttm=True)
        ob.ret = ex.call(E('dot'), [a, ob.tt('b', 2, ttm=True, N=a.N_, M=a.M_)])
    elif case == 'dot_size':
        a, b = ob.tt('a', 2), ob.tt('b', 2)
        ex.assume(a.N_[0] == b.N_[0])
        mismatch(ex, a.N_[1], b.N_[1])
        ob.ret = ex.call(E('dot'), [a, b])
    elif case == 'dot_order':
        a = ob.tt('a', 2)
        ob.ret = ex.call(E('dot'), [a, ob.tt('b', 3)])
    elif case == 'dot_axis_order':
        a = ob.tt('a', 2)
        ob.ret = ex.call(E('dot'), [a, ob.tt('b', 3), [0]])
    elif case == 'dot_axis_size':
        a, b = ob.tt('a', 3), ob.tt('b', 1)
        mismatch(ex, a.N_[1], b.N_[0])
        ob.ret = ex.call(E('dot'), [a, b, [1]])
    elif case == 'dot_axis_size1':
        a = ob.tt('a', 3)
        b = ob.tt('b', 1, N=[1])
        ex.assume(a.N_[1] >= 2)              # a size-1 mode of b must not be broadcast against a larger mode of a
        ob.ret = ex.call(E('dot'), [a, b, [1]])
    elif case == 'reshape_negative':
        x = ob.tt('x', 2, N=[3, 4])
        ob.ret = ex.call(E('reshape'), [x, [-3, -4]])
    elif case == 'randn_len_R':
        ob.ret = ex.call(E('randn'), [[2, 3], [1, 2, 1, 5, 7]])
    elif case == 'randn_end_R':
        ob.ret = ex.call(E('randn'), [[2, 3], [1, 2, 3]])
    elif case == 'meshgrid_not_1d':
        ob.ret = ex.call(E('meshgrid'), [[T.atom_tensor('v0', [3, 2]), T.atom_tensor('v1', [2])]])
    elif case == 'dot_axis_range':
        a = ob.tt('a', 3)
        b = ob.tt('b', 2, N=a.N_[:2])
        ob.ret = ex.call(E('dot'), [a, b, [0, 1, 6]])
    elif case == 'bilinear_types':
        A = ob.tt('A', 2, ttm=True)
        ob.ret = ex.call(E('bilinear_form'), [3, A, ob.tt('y', 2, N=A.N_)])
    elif case == 'bilinear_kinds':
        A = ob.tt('A', 2)
        ob.ret = ex.call(E('bilinear_form'), [ob.tt('x', 2, N=A.N_), A, ob.tt('y', 2, N=A.N_)])
    elif case == 'bilinear_shape':
        A = ob.tt('A', 2, ttm=True)
        x = ob.tt('x', 2)
        ex.assume(x.N_[0] == A.M_[0])
        ex.assume(x.N_[1] != A.M_[1])
        ob.ret = ex.call(E('bilinear_form'), [x, A, ob.tt('y', 2, N=A.N_)])
    elif case == 'cat_ttm':
        a = ob.tt('a', 2, ttm=True)
        ob.ret = ex.call(E('cat'), [(a, ob.tt('b', 2, ttm=True, N=a.N_, M=a.M_)), 0])
    elif case in ('cat_size_before', 'cat_size_after', 'cat_size_both'):
        a, b = ob.tt('a', 3), ob.tt('b', 3)
        if case == 'cat_size_before':
            ex.assume(a.N_[2] == b.N_[2])
            ex.assume(a.N_[0] != b.N_[0])
        elif case == 'cat_size_after':
            ex.assume(a.N_[0] == b.N_[0])
            ex.assume(a.N_[2] != b.N_[2])
        else:
            ex.assume(a.N_[0] != b.N_[0])
            ex.assume(a.N_[2] != b.N_[2])
        ob.ret = ex.call(E('cat'), [(a, b), 1])
    elif case == 'cat_order':
        a = ob.tt('a', 2)
        b = ob.tt('b', 3, N=a.N_ + [z3.Int('extra')])
        ex.assume(z3.Int('extra') >= 1)
        ob.ret = ex.call(E('cat'), [(a, b), 1])
    elif case == 'pad_too_many':
        ob.ret = ex.call(E('pad'), [ob.tt('x', 1), ((1, 1), (1, 1))])
    elif case == 'diag_not_tt':
        ob.ret = ex.call(E('diag'), [T.atom_tensor('D', [3, 3])])
    elif case == 'permute_not_tt':
        ob.ret = ex.call(E('permute'), [T.atom_tensor('D', [3, 3]), [1, 0]])
    elif case == 'permute_len':
        ob.ret = ex.call(E('permute'), [ob.tt('x', 3), [1, 0]])
    elif case == 'permute_dup':
        ob.ret = ex.call(E('permute'), [ob.tt('x', 3), [1, 1, 0]])
    elif case == 'permute_range':
        ob.ret = ex.call(E('permute'), [ob.tt('x', 3), [1, 2, 3]])
    elif case == 'reshape_count':
        x = ob.tt('x', 2)
        q = z3.Int('q')
        ex.assume(q >= 1)
        ex.assume(q != x.N_[0] * x.N_[1])
        ob.ret = ex.call(E('reshape'), [x, [q]])
    elif case in ('reshape_ttm_rows', 'reshape_ttm_cols', 'reshape_ttm_swap'):
        x = ob.tt('x', 2, ttm=True)
        m, n = z3.Int('qm'), z3.Int('qn')
        ex.assume(m >= 1)
        ex.assume(n >= 1)
        rows, cols = x.M_[0] * x.M_[1], x.N_[0] * x.N_[1]
        if case == 'reshape_ttm_rows':
            ex.assume(m != rows)
            ex.assume(n == cols)
        elif case == 'reshape_ttm_cols':
            ex.assume(m == rows)
            ex.assume(n != cols)
        else:
            # the total number of entries is kept but rows and columns are traded against each other
            ex.assume(m * n == rows * cols)
            ex.assume(m != rows)
        ob.ret = ex.call(E('reshape'), [x, [(m, n)]])
    elif case == 'reshape_ttm_second':
        # first target mode equals the first source mode, the second trades rows against columns (total number of entries kept)
        x = ob.tt('x', 2, ttm=True)
        m, n = z3.Int('qm'), z3.Int('qn')
        ex.assume(m >= 1)
        ex.assume(n >= 1)
        ex.assume(m * n == x.M_[1] * x.N_[1])
        ex.assume(m != x.M_[1])
        ob.ret = ex.call(E('reshape'), [x, [(x.M_[0], x.N_[0]), (m, n)]])
    elif case == 'save_not_tt':
        ob.ret = ex.call(E('save'), [T.atom_tensor('D', [3]), 'f'])
    elif case == 'random_bad_R':
        ob.ret = ex.call(E('random'), [[2, 3], [2, 2, 1]])
    elif case == 'random_len_R':
        ob.ret = ex.call(E('random'), [[2, 3], [1, 2, 2, 1]])
    elif case == 'zeros_not_list':
        ob.ret = ex.call(E('zeros'), [(2, 3)])
    elif case == 'ones_not_list':
        ob.ret = ex.call(E('ones'), [(2, 3)])
    elif case.startswith('amen_mv'):
        f = ex.module('torchtt._amen').env['amen_mv']
        A = ob.tt('A', 2, ttm=True)
        if case == 'amen_mv_types':
            ob.ret = ex.call(f, [A, 3])
        elif case == 'amen_mv_kinds':
            ob.ret = ex.call(f, [A, ob.tt('B', 2, ttm=True, M=A.N_)])
        else:
            b = ob.tt('b', 2)
            ex.assume(z3.Or(b.N_[0] != A.N_[0], b.N_[1] != A.N_[1]))
            ob.ret = ex.call(f, [A, b])
    elif case.startswith('amen_solve'):
        f = ex.module('torchtt.solvers').env['amen_solve']
        if case == 'amen_solve_types':
            ob.ret = ex.call(f, [ob.tt('A', 2, ttm=True), 3])
        elif case == 'amen_solve_kinds':
            A = ob.tt('A', 2)
            ob.ret = ex.call(f, [A, ob.tt('b', 2, N=A.N_)])
        elif case == 'amen_solve_square':
            A = ob.tt('A', 2, ttm=True)
            ex.assume(z3.Or(A.M_[0] != A.N_[0], A.M_[1] != A.N_[1]))
            ob.ret = ex.call(f, [A, ob.tt('b', 2, N=A.N_)])
        else:
            N = H.sym_sizes(ex, 'n', 2)
            A = ob.tt('A', 2, ttm=True, N=N, M=N)
            b = ob.tt('b', 2)
            ex.assume(z3.Or(b.N_[0] != N[0], b.N_[1] != N[1]))
            ob.ret = ex.call(f, [A, b])
    elif case.startswith('amen_mm'):
        from . import hooks
        hooks.install(ex)
        f = ex.module('torchtt._amen').env['amen_mm']
        A = ob.tt('A', 2, ttm=True)
        if case == 'amen_mm_types':
            ob.ret = ex.call(f, [A, 3])
        elif case == 'amen_mm_kinds':
            ob.ret = ex.call(f, [A, ob.tt('b', 2, N=A.N_)])
        elif case == 'amen_mm_order':
            ob.ret = ex.call(f, [A, ob.tt('B', 1, ttm=True, M=A.N_[:1])])
        else:
            B = ob.tt('B', 2, ttm=True)
            ex.assume(z3.Or(B.M_[0] != A.N_[0], B.M_[1] != A.N_[1]))
            ob.ret = ex.call(f, [A, B])
    elif case == 'cat_single_dim_range':
        ob.ret = ex.call(E('cat'), [(ob.tt('a', 3),), 3])            # a single operand does not make the axis valid
    elif case == 'cat_single_ttm':
        ob.ret = ex.call(E('cat'), [(ob.tt('a', 2, ttm=True),), 0])
    elif case == 'cat_single_dim_type':
        ob.ret = ex.call(E('cat'), [[ob.tt('a', 3)], 1.5])
    elif case in ('cat_dim_range', 'cat_dim_negative'):
        a = ob.tt('a', 2)
        b = ob.tt('b', 2, N=a.N_)
        ob.ret = ex.call(E('cat'), [(a, b), 2 if case == 'cat_dim_range' else -3])
    elif case.startswith('hadamard'):
        from . import hooks
        hooks.install(ex)
        f = ex.module('torchtt._dmrg').env['dmrg_hadamard']
        x = ob.tt('x', 2)
        if case == 'hadamard_types':
            ob.ret = ex.call(f, [x, 3])
        elif case == 'hadamard_kinds':
            ob.ret = ex.call(f, [x, ob.tt('A', 2, ttm=True, N=x.N_, M=x.N_)])
        else:
            ob.ret = ex.call(f, [x, ob.tt('y', 3, N=x.N_ + [z3.Int('n_extra')])])
    elif case in ('riemann_order', 'riemann_order_ttm', 'riemann_size'):
        # the projected tensor must live in the space of the base point: same order and mode sizes
        f = ex.module('torchtt.manifold').env['riemannian_projection']
        ttm = case == 'riemann_order_ttm'
        x = ob.tt('x', 2, ttm=ttm)
        if case == 'riemann_size':
            n = z3.Int('n_other')
            ex.assume(z3.And(n >= 1, n != x.N_[1]))
            z = ob.tt('z', 2, N=[x.N_[0], n])
        elif ttm:
            z = ob.tt('z', 3, ttm=True, N=x.N_ + [z3.Int('n_extra')], M=x.M_ + [z3.Int('m_extra')])
        else:
            z = ob.tt('z', 3, N=x.N_ + [z3.Int('n_extra')])
        ob.ret = ex.call(f, [x, z])
    elif case in ('random_rank_zero', 'random_list_rank_zero', 'randn_rank_zero'):
        if case == 'random_rank_zero':
            ob.ret = ex.call(E('random'), [[2, 3], 0])
        elif case == 'random_list_rank_zero':
            ob.ret = ex.call(E('random'), [[2, 3, 2], [1, 2, 0, 1]])
        else:
            ob.ret = ex.call(E('randn'), [[2, 3, 2], [1, 0, 2, 1]])
    elif case == 'riemann_kinds':
        f = ex.module('torchtt.manifold').env['riemannian_projection']
        x = ob.tt('x', 2)
        ob.ret = ex.call(f, [x, ob.tt('z', 2, ttm=True, N=x.N_, M=x.N_)])
    else:
        raise ValueError(case)


@scenario('C18', 'canary.compatible_add_must_raise', 'torchtt._tt_base.TT.__add__', quick=[dict()], expect='raise', replay=None)
def canary(ob):
    x = ob.tt('x', 2)
    ob.ret = ob.ex.binop('Add', x, ob.tt('y', 2, N=x.N_))


canary.canary = True
