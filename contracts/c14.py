"""
C14 -- cross approximation recovers low-rank data and samples only valid indices.

Both clauses (recovery accuracy; every index matrix handed to the user function is M x d with column k in [0, N[k])) are decided
by the bounded stand-in only (runtime/rt_c14.py: the user function is wrapped by a run-time contract that checks every call) --
never counted as proved.  The deductive engine does not reach interpolate.py: the index sets are built by data-dependent maxvol
pivoting (LU, argmax, unravel_index over value tensors) and torch.kron-composed integer tensors, which are outside the modelled
subset (stated in DESIGN.md); no obligation is claimed.
"""
from .common import *

LEVEL = 'exploration'
TRUSTED = TRUSTED_COMMON
ASSUMPTIONS = ['bounded: orders 2..4, sizes 2..10 incl. sizes smaller than rank+kick, eps in {1e-4,1e-9}, targets with exact TT ranks 1..3 and smooth functions of the index sum, seeds; constant 20*eps',
               'no deductive obligations (function outside the engine subset)']
EXPLANATION = 'bounded run-time contracts (icontract) on dmrg_cross / function_interpolate with a checking wrapper around the user function'


def bounded_checks(tier, seed, repo):
    return run_rmode('C14', tier, seed, repo)
