"""
C14 -- cross approximation recovers low-rank data and samples only valid indices.

Deductive part (index-safety clause):
  * maxvol.contract: _maxvol(M) returns min(m, n) row numbers of M (int64, each in [0, m)) and does not write M -- proved for all
    m, n >= 1 with an inductive invariant for the pivot-improvement loop (`idx` stays a vector of n row numbers, `Mat` an m x n
    matrix in fresh storage); torch.linalg.lu_factor / lu_unpack / topk / sort / numpy.unravel_index enter by assumed contracts.
  * dmrg_cross.index_contract: every call of the user function gets an int64 M x d matrix, column k within [0, N[k]), rows laid
    out as the C-order product left set x N[k] x N[k+1] x right set (so that the reshape to the supercore is right); no exception
    (every advanced index and unravel_index provably in range); result well-formed of shape N; starting tensor not written.
    _maxvol and rank_chop are used through their (separately proved) contracts.
  * function_interpolate.values_contract: every value handed to the user function is the entry of the argument tensor(s) at the
    row of such an index matrix (witness: the integer matrix held by the calling frame) -- one tensor and lists of tensors.
The recovery accuracy clause is decided by the bounded stand-in only (runtime/rt_c14.py) -- never counted as proved.
"""
from .common import *

LEVEL = 'other'
TRUSTED = TRUSTED_COMMON
ASSUMPTIONS = ['deductive index contracts: orders 2, 3 (4 in the thorough tier) and 1-2 sweeps enumerated; mode sizes, ranks, kick, eps, the values returned by the user function and every value-dependent branch symbolic; every truncation of a sampled super-core uses a threshold relative to the norm of that super-core (ghost obligation on the rank_chop contract)',
               'assumed contracts: torch.linalg.lu_factor / torch.lu_unpack (P is a permutation matrix), Tensor.topk, torch.sort, numpy.unravel_index, torch.linalg.solve (nonsingular local matrices)',
               'bounded (accuracy clause): orders 2..4, sizes 2..10 incl. sizes smaller than rank+kick, eps in {1e-4,1e-9}, targets with exact TT ranks 1..3 and smooth functions of the index sum, seeds; constant 20*eps']
EXPLANATION = 'index contracts proved by symbolic execution with integer index tensors (uninterpreted entries with range facts instantiated on use), a loop invariant for the maxvol pivot loop and modular use of callee contracts; accuracy by bounded run-time contracts'


def bounded_checks(tier, seed, repo):
    return run_rmode('C14', tier, seed, repo)


# ------------------------------------------------------------------------------------------------
# deductive part: index contracts
# ------------------------------------------------------------------------------------------------
import z3
from ttvc import harness as H, tensors as T, interp as I
from ttvc.tensors import STensor, is_sym, to_int
from ttvc.terms import fresh_int


def interp_mod(ex):
    return ex.module('torchtt.interpolate')


def int_vector_in_range(ob, name, v, length, hi):
    """v is a 1-D int64 tensor of the given length whose every entry lies in [0, hi)"""
    ex = ob.ex
    if not isinstance(v, STensor) or v.ndim != 1 or v.dtype != 'int64':
        ob.fail(name + '.type', 'post', 'not a 1-D int64 tensor: %r' % (getattr(v, 'dtype', None),))
        return
    ob.ok(name + '.type')
    ob.prove(name + '.length', to_int(v.shape[0]) == length, 'shape')
    if v.ival is None:
        ob.undecided(name + '.range', 'post', 'integer values not tracked')
        return
    j = tuple(fresh_int('j') for _ in v.axes[0].factors)
    bounds = [z3.And(x >= 0, x < to_int(f.size)) for x, f in zip(j, v.axes[0].factors)]
    e = T.int_entry(v, [j])
    ob.prove(name + '.range', z3.Implies(z3.And(*bounds), z3.And(e >= 0, e < hi)))


def maxvol_loop_invariant(ex, fr):
    """pivot-improvement loop of _maxvol(M), M of shape m x n with n < m: `idx` stays a vector of n row numbers of M and `Mat` an
    m x n float matrix that is not (a view of) M"""
    from ttvc import absval as AV
    M = fr.locals['M']
    m, n = M.shape
    return {'idx': AV.IntVector(n, 0, m), 'Mat': AV.FloatTensor([m, n], M.dtype)}


LOOP_CONTRACTS = {('torchtt.interpolate._maxvol', 0): maxvol_loop_invariant}


@scenario('C14', 'maxvol.contract', 'torchtt.interpolate._maxvol', quick=[dict()], replay='maxvol', max_paths=400)
def maxvol_contract(ob):
    """_maxvol(M) for a float matrix M (m x n, m, n >= 1) returns a 1-D int64 tensor of length min(m, n) whose entries are row
    indices of M (in [0, m)); M itself is not written.  The pivot-improvement loop is verified with a loop invariant."""
    ex = ob.ex
    m, n = H.sym_sizes(ex, 'm', 1)[0], H.sym_sizes(ex, 'n', 1)[0]
    M = T.opaque_tensor([m, n], 'float64', 'M')
    ex.register_arg(M, 'M')
    ob.describe('m', m); ob.describe('n', n)
    ex.loop_contracts.update(LOOP_CONTRACTS)
    r = ex.call(interp_mod(ex).env['_maxvol'], [M])
    int_vector_in_range(ob, 'rows', r, z3.If(n >= m, m, n), m)
    ob.frame()


def maxvol_hook(ex, f, args, kwargs):
    """modular use of the contract of _maxvol proved by maxvol.contract"""
    from ttvc import absval as AV, optable
    M = args[0]
    if not isinstance(M, STensor) or M.ndim != 2:
        return NotImplemented
    m, n = M.shape
    ex.events.append(('maxvol', M))
    return AV.IntVector(optable._min_size(ex, m, n), 0, m).fresh(ex, 'maxvol')


def index_matrix_ok(ob, name, E, N, rows=None):
    """E is an int64 matrix with len(N) columns, column k within [0, N[k])"""
    d = len(N)
    if not isinstance(E, STensor) or E.ndim != 2 or E.dtype != 'int64':
        ob.fail(name + '.type', 'post', 'the argument handed to the user function is not a 2-D int64 tensor: %r' % (E,))
        return False
    ob.ok(name + '.type')
    ob.prove(name + '.columns', to_int(E.shape[1]) == d, 'shape')
    if not T.known_eq(E.shape[1], d):
        return False
    if E.ival is None:
        ob.undecided(name + '.range', 'post', 'integer values not tracked')
        return False
    i = tuple(fresh_int('row') for _ in E.axes[0].factors)
    bounds = [z3.And(x >= 0, x < to_int(f.size)) for x, f in zip(i, E.axes[0].factors)]
    for k in range(d):
        e = T.int_entry(E, [i, (k,)])
        ob.prove('%s.col%d_in_range' % (name, k), z3.Implies(z3.And(*bounds), z3.And(e >= 0, e < to_int(N[k]))))
    return True


def supercore_layout(ob, name, E, N):
    """the rows of E enumerate, in C order, (left index set) x [0,N[k]) x [0,N[k+1]) x (right index set) for some k: column k is the
    first free mode index, column k+1 the second, the columns left of k depend on the left set position only and the columns right
    of k+1 on the right set position only -- so that reshape(f(E), [r_k, N_k, N_k+1, r_k+2]) is the sampled supercore"""
    d = len(N)
    fac = E.axes[0].factors
    if not (2 <= len(fac) <= 4) or E.ival is None:
        ob.undecided(name + '.layout', 'post', 'row axis of the index matrix is not a product of 2..4 factors (%d)' % len(fac))
        return
    pc = ob.ex.pc
    i = tuple(fresh_int('r') for _ in fac)
    i2 = tuple(fresh_int('s') for _ in fac)
    bounds = [z3.And(x >= 0, x < to_int(f.size)) for x, f in zip(i + i2, fac + fac)]
    unknown = False
    for k in range(d - 1):
        for p in (0, 1):          # position of the N[k] factor (a unit-size left / right index set contributes no factor)
            q = len(fac) - p - 2
            if q not in (0, 1):
                continue
            if not (T.known_eq(fac[p].size, N[k]) and T.known_eq(fac[p + 1].size, N[k + 1])):
                continue
            conds = [T.int_entry(E, [i, (k,)]) == i[p], T.int_entry(E, [i, (k + 1,)]) == i[p + 1]]
            # two rows with the same left-set position (resp. right-set position) and arbitrary other positions
            il = ((i[0],) + i2[1:]) if p == 1 else i2
            ir = (i2[:-1] + (i[-1],)) if q == 1 else i2
            for j in range(k):
                conds.append(T.int_entry(E, [i, (j,)]) == T.int_entry(E, [il, (j,)]))
            for j in range(k + 2, d):
                conds.append(T.int_entry(E, [i, (j,)]) == T.int_entry(E, [ir, (j,)]))
            res = [ob.decide_under(c, bounds) for c in conds]
            if all(r == 'proved' for r in res):
                ob.ok(name + '.layout')
                return
            unknown = unknown or 'unknown' in res
    r, m = pc.model()
    ob._add(name + '.layout', 'post', 'failed' if (r == z3.sat and not unknown) else 'undecided',
            {'model': m, 'cond': 'no mode pair (k, k+1) for which the rows of the index matrix are the C-order product left set x N[k] x N[k+1] x right set (row factors %s)' % ([f.size for f in fac],)})


def grid_cross(ds_nswp):
    return [dict(d=d, nswp=n, start=s) for (d, n) in ds_nswp for s in (False, True)]


@scenario('C14', 'dmrg_cross.index_contract', ['torchtt.interpolate.dmrg_cross', 'torchtt.interpolate._maxvol'],
          quick=grid_cross([(2, 1)]) + [dict(d=3, nswp=1, start=False)], thorough=grid_cross([(2, 1), (2, 2), (3, 1)]) + [dict(d=4, nswp=1, start=False)],
          replay='cross_index', max_paths=6000)
def cross_index(ob, d, nswp, start):
    """every call of the user function by dmrg_cross(f, N, ...) passes an M x d int64 matrix whose column k lies in [0, N[k]) and
    whose row layout is the C-order product (left index set) x [0,N[k]) x [0,N[k+1]) x (right index set); the result is a
    well-formed TT of shape N; the starting tensor is not written.  _maxvol and rank_chop are used through their contracts."""
    from . import hooks
    ex = ob.ex
    hooks.install(ex)
    ex.call_hooks['torchtt.interpolate._maxvol'] = maxvol_hook
    N = H.sym_sizes(ex, 'N', d)
    calls = []

    def user_function(ex_, args, kwargs):
        E = args[0]
        k = len(calls)
        calls.append(E)
        if index_matrix_ok(ob, 'call%d' % k, E, N):
            supercore_layout(ob, 'call%d' % k, E, N)
        out = T.opaque_with_axes([E.axes[0]], 'float64', 'fvals')
        out._val = None
        return out
    kw = {'eps': SymScalar(z3.Real('eps'), 'float', 'float'), 'nswp': nswp}
    ex.assume(z3.Real('eps') > 0)
    ex.assume(z3.Real('eps') < 1)
    kick = z3.Int('kick')
    ex.assume(kick >= 1)
    kw['kick'] = kick
    if start:
        x0 = ob.tt('x0', d, N=N, dtype='float64')
        kw['x_start'] = x0
    ob.describe('N', N); ob.describe('nswp', nswp); ob.describe('kick', kick)
    r = ex.call(interp_mod(ex).env['dmrg_cross'], [I.HostFn(user_function), list(N)], kw)
    ob.prove('function_was_called', len(calls) >= 1)
    thresholds_relative(ob, ex, d)
    ob.wf(r)
    all_eq(ob, 'N', fields(ob, r)['N'], N)
    ob.frame()


def thresholds_relative(ob, ex, d):
    """every truncation of a sampled super-core uses a threshold RELATIVE to the norm of that super-core:
    threshold^2 * (d-1) == eps^2 * ||S||^2  (rank_chop itself is used through its contract; an absolute threshold makes the accuracy
    depend on the scale of the target)"""
    from ttvc import gauge as _g
    eps = z3.Real('eps')
    evs = [e for e in ex.events if e[0] == 'rank_chop']
    ob.prove('some_supercore_is_truncated', len(evs) >= 1)
    for j, e_ in enumerate(evs):
        rec = e_[4]
        if rec is None or rec.get('chop_eps') is None:
            ob.fail('svd%d.threshold_relative_to_the_supercore_norm' % j, 'ghost', 'rank_chop is not applied to the singular values of an SVD with a scalar threshold')
            continue
        b = _g.base_record(rec)
        ob.prove('svd%d.threshold_relative_to_the_supercore_norm' % j, rec['chop_eps'] * rec['chop_eps'] * (d - 1) == eps * eps * b['fro2'], 'ghost')


def _witness_index_matrices(ex, d):
    """integer d-column matrices among the local variables of the function that is calling the user function"""
    fr = ex.frames[-1] if ex.frames else None
    out = []
    if fr is not None:
        for name, v in fr.locals.items():
            if isinstance(v, STensor) and v.ndim == 2 and v.dtype == 'int64' and v.ival is not None and T.known_eq(v.shape[1], d):
                out.append((name, v))
    return out


def grid_fi(ds_nswp):
    return [dict(d=d, nswp=n, multi=m, start=s) for (d, n) in ds_nswp for m in (0, 2) for s in (False, True)]


@scenario('C14', 'function_interpolate.values_contract', ['torchtt.interpolate.function_interpolate', 'torchtt.interpolate._maxvol'],
          quick=grid_fi([(2, 1)]) + [dict(d=3, nswp=1, multi=0, start=False)], thorough=grid_fi([(2, 1), (2, 2), (3, 1)]), replay='fi_values', max_paths=6000)
def fi_values(ob, d, nswp, multi, start):
    """every call of the user function by function_interpolate(f, x, ...) passes values that are entries of the argument tensor(s):
    there is an index matrix E (M x d, column k within [0, N[k]), C-order supercore layout) with  arg[row] = x[E[row, :]]
    (one tensor) resp. arg[row, j] = x_j[E[row, :]] (list of tensors); result well formed of shape N; operands not written."""
    from . import hooks
    ex = ob.ex
    hooks.install(ex)
    ex.call_hooks['torchtt.interpolate._maxvol'] = maxvol_hook
    nx = multi or 1
    xs = []
    for j in range(nx):
        xs.append(ob.tt('x%d' % j, d, N=(xs[0].N_ if xs else None), dtype='float64'))
    N = xs[0].N_
    calls = []

    def user_function(ex_, args, kwargs):
        A = args[0]
        k = len(calls)
        calls.append(A)
        name = 'call%d' % k
        want_ndim = 2 if multi else 1
        if not isinstance(A, STensor) or A.ndim != want_ndim or A.dtype != 'float64':
            ob.fail(name + '.type', 'post', 'argument of the user function is not a %d-D float64 tensor: %r' % (want_ndim, A))
            raise T.PyRaise('TypeError', 'user function: bad argument', origin='user')
        ob.ok(name + '.type')
        if multi:
            ob.prove(name + '.columns', to_int(A.shape[1]) == nx, 'shape')
        wit = _witness_index_matrices(ex_, d)
        done = False
        for wname, E in wit:
            if len(E.axes[0].factors) != len(A.axes[0].factors):
                continue
            if not index_matrix_ok(ob, name, E, N):
                continue
            supercore_layout(ob, name, E, N)
            row = tuple(fresh_int('row') for _ in A.axes[0].factors)
            for x_, fct in zip(row, A.axes[0].factors):
                ex_.pc.add(z3.And(x_ >= 0, x_ < to_int(fct.size)))
            ent = [T.int_entry(E, [row, (c,)]) for c in range(d)]
            for j in range(nx):
                got = A.at([row, (j,)]) if multi else A.at([row])
                ob.prove_eq('%s.value_is_entry_of_x%d' % (name, j), got, H.tt_val(ex_, xs[j], ent))
            done = True
            break
        if not done:
            ob.undecided(name + '.witness', 'post', 'no integer index matrix with %d columns among the locals of the caller (%s)' % (d, [w for w, _ in wit]))
        out = T.opaque_with_axes([A.axes[0]], 'float64', 'fvals')
        out._val = None
        return out
    kw = {'eps': SymScalar(z3.Real('eps'), 'float', 'float'), 'nswp': nswp}
    ex.assume(z3.Real('eps') > 0)
    ex.assume(z3.Real('eps') < 1)
    kick = z3.Int('kick')
    ex.assume(kick >= 1)
    kw['kick'] = kick
    if start:
        kw['start_tens'] = ob.tt('x_start', d, N=N, dtype='float64')
    ob.describe('N', N); ob.describe('nswp', nswp); ob.describe('kick', kick)
    r = ex.call(interp_mod(ex).env['function_interpolate'], [I.HostFn(user_function), xs if multi else xs[0]], kw)
    ob.prove('function_was_called', len(calls) >= 1)
    thresholds_relative(ob, ex, d)
    ob.wf(r)
    all_eq(ob, 'N', fields(ob, r)['N'], N)
    ob.frame()
