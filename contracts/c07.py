"""
C07 -- norm, inner product, sums and bilinear forms equal their dense values.
Contracts on TT.sum, TT.norm, _extras.dot, _extras.bilinear_form, _aux_ops.bilinear_form_aux.
"""
import itertools
import z3
from ttvc import harness as H, tensors as T, interp as I
from ttvc.tensors import STensor, SymScalar, is_sym, to_int
from ttvc.terms import Term, ite, fresh_int
from ttvc.oblig import scenario
from .common import *
from .c04 import sum_over

LEVEL = 'proof'
TRUSTED = TRUSTED_COMMON + ['norm() without autograd tracking (QR sweep): the isometry argument (left-orthonormal cores => ||val|| = ||last core||) is a paper lemma; '
                            'the engine checks the data flow of the sweep against the lemma pattern (gauge ghost state), see DESIGN.md C07']
ASSUMPTIONS = ['orders enumerated up to the property bound (d<=5 thorough, d<=3 quick); all subsets of summed / contracted modes enumerated; sizes, ranks, entries symbolic',
               'complex data modelled as an abstract commutative field with an involution conj (uninterpreted), real data is the special case conj = id']
EXPLANATION = 'value postconditions against the dense reductions, discharged by the Sigma-term prover'


def subsets(d, quick):
    allsub = [list(c) for r in range(1, d + 1) for c in itertools.combinations(range(d), r)]
    if quick and d >= 3:
        keep = [[0], [d - 1], [0, d - 1], [1], list(range(d)), [0, 1], [d - 2, d - 1]]
        return [s for s in allsub if s in keep]
    return allsub


def grid_sum(dmax, dmax_m, quick):
    out = []
    for d in range(1, dmax + 1):
        out.append(dict(d=d, ttm=False, index=None))
        for s in subsets(d, quick):
            out.append(dict(d=d, ttm=False, index=tuple(s)))
        if d > 1:
            out.append(dict(d=d, ttm=False, index=(-99,)))     # int form: index given as a plain int (position 1)
            out.append(dict(d=d, ttm=False, index=(-98,)))     # int form with the plain int 0 (falsy, not None)
            out.append(dict(d=d, ttm=False, index=()))         # empty list: nothing is summed
    for d in range(1, dmax_m + 1):
        out.append(dict(d=d, ttm=True, index=None))
        for s in subsets(d, quick):
            out.append(dict(d=d, ttm=True, index=tuple(s)))
        if d == 2:
            out.append(dict(d=d, ttm=True, index=(-98,)))
            out.append(dict(d=d, ttm=True, index=()))
    return out


@scenario('C07', 'sum', 'torchtt._tt_base.TT.sum', quick=grid_sum(3, 3, True), thorough=grid_sum(5, 3, False), dtypes=('float64',), replay='sum', max_paths=400)
def sum_(ob, d, ttm, index):
    """x.sum(index) equals the dense sum over the listed modes (all modes when index is None); the result keeps
    every mode that is not summed, including original singleton modes"""
    ex = ob.ex
    x = ob.tt('x', d, ttm=ttm)
    as_int = index in ((-99,), (-98,))
    if as_int:
        index = (1,) if index == (-99,) else (0,)
    ob.replay_args = {'x': 'x', 'index': list(index) if index is not None else None, 'as_int': as_int}
    arg = None if index is None else (index[0] if as_int else list(index))
    r = ex.call(ex.getattr(x, 'sum'), [] if arg is None else [arg])
    summed = list(range(d)) if index is None else list(index)
    rest = [k for k in range(d) if k not in summed]

    def spec(rest_idx):
        """SUM over the summed modes of val(x)"""
        def f(vs):
            it = iter(vs)
            full = []
            for k in range(d):
                if k in summed:
                    full.append((next(it), next(it)) if ttm else next(it))
                else:
                    full.append(rest_idx[rest.index(k)])
            return val(ob, x, full)
        sizes = []
        for k in summed:
            if ttm:
                sizes += [x.M_[k], x.N_[k]]
            else:
                sizes.append(x.N_[k])
        return sum_over(ex, sizes, f)
    if not rest:
        if not isinstance(r, STensor):
            ob.fail('scalar_result', 'post', 'sum over all modes returned %s' % type(r).__name__)
            return
        all_eq(ob, 'shape', r.shape, [])
        if r.ndim == 0:
            ob.prove_eq('value', r.at([]), spec([]))
    else:
        if not is_tt(r):
            ob.fail('tt_result', 'post', 'partial sum returned %s' % type(r).__name__)
            return
        ob.wf(r)
        f = fields(ob, r)
        all_eq(ob, 'N', f['N'], [x.N_[k] for k in rest])
        ob.prove('kind', f['is_ttm'] is ttm)
        if ttm and f['is_ttm']:
            all_eq(ob, 'M', f['M'], [x.M_[k] for k in rest])
        if len(f['N']) == len(rest) and f['is_ttm'] is ttm:
            idx = mode_index(ob, r)
            ob.prove_eq('value', val(ob, r, idx), spec(idx))
    ob.frame()


def grid_norm(dmax, dmax_m):
    out = []
    for tracked in (True,):
        for sq in (True, False):
            for d in range(1, dmax + 1):
                out.append(dict(d=d, ttm=False, squared=sq, tracked=tracked, dtype='complex128' if d <= 2 else 'float64'))
            for d in range(1, dmax_m + 1):
                out.append(dict(d=d, ttm=True, squared=sq, tracked=tracked, dtype='float64'))
    return out


@scenario('C07', 'norm.autograd', 'torchtt._tt_base.TT.norm', quick=grid_norm(3, 2), thorough=grid_norm(5, 3), replay='norm')
def norm_ad(ob, d, ttm, squared, tracked, dtype):
    """norm() with autograd tracking: Gram chain; equals sqrt(|SUM val conj(val)|) (squared: the sum itself)"""
    ex = ob.ex
    x = ob.tt('x', d, ttm=ttm, dtype=dtype)
    for c in x.attrs['cores']:
        c.requires_grad = True
    ob.replay_args = {'x': 'x', 'squared': squared, 'tracked': True}
    r = ex.call(ex.getattr(x, 'norm'), [squared])
    if not isinstance(r, STensor):
        ob.fail('tensor_result', 'post', 'norm returned %s' % type(r).__name__)
        return
    all_eq(ob, 'shape', r.shape, [])
    sizes = []
    for k in range(d):
        sizes += ([x.M_[k], x.N_[k]] if ttm else [x.N_[k]])

    def f(vs):
        idx = list(zip(vs[0::2], vs[1::2])) if ttm else vs
        v = val(ob, x, idx)
        return v * (v.conj() if dtype.startswith('complex') else v)
    s = sum_over(ex, sizes, f)
    if not squared:
        s = s.wrapped('abs').wrapped('sqrt')
    if r.ndim == 0:
        ob.prove_eq('value', r.at([]), s)
    # differentiability: the result must be derived from every tracked core without a cut
    missing = [k for k, c in enumerate(x.attrs['cores']) if c.tid not in r.deps]
    if missing or r.grad_cut:
        ob.fail('transparent', 'transparent', 'result is not differentiably derived from cores %s (cut=%s)' % (missing, r.grad_cut))
    else:
        ob.ok('transparent', 'transparent')
    ob.frame()


def grid_dot(dmax):
    out = []
    for d in range(1, dmax + 1):
        out.append(dict(d=d, dtype='complex128'))
    return out


@scenario('C07', 'dot.full', 'torchtt._extras.dot', quick=grid_dot(3), thorough=grid_dot(5), replay='dot')
def dot_full(ob, d, dtype):
    """dot(a, b) = SUM_i a[i] conj(b[i])"""
    ex = ob.ex
    a = ob.tt('a', d, dtype=dtype)
    b = ob.tt('b', d, N=a.N_, dtype=dtype)
    ob.replay_args = {'a': 'a', 'b': 'b', 'axis': None}
    dot = ex.module('torchtt._extras').env['dot']
    r = ex.call(dot, [a, b])
    if not isinstance(r, STensor):
        ob.fail('tensor_result', 'post', 'dot returned %s' % type(r).__name__)
        return
    all_eq(ob, 'shape', r.shape, [])
    if r.ndim == 0:
        ob.prove_eq('value', r.at([]), sum_over(ex, a.N_, lambda n: val(ob, a, n) * val(ob, b, n).conj()))
    ob.frame()


def grid_dot_axis(dmax, quick):
    out = []
    for d in range(1, dmax + 1):
        for s in subsets(d, quick):
            out.append(dict(d=d, axis=tuple(s)))
    return out


@scenario('C07', 'dot.axis', ['torchtt._extras.dot', 'torchtt._tt_base.TT.sum', 'torchtt._tt_base.TT.__mul__'],
          quick=grid_dot_axis(3, True), thorough=grid_dot_axis(4, False), replay='dot', max_paths=600)
def dot_axis(ob, d, axis):
    """dot(a, b, axis): contraction of the listed modes of a with the modes of b (conjugated)"""
    ex = ob.ex
    a = ob.tt('a', d, dtype='complex128')
    axis = list(axis)
    b = ob.tt('b', len(axis), N=[a.N_[k] for k in axis], dtype='complex128')
    ob.replay_args = {'a': 'a', 'b': 'b', 'axis': axis}
    dot = ex.module('torchtt._extras').env['dot']
    r = ex.call(dot, [a, b, axis])
    rest = [k for k in range(d) if k not in axis]

    def spec(rest_idx):
        def f(vs):
            full = []
            for k in range(d):
                full.append(vs[axis.index(k)] if k in axis else rest_idx[rest.index(k)])
            return val(ob, a, full) * val(ob, b, list(vs)).conj()
        return sum_over(ex, [a.N_[k] for k in axis], f)
    if not rest:
        if not isinstance(r, STensor):
            ob.fail('scalar_result', 'post', 'dot over all modes returned %s' % type(r).__name__)
            return
        all_eq(ob, 'shape', r.shape, [])
        if r.ndim == 0:
            ob.prove_eq('value', r.at([]), spec([]))
    else:
        if not is_tt(r):
            ob.fail('tt_result', 'post', 'partial dot returned %s' % type(r).__name__)
            return
        ob.wf(r)
        f = fields(ob, r)
        all_eq(ob, 'N', f['N'], [a.N_[k] for k in rest])
        if len(f['N']) == len(rest):
            idx = mode_index(ob, r)
            ob.prove_eq('value', val(ob, r, idx), spec(idx))
    ob.frame()


@scenario('C07', 'bilinear_form', ['torchtt._extras.bilinear_form', 'torchtt._aux_ops.bilinear_form_aux'],
          quick=orders(1, 3), thorough=orders(1, 5), replay='bilinear')
def bilinear(ob, d):
    """bilinear_form(x, A, y) = SUM_{m,n} conj(x[m]) A[m,n] y[n]"""
    ex = ob.ex
    A = ob.tt('A', d, ttm=True, dtype='complex128')
    x = ob.tt('x', d, N=A.M_, dtype='complex128')
    y = ob.tt('y', d, N=A.N_, dtype='complex128')
    ob.replay_args = {'x': 'x', 'A': 'A', 'y': 'y'}
    bf = ex.module('torchtt._extras').env['bilinear_form']
    r = ex.call(bf, [x, A, y])
    if not isinstance(r, STensor):
        ob.fail('tensor_result', 'post', 'bilinear_form returned %s' % type(r).__name__)
        return
    all_eq(ob, 'shape', r.shape, [])
    if r.ndim == 0:
        rhs = sum_over(ex, A.M_ + A.N_, lambda v: val(ob, x, v[:d]).conj() * val(ob, A, list(zip(v[:d], v[d:]))) * val(ob, y, v[d:]))
        ob.prove_eq('value', r.at([]), rhs)
    ob.frame()


@scenario('C07', 'canary.dot_without_conj', 'torchtt._extras.dot', quick=[dict(d=2)], replay=None)
def canary(ob, d):
    ex = ob.ex
    a = ob.tt('a', d, dtype='complex128')
    b = ob.tt('b', d, N=a.N_, dtype='complex128')
    r = ex.call(ex.module('torchtt._extras').env['dot'], [a, b])
    ob.prove_eq('value', r.at([]), sum_over(ex, a.N_, lambda n: val(ob, a, n) * val(ob, b, n)))


canary.canary = True


def grid_norm_plain(dmax, dmax_m):
    out = []
    for sq in (True, False):
        for d in range(1, dmax + 1):
            out.append(dict(d=d, ttm=False, squared=sq))
        for d in range(1, dmax_m + 1):
            out.append(dict(d=d, ttm=True, squared=sq))
    return out


@scenario('C07', 'norm.plain', 'torchtt._tt_base.TT.norm', quick=grid_norm_plain(3, 2), thorough=grid_norm_plain(5, 3), replay='norm')
def norm_plain(ob, d, ttm, squared):
    """norm() without autograd tracking: QR sweep.  Checked: the sweep has the data flow required by the isometry lemma
    (each QR factorises the left unfolding of the carried core, the next carried core is R times the next core), and the
    returned number is the Frobenius norm (resp. its square) of the last carried core.  By the lemma this equals ||val||."""
    ex = ob.ex
    x = ob.tt('x', d, ttm=ttm, dtype='complex128')
    ob.replay_args = {'x': 'x', 'squared': squared, 'tracked': False}
    cores = list(x.attrs['cores'])
    r = ex.call(ex.getattr(x, 'norm'), [squared])
    if not isinstance(r, STensor):
        ob.fail('tensor_result', 'post', 'norm returned %s' % type(r).__name__)
        return
    all_eq(ob, 'shape', r.shape, [])
    qrs = [(e[1], e[2], e[3]) for e in ex.events if e[0] == 'qr']
    ob.prove('n_qr', len(qrs) == d - 1, 'ghost')
    if len(qrs) != d - 1:
        return
    carrier = cores[0]
    ok_all = True
    for i in range(d - 1):
        A, Q, R = qrs[i]
        ok = A.ghost.get('unfold_left_of') is carrier
        ob.prove('sweep.qr%d_of_left_unfolding_of_carrier' % i, bool(ok), 'ghost')
        if i + 1 < d - 1:
            nxt = qrs[i + 1][0].ghost.get('unfold_left_of')
        else:
            nxt = r.ghost.get('norm_of')
        m = nxt.ghost.get('fold_right_of') if isinstance(nxt, STensor) else None
        cm = m.ghost.get('carrier_mat') if m is not None else None
        okn = cm is not None and cm['qr'] is Q.ghost['qr'] and cm['next_core'] is cores[i + 1]
        ob.prove('sweep.carrier%d_is_R_times_next_core' % (i + 1), bool(okn), 'ghost')
        ok_all = ok_all and ok and okn
        carrier = nxt
    if not ok_all or not isinstance(carrier, STensor):
        return
    want = T.fro_norm(carrier)
    if squared:
        want = T.power(want, 2)
    if r.ndim == 0:
        ob.prove_eq('value_is_norm_of_last_carrier', r.at([]), want.at([]))
    ob.frame()
