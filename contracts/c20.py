"""
C20 -- the TT linear layer computes the dense affine map it represents.
Contracts on nn.LinearLayerTT.__init__ and forward.
"""
import z3
from ttvc import harness as H, tensors as T, interp as I
from ttvc.tensors import STensor, SymScalar, is_sym, to_int, PyRaise
from ttvc.terms import Term
from ttvc.oblig import scenario
from .common import *
from .c04 import sum_over

LEVEL = 'proof'
TRUSTED = TRUSTED_COMMON + ['torch.nn.Parameter / ParameterList / Module attribute registration (assumed contract: a Parameter or ParameterList assigned as attribute of a Module is a registered trainable parameter)',
                            'torch.autograd: exact derivative of a composition of differentiable primitives (assumed)']
ASSUMPTIONS = ['number of modes 1..4 (quick 1..2), batch dims 0..3 (quick 0..1); mode sizes, ranks, parameter values symbolic; rectangular size_in / size_out',
               'gradients: forward is a composition of autograd-transparent primitives from every core and the bias to the output (transparent obligation); equality of derivatives then follows from the value postcondition for all parameter values']
EXPLANATION = 'forward(x) == W x + b with W the chain value of the registered cores, for all sizes, ranks and values'


def layer_class(ex):
    return ex.module('torchtt.nn').env['LinearLayerTT']


def grid_fwd(dmax, bmax):
    return [dict(d=d, nb=nb, init=i) for d in range(1, dmax + 1) for nb in range(0, bmax + 1) for i in (('He', 'Glo') if d == 1 and nb == 0 else ('He',))]


@scenario('C20', 'forward', ['torchtt.nn.LinearLayerTT.__init__', 'torchtt.nn.LinearLayerTT.forward'],
          quick=grid_fwd(2, 1) + [dict(d=1, nb=2, init='He'), dict(d=2, nb=2, init='He'), dict(d=1, nb=3, init='He')], thorough=grid_fwd(4, 3), replay='nn_layer')
def forward(ob, d, nb, init):
    ex = ob.ex
    n_in = H.sym_sizes(ex, 'in', d)
    n_out = H.sym_sizes(ex, 'out', d)
    R = [1] + H.sym_sizes(ex, 'r', d - 1) + [1]
    ob.describe('size_in', n_in); ob.describe('size_out', n_out); ob.describe('rank', R); ob.describe('nb', nb)
    ob.replay_args = {'init': init}
    layer = ex.instantiate(layer_class(ex), [list(n_in), list(n_out), list(R)], {'dtype': I.DType('float64'), 'initializer': init})
    cores = layer.attrs.get('cores')
    bias = layer.attrs.get('bias')
    # ---- registration
    ob.prove('cores_is_parameter_list', isinstance(cores, I.SParamList) and len(cores) == d)
    if not (isinstance(cores, I.SParamList) and len(cores) == d):
        return
    for k, c in enumerate(cores):
        ob.prove('core%d_is_parameter' % k, isinstance(c, STensor) and bool(c.ghost.get('is_parameter')) and c.requires_grad)
        all_eq(ob, 'core%d_shape' % k, c.shape, [R[k], n_out[k], n_in[k], R[k + 1]])
        ob.prove('core%d_dtype' % k, c.dtype == 'float64')
    ob.prove('bias_is_parameter', isinstance(bias, STensor) and bool(bias.ghost.get('is_parameter')) and bias.requires_grad)
    if not isinstance(bias, STensor):
        return
    all_eq(ob, 'bias_shape', bias.shape, n_out)
    # ---- forward for arbitrary parameter values: replace the (zero-initialised) bias value by free atoms
    b2 = T.atom_tensor('bias', n_out)
    bias._val = b2._val
    for k, c in enumerate(cores):          # trainable parameters: arbitrary values
        c._val = T.atom_tensor('W%d' % k, c.shape)._val
    B = H.sym_sizes(ex, 'B', nb)
    x = T.atom_tensor('X', B + n_in)
    ex.register_arg(x, 'x')
    y = ex.call(ex.getattr(layer, 'forward'), [x])
    if not isinstance(y, STensor):
        ob.fail('tensor_result', 'post', 'forward returned %s' % type(y).__name__)
        return
    all_eq(ob, 'out_shape', y.shape, B + n_out)
    if len(y.shape) == nb + d:
        ix = H.fresh_axis_index(ex, y)
        flat = [i[0] for i in ix]
        b, m = flat[:nb], flat[nb:]
        W = lambda mm, nn: H.chain_value(list(cores), list(zip(mm, nn)), ttm=True)
        rhs = sum_over(ex, n_in, lambda n: W(m, n) * x.at(b + n)) + bias.at(m)
        ob.prove_eq('value', y.at(ix), rhs)
    missing = [k for k, c in enumerate(list(cores) + [bias]) if c.tid not in y.deps]
    if missing or y.grad_cut:
        ob.fail('transparent', 'transparent', 'output is not differentiably derived from parameters %s (cut=%s)' % (missing, y.grad_cut))
    else:
        ob.ok('transparent', 'transparent')
    ob.frame(allowed=())


@scenario('C20', 'init.bad_initializer', 'torchtt.nn.LinearLayerTT.__init__', quick=[dict()], expect='raise', documented=('InvalidArguments',), replay='nn_layer')
def bad_init(ob):
    ex = ob.ex
    ob.replay_args = {'init': 'xx', 'expect_raise': True}
    ob.describe('size_in', [2]); ob.describe('size_out', [3]); ob.describe('rank', [1, 1]); ob.describe('nb', 0)
    ob.ret = ex.instantiate(layer_class(ex), [[2], [3], [1, 1]], {'initializer': 'xx'})


@scenario('C20', 'canary.forward_without_bias', 'torchtt.nn.LinearLayerTT.forward', quick=[dict()], replay=None)
def canary(ob):
    ex = ob.ex
    n_in = H.sym_sizes(ex, 'in', 1); n_out = H.sym_sizes(ex, 'out', 1)
    layer = ex.instantiate(layer_class(ex), [list(n_in), list(n_out), [1, 1]], {'dtype': I.DType('float64')})
    bias = layer.attrs['bias']
    bias._val = T.atom_tensor('bias', n_out)._val
    for k, c in enumerate(layer.attrs['cores']):
        c._val = T.atom_tensor('W%d' % k, c.shape)._val
    x = T.atom_tensor('X', n_in)
    y = ex.call(ex.getattr(layer, 'forward'), [x])
    ix = H.fresh_axis_index(ex, y)
    m = [ix[0][0]]
    ob.prove_eq('value', y.at(ix), sum_over(ex, n_in, lambda n: H.chain_value(list(layer.attrs['cores']), list(zip(m, n)), ttm=True) * x.at(n)))


canary.canary = True
