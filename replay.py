"""
Replay driver: rebuilds concrete inputs from a counter-model and runs the REAL torchtt code
(/venv/bin/python, PYTHONPATH=<repo>), evaluating the property's dense oracle.

usage: /venv/bin/python replay.py <replay file>
prints: REPLAY-RESULT {"status": "reproduced"|"not-reproduced"|"error", "message": ...}
"""
import json
import sys
import traceback
import warnings
warnings.filterwarnings('ignore')
import numpy as np
import torch as tn

import torchtt
from torchtt import TT

DT = {'float64': tn.float64, 'float32': tn.float32, 'complex128': tn.complex128, 'complex64': tn.complex64}


def clampi(v, lo=1, hi=6):
    try:
        v = int(v)
    except Exception:
        return 2
    return max(lo, min(hi, v))


def mk_tt(inst, seed=0, clamp=True):
    g = tn.Generator().manual_seed(seed)
    N = [clampi(n) for n in inst['N']]
    R = [clampi(r) for r in inst['R']]
    R[0] = R[-1] = 1
    dt = DT.get(inst.get('dtype', 'float64'), tn.float64)
    cores = []
    for k in range(len(N)):
        if inst.get('kind') == 'ttm':
            M = [clampi(m) for m in inst['M']]
            shp = [R[k], M[k], N[k], R[k + 1]]
        else:
            shp = [R[k], N[k], R[k + 1]]
        cores.append(tn.randn(shp, dtype=dt, generator=g) if not dt.is_complex else tn.randn(shp, dtype=dt, generator=g))
    return TT(cores)


def dense(x):
    return x.full() if isinstance(x, TT) else x


def snapshot(x):
    if isinstance(x, TT):
        return {'full': x.full().clone(), 'R': list(x.R), 'N': list(x.N), 'dtype': x.cores[0].dtype, 'cores': [c.clone() for c in x.cores]}
    if tn.is_tensor(x):
        return {'t': x.clone()}
    return None


def unchanged(x, snap):
    if snap is None:
        return True
    if isinstance(x, TT):
        try:
            return list(x.R) == snap['R'] and list(x.N) == snap['N'] and x.cores[0].dtype == snap['dtype'] and \
                all(a.shape == b.shape and tn.equal(a, b) for a, b in zip(x.cores, snap['cores']))
        except Exception:
            return False
    return tn.equal(x, snap['t'])


def wf_errors(t):
    errs = []
    try:
        cores = t.cores
        d = len(cores)
        R = t.R
        N = t.N
        if len(R) != d + 1 or len(N) != d:
            errs.append('len R/N')
        if R[0] != 1 or R[-1] != 1:
            errs.append('boundary ranks')
        for k, c in enumerate(cores):
            nd = 4 if t.is_ttm else 3
            if c.dim() != nd:
                errs.append('core %d ndim' % k)
                continue
            if c.shape[0] != R[k] or c.shape[-1] != R[k + 1]:
                errs.append('core %d ranks %s vs R=%s' % (k, list(c.shape), R))
            if t.is_ttm:
                if c.shape[1] != t.M[k] or c.shape[2] != N[k]:
                    errs.append('core %d modes' % k)
            elif c.shape[1] != N[k]:
                errs.append('core %d mode %s vs N=%s' % (k, list(c.shape), N))
        shp = [(m, n) for m, n in zip(t.M, t.N)] if t.is_ttm else list(t.N)
        if not hasattr(t, 'shape') or list(t.shape) != shp:
            errs.append('shape attribute %s vs %s' % (getattr(t, 'shape', None), shp))
        f = t.full()
        exp = (list(t.M) + list(N)) if t.is_ttm else list(N)
        if list(f.shape) != exp:
            errs.append('full().shape %s vs %s' % (list(f.shape), exp))
    except Exception as e:
        errs.append('exception %r' % e)
    return errs


def relerr(a, b):
    a = a.to(tn.complex128) if (a.is_complex() or b.is_complex()) else a.to(tn.float64)
    b = b.to(a.dtype)
    n = tn.linalg.norm(b).item()
    return tn.linalg.norm(a - b).item() / (n if n > 0 else 1.0)


def mk_scalar(spec, seed=0):
    k = spec.get('kind')
    v = spec.get('value', 1.5)
    try:
        v = float(v)
    except Exception:
        v = 1.5
    if k == 'int':
        return int(round(v)) if abs(v) < 1e6 else 3
    if k == 'float':
        if seed % 10 in (1, 2):
            return (0.3, -1.7)[seed % 10 - 1]      # later seeds: values that single precision cannot represent
        return float(v)
    if k == 'complex':
        return complex(v, 0.5)
    if k == 'np.float64':
        return np.float64(v)
    if k == 'np.float32':
        return np.float32(v)
    if k == 'np.uint8':
        return np.uint8(int(round(v)) % 256 if abs(v) < 1e6 else 3)
    if k == 'np.int64':
        return np.int64(int(round(v)) if abs(v) < 1e6 else 3)
    if k == 'tensor0':
        if spec.get('representable32') and seed % 10 in (1, 2):
            v = (3.0, 7.0)[seed % 10 - 1]     # float32 values whose reciprocal is not representable
        return tn.tensor(v, dtype=DT.get(spec.get('dtype', 'float64')))
    if k == 'tensor1':
        return tn.tensor([v], dtype=DT.get(spec.get('dtype', 'float64')))
    if k == 'none':
        return None
    if k == 'list':
        return [1, 2]
    if k == 'str':
        return 'a'
    raise ValueError('scalar kind %r' % k)


def build(inst, key, seed):
    spec = inst[key] if isinstance(key, str) else key
    if isinstance(spec, dict) and spec.get('kind') in ('tt', 'ttm'):
        return mk_tt(spec, seed)
    if isinstance(spec, dict) and spec.get('kind') == 'dense':
        shp = [clampi(s) for s in spec['shape']]
        return tn.randn(shp, dtype=DT.get(spec.get('dtype', 'float64')), generator=tn.Generator().manual_seed(seed))
    if isinstance(spec, dict):
        return mk_scalar(spec, seed)
    return spec


BIN = {
    'add': lambda a, b: a + b, 'sub': lambda a, b: a - b, 'mul': lambda a, b: a * b, 'div': lambda a, b: a / b,
    'matmul': lambda a, b: a @ b,
}


def dense_binary(op, a, b, x, y):
    """dense oracle for op(x, y) where a, b are the dense counterparts"""
    if op == 'kron':
        if x is None:
            return b
        if y is None:
            return a
        if isinstance(x, TT) and x.is_ttm:
            d1, d2 = len(x.N), len(y.N)
            r = tn.einsum(a, list(range(2 * d1)), b, list(range(2 * d1, 2 * d1 + 2 * d2)),
                          list(range(d1)) + list(range(2 * d1, 2 * d1 + d2)) + list(range(d1, 2 * d1)) + list(range(2 * d1 + d2, 2 * d1 + 2 * d2)))
            return r
        return tn.tensordot(a, b, dims=0)
    if op == 'matmul':
        # operator application on the reconstructed arrays
        A, B = x, y
        if isinstance(A, TT) and A.is_ttm and isinstance(B, TT) and not B.is_ttm:
            d = len(A.N)
            return tn.tensordot(a, b, dims=(list(range(d, 2 * d)), list(range(d))))
        if isinstance(A, TT) and not A.is_ttm and isinstance(B, TT) and B.is_ttm:
            d = len(B.N)
            return tn.tensordot(a, b, dims=(list(range(d)), list(range(d))))
        if isinstance(A, TT) and A.is_ttm and isinstance(B, TT) and B.is_ttm:
            d = len(A.N)
            return tn.tensordot(a, b, dims=(list(range(d, 2 * d)), list(range(d))))
        if isinstance(A, TT) and A.is_ttm and tn.is_tensor(B):
            d = len(A.N)
            nb = B.dim() - d
            r = tn.tensordot(b, a, dims=(list(range(nb, nb + d)), list(range(d, 2 * d))))
            return r
        raise ValueError('matmul kinds')
    if isinstance(a, np.generic):
        a = a.item()
    if isinstance(b, np.generic):
        b = b.item()
    return BIN[op](a, b)


def tt_binary(op, x, y):
    if op == 'kron':
        return x ** y
    return BIN[op](x, y)


def drv_tt_op(doc, args, inst):
    """binary operation between TT objects / scalars / dense tensors; checks value, shape, wf, dtype, frame"""
    msgs = []
    for seed in range(3):
        x = build(inst, args['x'], 10 + seed)
        y = build(inst, args['y'], 20 + seed) if args.get('y') is not None else None
        if args.get('reverse'):
            x, y = y, x
        sx, sy = snapshot(x), snapshot(y)
        op = args['op']
        expect_raise = args.get('expect_raise', False)
        try:
            r = tt_binary(op, x, y)
        except Exception as e:
            if expect_raise:
                if 'documented_type' in doc.get('obligation', '') and type(e).__name__ not in ('ShapeMismatch', 'RankMismatch', 'IncompatibleTypes', 'InvalidArguments', 'NotImplementedError'):
                    msgs.append('raises %s (%s) instead of a documented library exception for x=%s y=%s' % (type(e).__name__, str(e)[:80], descr(x), descr(y)))
                    break
                continue
            # does the dense counterpart succeed?
            try:
                dense_binary(op, dense(x), dense(y), x, y)
                msgs.append('real code raises %s: %s on inputs x=%s y=%s where the dense expression is defined' % (type(e).__name__, str(e)[:120], descr(x), descr(y)))
            except Exception as e2:
                msgs.append('real code raises %s: %s (dense counterpart also fails: %s)' % (type(e).__name__, str(e)[:100], str(e2)[:60]))
            continue
        if expect_raise:
            msgs.append('no exception: returned %s for x=%s y=%s' % (descr(r), descr(x), descr(y)))
            continue
        try:
            ref = dense_binary(op, dense(x) if sx is None or 'full' not in sx else sx['full'], dense(y) if sy is None or 'full' not in sy else sy['full'], x, y)
        except Exception as e:
            msgs.append('dense oracle failed: %r' % e)
            continue
        if isinstance(r, TT):
            we = wf_errors(r)
            if we:
                msgs.append('result not well formed: %s' % we)
            try:
                rf = r.full()
            except Exception as e:
                msgs.append('full() of the returned object raises %s: %s (core dtypes %s)' % (type(e).__name__, str(e)[:120], [str(c.dtype) for c in r.cores]))
                break
        else:
            rf = r
        if list(rf.shape) != list(ref.shape):
            msgs.append('shape %s vs dense %s for x=%s y=%s' % (list(rf.shape), list(ref.shape), descr(x), descr(y)))
        else:
            e = relerr(rf, ref)
            tol = 1e-4 if rf.dtype in (tn.float32, tn.complex64) else 1e-11
            if not (e < tol):
                msgs.append('value differs from dense: rel.err %.3e for x=%s y=%s' % (e, descr(x), descr(y)))
        if args.get('check_dtype', True) and isinstance(r, TT):
            want = ref.dtype
            for a_, b_ in ((x, y), (y, x)):
                # a one-element tensor is a scalar operand: the train keeps its dtype ("operands' dtype preserved"), although a
                # *dimensioned* one-element dense tensor takes part in torch's type promotion
                if isinstance(a_, TT) and tn.is_tensor(b_) and b_.numel() == 1 and b_.dim() > 0 and not (b_.is_complex() and not a_.cores[0].is_complex()):
                    want = a_.cores[0].dtype
            if any(c.dtype != want for c in r.cores):
                msgs.append('dtype %s, expected %s' % ([str(c.dtype) for c in r.cores], want))
        if not unchanged(x, sx):
            msgs.append('first operand was modified by the operation (%s)' % descr(x))
        if not unchanged(y, sy):
            msgs.append('second operand was modified by the operation (%s)' % descr(y))
        if msgs:
            break
    return msgs


def descr(x):
    if isinstance(x, TT):
        return ('TTM(M=%s,N=%s,R=%s)' % (x.M, x.N, x.R)) if x.is_ttm else 'TT(N=%s,R=%s)' % (x.N, x.R)
    if tn.is_tensor(x):
        return 'tensor(shape=%s,%s)' % (list(x.shape), x.dtype)
    return repr(x)


DRIVERS = {'tt_op': drv_tt_op}


def main():
    doc = json.load(open(sys.argv[1]))
    drv = doc.get('driver')
    args = doc.get('replay_args') or {}
    inst = doc.get('instance') or {}
    try:
        import replay_drivers
        DRIVERS.update(replay_drivers.DRIVERS)
    except ImportError:
        pass
    if drv not in DRIVERS:
        print('REPLAY-RESULT ' + json.dumps({'status': 'error', 'message': 'no driver %r' % drv}))
        return
    try:
        msgs = DRIVERS[drv](doc, args, inst)
    except Exception:
        print('REPLAY-RESULT ' + json.dumps({'status': 'error', 'message': traceback.format_exc()[-1500:]}))
        return
    if msgs:
        print('REPLAY-RESULT ' + json.dumps({'status': 'reproduced', 'message': '; '.join(msgs)[:1500]}))
    else:
        print('REPLAY-RESULT ' + json.dumps({'status': 'not-reproduced', 'message': 'real code satisfies the property on the replayed instance (3 seeds)'}))


if __name__ == '__main__':
    sys.path.insert(0, __import__('os').path.dirname(__import__('os').path.abspath(__file__)))
    main()
