"""additional replay drivers (run under /venv/bin/python with PYTHONPATH=<repo>)"""
import numpy as np
import torch as tn
import torchtt
from torchtt import TT
from replay import mk_tt, build, snapshot, unchanged, wf_errors, relerr, descr, clampi, DT


def drv_unary(doc, args, inst):
    msgs = []
    for seed in range(3):
        x = build(inst, args['x'], 10 + seed)
        sx = snapshot(x)
        op = args['op']
        try:
            if op == 'neg':
                r, ref = -x, -x.full()
            elif op == 'pos':
                r, ref = +x, x.full()
            elif op == 't':
                r = x.t()
                d = len(x.N)
                ref = x.full().permute(list(range(d, 2 * d)) + list(range(d)))
            elif op == 'conj':
                r, ref = x.conj(), x.full().conj()
            elif op == 'clone':
                r, ref = x.clone(), x.full()
            elif op == 'to_ttm':
                r = x.to_ttm()
                ref = x.full().reshape(list(x.N) + [1] * len(x.N))
            elif op == 'detach':
                r, ref = x.detach(), x.full()
            elif op == 'diag':
                r = torchtt.diag(x)
                if x.is_ttm:
                    d = len(x.N)
                    f = x.full()
                    ref = tn.einsum(f, list(range(d)) + list(range(d)), list(range(d)))
                else:
                    d = len(x.N)
                    ref = tn.zeros(list(x.N) + list(x.N), dtype=x.cores[0].dtype)
                    f = x.full()
                    import itertools
                    for idx in itertools.product(*[range(n) for n in x.N]):
                        ref[idx + idx] = f[idx]
            else:
                return ['unknown unary op %s' % op]
        except Exception as e:
            msgs.append('real code raises %s: %s for x=%s' % (type(e).__name__, str(e)[:150], descr(x)))
            break
        we = wf_errors(r)
        if we:
            msgs.append('result not well formed: %s' % we)
        rf = r.full()
        if list(rf.shape) != list(ref.shape):
            msgs.append('shape %s vs dense %s for x=%s' % (list(rf.shape), list(ref.shape), descr(x)))
        elif not relerr(rf, ref) < 1e-9:
            msgs.append('value differs from dense: rel.err %.3e for x=%s' % (relerr(rf, ref), descr(x)))
        if not unchanged(x, sx):
            msgs.append('operand modified')
        if op in ('neg', 'pos', 'clone'):
            if any(a.data_ptr() == b.data_ptr() for a, b in zip(r.cores, x.cores)):
                msgs.append('result shares storage with the operand')
        if msgs:
            break
    return msgs


def drv_full(doc, args, inst):
    msgs = []
    for seed in range(3):
        x = build(inst, args['x'], 10 + seed)
        try:
            f = x.full()
        except Exception as e:
            return ['full() raises %s: %s for %s' % (type(e).__name__, str(e)[:150], descr(x))]
        want = (list(x.M) + list(x.N)) if x.is_ttm else list(x.N)
        if list(f.shape) != want:
            msgs.append('full().shape %s, expected %s for %s' % (list(f.shape), want, descr(x)))
            break
        # independent reconstruction
        d = len(x.N)
        if x.is_ttm:
            cur = x.cores[0]
            cur = cur.reshape(cur.shape[1], cur.shape[2], cur.shape[3])
            # build by explicit loops over small sizes
            import itertools
            ref = tn.zeros(want, dtype=f.dtype)
            for mi in itertools.product(*[range(m) for m in x.M]):
                for ni in itertools.product(*[range(n) for n in x.N]):
                    v = tn.ones((1, 1), dtype=f.dtype)
                    for k in range(d):
                        v = v @ x.cores[k][:, mi[k], ni[k], :]
                    ref[mi + ni] = v[0, 0]
        else:
            import itertools
            ref = tn.zeros(want, dtype=f.dtype)
            for ni in itertools.product(*[range(n) for n in x.N]):
                v = tn.ones((1, 1), dtype=f.dtype)
                for k in range(d):
                    v = v @ x.cores[k][:, ni[k], :]
                ref[ni] = v[0, 0]
        if not relerr(f, ref) < 1e-9:
            msgs.append('full() differs from the chain product: rel.err %.3e for %s' % (relerr(f, ref), descr(x)))
            break
    return msgs


def drv_factory(doc, args, inst):
    what = args['what']
    ttm = args.get('ttm')
    N = [clampi(n) for n in inst['N']]
    M = [clampi(m) for m in inst['M']] if inst.get('M') else None
    msgs = []
    shape = [(m, n) for m, n in zip(M, N)] if ttm else N
    try:
        if what in ('ones', 'zeros'):
            r = getattr(torchtt, what)(shape)
            ref = getattr(tn, what)((M + N) if ttm else N, dtype=tn.float64)
            pairs = [(r, ref)]
        elif what == 'eye':
            r = torchtt.eye(N)
            n = int(np.prod(N))
            ref = tn.eye(n, dtype=tn.float64).reshape(N + N)
            pairs = [(r, ref)]
        elif what == 'rank1TT':
            vs = [tn.randn([M[k], N[k]] if ttm else [N[k]], dtype=tn.float64) for k in range(len(N))]
            r = torchtt.rank1TT(vs)
            ref = vs[0]
            for v in vs[1:]:
                ref = tn.tensordot(ref, v, dims=0)
            if ttm:
                d = len(N)
                ref = ref.permute([2 * k for k in range(d)] + [2 * k + 1 for k in range(d)])
            pairs = [(r, ref)]
        else:
            vs = [tn.randn([n], dtype=tn.float64) for n in N]
            rs = torchtt.meshgrid(vs)
            refs = tn.meshgrid(*vs, indexing='ij')
            pairs = list(zip(rs, refs))
    except Exception as e:
        return ['%s raises %s: %s (N=%s M=%s)' % (what, type(e).__name__, str(e)[:150], N, M)]
    for r, ref in pairs:
        we = wf_errors(r)
        if we:
            msgs.append('result not well formed: %s' % we)
        f = r.full()
        if list(f.shape) != list(ref.shape):
            msgs.append('%s: shape %s vs %s' % (what, list(f.shape), list(ref.shape)))
        elif not relerr(f, ref) < 1e-12:
            msgs.append('%s: entries differ (rel.err %.2e) N=%s' % (what, relerr(f, ref), N))
    return msgs


DRIVERS = {'unary': drv_unary, 'full': drv_full, 'factory': drv_factory}


def drv_sum(doc, args, inst):
    msgs = []
    for seed in range(3):
        x = build(inst, args['x'], 10 + seed)
        sx = snapshot(x)
        index = args.get('index')
        d = len(x.N)
        f = x.full()
        try:
            if index is None:
                r = x.sum()
                ref = f.sum()
            else:
                r = x.sum(index[0] if args.get('as_int') else list(index))
                dims = list(index) + ([i + d for i in index] if x.is_ttm else [])
                ref = f.sum(dim=dims)
        except Exception as e:
            return ['sum raises %s: %s for %s index=%s' % (type(e).__name__, str(e)[:150], descr(x), index)]
        rf = r.full() if isinstance(r, TT) else r
        if isinstance(r, TT):
            we = wf_errors(r)
            if we:
                msgs.append('result not well formed: %s' % we)
        if list(rf.shape) != list(ref.shape):
            msgs.append('sum(%s) shape %s vs dense %s for %s' % (index, list(rf.shape), list(ref.shape), descr(x)))
        elif not relerr(rf, ref) < 1e-9:
            msgs.append('sum(%s) value differs (rel.err %.2e) for %s' % (index, relerr(rf, ref), descr(x)))
        if not unchanged(x, sx):
            msgs.append('operand modified by sum')
        if msgs:
            break
    return msgs


def drv_norm(doc, args, inst):
    msgs = []
    for seed in range(3):
        x = build(inst, args['x'], 10 + seed)
        if args.get('tracked'):
            for c in x.cores:
                c.requires_grad_(True)
        f = x.full().detach()
        try:
            r = x.norm(bool(args.get('squared')))
        except Exception as e:
            return ['norm raises %s: %s for %s' % (type(e).__name__, str(e)[:150], descr(x))]
        ref = tn.linalg.norm(f)
        if args.get('squared'):
            ref = ref ** 2
        if r.dim() != 0:
            msgs.append('norm returned shape %s' % list(r.shape))
        elif not abs(complex(r.detach()) - complex(ref)) <= 1e-9 * max(1.0, abs(complex(ref))):
            msgs.append('norm %s vs dense %s for %s' % (complex(r.detach()), complex(ref), descr(x)))
        if msgs:
            break
    return msgs


def drv_dot(doc, args, inst):
    msgs = []
    for seed in range(3):
        a = build(inst, args['a'], 10 + seed)
        b = build(inst, args['b'], 20 + seed)
        sa, sb = snapshot(a), snapshot(b)
        axis = args.get('axis')
        fa, fb = a.full(), b.full()
        try:
            if axis is None:
                r = torchtt.dot(a, b)
                ref = (fa * fb.conj()).sum()
            else:
                r = torchtt.dot(a, b, list(axis))
                ref = tn.tensordot(fa, fb.conj(), dims=(list(axis), list(range(len(axis)))))
        except Exception as e:
            return ['dot raises %s: %s for a=%s b=%s axis=%s' % (type(e).__name__, str(e)[:150], descr(a), descr(b), axis)]
        rf = r.full() if isinstance(r, TT) else r
        if list(rf.shape) != list(ref.shape):
            msgs.append('dot shape %s vs dense %s (a=%s b=%s axis=%s)' % (list(rf.shape), list(ref.shape), descr(a), descr(b), axis))
        elif not relerr(rf, ref) < 1e-9:
            msgs.append('dot value differs (rel.err %.2e) (a=%s b=%s axis=%s)' % (relerr(rf, ref), descr(a), descr(b), axis))
        if not unchanged(a, sa) or not unchanged(b, sb):
            msgs.append('operand modified by dot')
        if msgs:
            break
    return msgs


def drv_bilinear(doc, args, inst):
    msgs = []
    for seed in range(3):
        x = build(inst, args['x'], 10 + seed)
        A = build(inst, args['A'], 20 + seed)
        y = build(inst, args['y'], 30 + seed)
        d = len(x.N)
        try:
            r = torchtt.bilinear_form(x, A, y)
        except Exception as e:
            return ['bilinear_form raises %s: %s' % (type(e).__name__, str(e)[:150])]
        ref = tn.tensordot(tn.tensordot(x.full().conj(), A.full(), dims=(list(range(d)), list(range(d)))), y.full(), dims=(list(range(d)), list(range(d))))
        if not relerr(r.reshape([]), ref.reshape([])) < 1e-9:
            msgs.append('bilinear_form %s vs dense %s' % (complex(r), complex(ref)))
            break
    return msgs


DRIVERS.update({'sum': drv_sum, 'norm': drv_norm, 'dot': drv_dot, 'bilinear': drv_bilinear})
